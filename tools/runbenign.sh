#!/bin/bash
# usage: runbenign.sh <dir with <id>/patch.diff> <id>...  -- runs each property-preserving change against the check of its
# property (the id's prefix); a VIOLATION here is a false alarm to triage. Log: $HOME/.cache/verif-logs/ben-<id>.log
D=$1; shift
mkdir -p $HOME/.cache/verif-logs
for id in "$@"; do
  p=${id%%-*}
  out=$(/verif/tools/trymutant.sh $D/$id/patch.diff $p 2>&1)
  echo "$out" > $HOME/.cache/verif-logs/ben-$id.log
  echo "$id $(echo "$out" | grep '^== ' | tr '\n' ' ')" >> $HOME/.cache/verif-logs/benign.summary
done
