#!/bin/bash
# usage: verify_mutants.sh <outdir> <id>...   — confirm each candidate in a scratch worktree of /repo HEAD:
# patch applies, builds, full suite passes, demo fails with patch and passes without.
OUT=$1; shift
export GOFLAGS=-mod=mod GOPROXY=off
WT=/tmp/mutverify-$$
git -C /repo worktree add -q --detach $WT HEAD || exit 2
for id in "$@"; do
  d=$OUT/$id
  res=$d/verify.txt
  : > $res
  cd $WT && git checkout -q -- . && git clean -fdq
  if ! git apply --check $d/patch.diff 2>>$res; then echo "$id: PATCH-DOES-NOT-APPLY" | tee -a $res; continue; fi
  git apply $d/patch.diff
  if ! go build ./... >>$res 2>&1; then echo "$id: BUILD-FAILS" | tee -a $res; continue; fi
  if ! go test -vet=off -count=1 ./... >>$res 2>&1; then echo "$id: SUITE-FAILS-WITH-PATCH" | tee -a $res; continue; fi
  python3 - "$d" "$WT" <<'PY'
import json,sys,shutil,os
d,wt=sys.argv[1],sys.argv[2]
m=json.load(open(d+'/meta.json'))
for f in m['demo_files']:
    dst=os.path.join(wt,f['dst']); os.makedirs(os.path.dirname(dst),exist_ok=True); shutil.copy(os.path.join(d,f['src']),dst)
open(d+'/demo_cmd.txt','w').write(m['demo_cmd'])
PY
  cmd=$(cat $d/demo_cmd.txt)
  if (cd $WT && timeout 600 bash -c "$cmd") >>$res 2>&1; then echo "$id: DEMO-PASSES-WITH-PATCH(bad)" | tee -a $res; continue; fi
  git apply -R $d/patch.diff
  if ! (cd $WT && timeout 600 bash -c "$cmd") >>$res 2>&1; then echo "$id: DEMO-FAILS-WITHOUT-PATCH(bad)" | tee -a $res; continue; fi
  echo "$id: CONFIRMED" | tee -a $res
done
cd /; git -C /repo worktree remove --force $WT
