#!/bin/bash
# usage: dbgmutant.sh <patch.diff> <Cxx>  -- like trymutant.sh for one check, but prints the first recorded history of a violation
P=$(readlink -f "$1"); C=$2
WT=$HOME/.cache/verif-scratch/dbgwt-$$
git -C /repo worktree add -q --detach $WT HEAD || exit 2
trap 'git -C /repo worktree remove --force $WT; rm -rf $WT.ev' EXIT
git -C $WT apply "$P" || { echo "patch does not apply"; exit 2; }
(cd /verif && VERIF_REPO=$WT VERIF_EVIDENCE=$WT.ev timeout 3000 ./check $C ${TIER:-quick} 2>/dev/null | grep -A1 '^VIOLATION' | head -4 | cut -c1-600)
python3 - $WT.ev <<'PY'
import json,glob,sys
fs=sorted(glob.glob(sys.argv[1]+'/replay/*.json'))
if fs:
    r=json.load(open(fs[0])); rp=r.get("replay") or {}; print("WHAT:", r["what"][:1500])
    for k in ('history','run','ops','lines'):
        if isinstance(rp,dict) and k in rp:
            for e in rp[k][-45:]: print(json.dumps(e)[:330])
            break
    else: print(json.dumps(rp)[:3000])
PY
