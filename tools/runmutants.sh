#!/bin/bash
# usage: runmutants.sh <dir with <id>/patch.diff> <id>...   -- runs each seeded change against the check of its property
# (the property is the id's prefix); one line per change in $HOME/.cache/verif-logs/mutants.summary
D=$1; shift
mkdir -p $HOME/.cache/verif-logs
for id in "$@"; do
  p=${id%%-*}
  out=$(/verif/tools/trymutant.sh $D/$id/patch.diff $p 2>&1)
  echo "$out" > $HOME/.cache/verif-logs/mut-$id.log
  echo "$id $(echo "$out" | grep '^== ' | tr '\n' ' ')" >> $HOME/.cache/verif-logs/mutants.summary
done
