#!/bin/bash
# usage: trymutant.sh <patch.diff> <Cxx>...   — apply a seeded change to /repo, run the quick checks, undo it.
P=$1; shift
cd /repo || exit 2
if [ -n "$(git status --porcelain)" ]; then echo "repo dirty"; exit 2; fi
git apply "$P" || { echo "patch does not apply"; exit 2; }
for c in "$@"; do
  out=$(cd /verif && timeout 1500 ./check $c ${TIER:-quick} 2>/dev/null)
  rc=$?
  echo "== $c exit=$rc: $(echo "$out" | grep -c '^VIOLATION') violation line(s)"
  echo "$out" | grep -A1 '^VIOLATION\|^TOOL-TROUBLE\|^KNOWN' | head -${LINES_SHOWN:-6} | cut -c1-400
done
git -C /repo checkout -- . && git -C /repo clean -fdq
