#!/bin/bash
# usage: trymutant.sh <patch.diff> <Cxx>...
# Applies a seeded change to a scratch worktree of /repo HEAD (never to /repo itself), runs the
# checks against that tree (VERIF_REPO), prints their verdicts, removes the worktree.
# Evidence written during a trial goes to a scratch evidence dir (VERIF_EVIDENCE), not /verif/evidence.
P=$(readlink -f "$1"); shift
WT=$HOME/.cache/verif-scratch/mutwt-$$
git -C /repo worktree add -q --detach $WT HEAD || exit 2
trap 'git -C /repo worktree remove --force $WT; rm -rf $WT.ev' EXIT
git -C $WT apply "$P" || { echo "patch does not apply"; exit 2; }
for c in "$@"; do
  out=$(cd /verif && VERIF_REPO=$WT VERIF_EVIDENCE=$WT.ev timeout 3000 ./check $c ${TIER:-quick} 2>/dev/null)
  rc=$?
  echo "== $c exit=$rc: $(echo "$out" | grep -c '^VIOLATION') violation line(s)"
  echo "$out" | grep -A1 '^VIOLATION\|^TOOL-TROUBLE\|^KNOWN' | head -${LINES_SHOWN:-4} | cut -c1-500
done
