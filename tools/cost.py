#!/usr/bin/env python3
"""Fills DESIGN.md §11.7 from evidence/*.json (wall seconds of the last run of each check and what it covered)."""
import glob, json, os, re
V = os.path.dirname(os.path.dirname(os.path.abspath(__file__)))
rows = ["| check | tier | seconds | TLC states (distinct) | model transitions / cases executed on real code | traces validated by TLC |", "|---|---|---|---|---|---|"]
tot = 0
for f in sorted(glob.glob(os.path.join(V, "evidence", "C*.json"))):
    e = json.load(open(f)); c = e["coverage"]
    st = sum(r.get("distinct", 0) for r in c.get("tlc_runs", []) if r.get("mode") == "exhaustive")
    tr = c.get("transitions", c.get("evaluations", 0))
    rows.append("| %s | %s | %d | %s | %s | %s |" % (e["property_id"], e["tier"], e["wall_s"], st, tr, c.get("traces_validated_against_impl", "")))
    tot += e["wall_s"]
block = "<!-- COST-BEGIN -->\n" + "\n".join(rows) + "\n\nSum: %d s (sequential; the checks are independent and can run side by side).\n<!-- COST-END -->" % tot
p = os.path.join(V, "DESIGN.md"); s = open(p).read()
if "COST-PLACEHOLDER" in s:
    s = s.replace("COST-PLACEHOLDER", block)
else:
    s = re.sub(r"<!-- COST-BEGIN -->.*?<!-- COST-END -->", lambda _: block, s, flags=re.S)
open(p, "w").write(s)
print(tot)
