#!/usr/bin/env python3
"""Builds seeded/MATRIX.md and the table of DESIGN.md §11.6 from the logs of tools/runmutants.sh
(~/.cache/verif-logs/mut-<id>.log) and seeded/<id>/meta.json."""
import glob, json, os, re, sys
V = os.path.dirname(os.path.dirname(os.path.abspath(__file__)))
logs = os.path.expanduser("~/.cache/verif-logs")
rows = []
for d in sorted(glob.glob(os.path.join(V, "seeded", "C*-*"))):
    mid = os.path.basename(d)
    m = json.load(open(os.path.join(d, "meta.json")))
    lp = os.path.join(logs, "mut-%s.log" % mid)
    res, first = "not run", ""
    if os.path.exists(lp):
        txt = open(lp, errors="replace").read()
        mm = re.search(r"== (C\d+) exit=(\d+): (\d+) violation", txt)
        if mm:
            res = {"0": "MISSED", "1": "caught", "2": "tool trouble"}.get(mm.group(2), "exit " + mm.group(2))
        ls = [l.strip() for l in txt.splitlines() if l.startswith("  ")]
        if ls:
            first = ls[0][:160].replace("|", "/")
    extra = m.get("caught_by_other", "")
    if m.get("status") == "neutralised":
        res = "quiet (correct: neutralised by a later fix, property holds)" if res == "MISSED" else res + " (neutralised change)"
    rows.append((mid, m.get("summary", "")[:150].replace("|", "/"), m.get("needs", "")[:120].replace("|", "/"), res, first, extra))
out = ["| id | change | needs | own check | first report |", "|---|---|---|---|---|"]
for r in rows:
    out.append("| %s | %s | %s | %s%s | %s |" % (r[0], r[1], r[2], r[3], (" (" + r[5] + ")") if r[5] else "", r[4]))
open(os.path.join(V, "seeded", "MATRIX.md"), "w").write("# Seeded changes vs. checks (quick tier)\n\n" + "\n".join(out) + "\n")
caught = sum(1 for r in rows if r[3] == "caught")
live = sum(1 for r in rows if "neutralised" not in r[3])
print("%d/%d caught by the check of their own property" % (caught, live))
# property-preserving changes: one line per run in benign.summary
ben = {}
bp = os.path.join(logs, "benign.summary")
if os.path.exists(bp):
    for ln in open(bp):
        mm = re.match(r"(C\d+-[bc]\d+) == (C\d+) exit=(\d+)", ln)
        if mm:
            ben[mm.group(1)] = mm.group(3)
quiet = sum(1 for v in ben.values() if v == "0")
print("%d/%d property-preserving changes leave their check quiet" % (quiet, len(ben)))
if "--design" in sys.argv:
    p = os.path.join(V, "DESIGN.md")
    s = open(p).read()
    short = ["| id | change (what the sub-agent did) | own check |", "|---|---|---|"]
    for r in rows:
        short.append("| %s | %s | %s%s |" % (r[0], r[1], r[3], (" (" + r[5] + ")") if r[5] else ""))
    block = "<!-- MATRIX-BEGIN -->\n" + "\n".join(short) + "\n\n%d of %d property-breaking changes are caught by the quick check of their own property.\n<!-- MATRIX-END -->" % (caught, live)
    if "MATRIX-PLACEHOLDER" in s:
        s = s.replace("MATRIX-PLACEHOLDER", block)
    else:
        s = re.sub(r"<!-- MATRIX-BEGIN -->.*?<!-- MATRIX-END -->", lambda _: block, s, flags=re.S)
    nben = len(glob.glob(os.path.join(V, "benign", "C*-*")))
    reach = "all %d" % nben if len(ben) == nben else "%d of the %d (the others were last run before round 7, all quiet then)" % (len(ben), nben)
    bblock = "<!-- BENIGN-BEGIN -->\nLast run (`tools/runbenign.sh`, quick tier, after the strengthenings of rounds 7 and 8, %s): %d of %d leave the check of their property quiet%s.\n<!-- BENIGN-END -->" % (
        reach, quiet, len(ben), "" if quiet == len(ben) else "; alarms: " + ", ".join(sorted(k for k, v in ben.items() if v != "0")))
    if "BENIGN-PLACEHOLDER" in s:
        s = s.replace("BENIGN-PLACEHOLDER", bblock)
    else:
        s = re.sub(r"<!-- BENIGN-BEGIN -->.*?<!-- BENIGN-END -->", lambda _: bblock, s, flags=re.S)
    open(p, "w").write(s)
