"""Per-property check definitions. Each returns (level, coverage, assumptions)."""
import json
import os
import shutil
import subprocess

from vcheck import ToolTrouble, VERIF, NCPU, log, pmap, write_ndjson, split_ndjson

CHECKS = {}


def check(pid):
    def deco(fn):
        CHECKS[pid] = fn
        return fn
    return deco


def validate_trace_chunks(ctx, module, cfg, trace_path, parts, keyfn, whatfn, workers=1, timeout=900, extra_files=None,
                          deque=False):
    """Validate an NDJSON trace in `parts` parallel TLC processes (module reads trace.ndjson).
    On rejection, the offending line index (TLC's variable l) is mapped back to the event."""
    chunks = split_ndjson(trace_path, parts, os.path.dirname(trace_path), "chunk")
    total = {"validated": 0, "states": 0, "generated": 0}

    def one(ch):
        path, base, lines = ch
        files = {"trace.ndjson": path}
        files.update(extra_files or {})
        run = ctx.tlc(module, cfg, files=files, workers=workers, name="chunk%d" % base, timeout=timeout, deque=deque)
        return run, base, lines

    for run, base, lines in pmap(one, chunks, par=min(parts, NCPU)):
        total["states"] += run.distinct
        total["generated"] += run.generated
        if run.code == 0:
            total["validated"] += len(lines)
            continue
        lv = run.var_in_error_state("l")
        if lv is None or not lv.isdigit() or not (1 <= int(lv) <= len(lines)):
            raise ToolTrouble("TLC rejected %s without a usable position:\n%s" % (module, run.tail(30)))
        i = int(lv)
        ev = json.loads(lines[i - 1])
        total["validated"] += i - 1
        ctx.violation(keyfn(ev), whatfn(ev, run), ev)
    return total


# ----------------------------------------------------------------------------- C07
@check("C07")
def c07(ctx):
    th = ctx.thorough
    domains = [{"sigma": [42, 47, 46, 10, 97], "maxp": 3, "maxn": 4}]
    if th:
        domains = [{"sigma": [42, 47, 46, 10, 97, 43], "maxp": 4, "maxn": 4},
                   {"sigma": [42, 92, 91, 36, 94, 97], "maxp": 4, "maxn": 4}]
    else:
        domains.append({"sigma": [42, 92, 36, 97], "maxp": 3, "maxn": 3})
    evals = nontrivial = 0
    states = transitions = 0
    samples = []
    aclmc = ctx.tlc("ACLMC", "ACLMC.cfg", workers=8, timeout=900)
    ctx.tlc_must_pass(aclmc, "ACL lemmas (empty set, monotone, single rule decides)")
    states += aclmc.distinct
    transitions += aclmc.generated
    for di, dom in enumerate(domains):
        shards = 16 if th else 8
        cfgt = open(os.path.join(VERIF, "spec", "cfg", "GlobMC.quick.cfg")).read()

        def one(s):
            return ctx.tlc("GlobMC", cfgt, workers=1 if th else 2, name="dom%d-shard%d" % (di, s), timeout=3000,
                           consts={"Sigma": "{" + ", ".join(map(str, dom["sigma"])) + "}", "MaxP": dom["maxp"],
                                   "MaxN": dom["maxn"], "Shard": s, "NShards": shards}, heap="3g")
        runs = pmap(one, range(shards), par=NCPU)
        wd = os.path.join(ctx.scratch, "c07-table-%d" % di)
        os.makedirs(wd)
        rows = 0
        with open(os.path.join(wd, "rows.ndjson"), "w") as f:
            for r in runs:
                ctx.tlc_must_pass(r, "GlobMC: Match = MatchP, no-star identity, ACL lemmas")
                for row in r.tagged("ROW"):
                    f.write(json.dumps(row) + "\n")
                    rows += 1
            states += runs[0].distinct
            transitions += rows
        json.dump(dom, open(os.path.join(wd, "domain.json"), "w"))
        results, _, _ = ctx.godrive("glob", "^TestTable$", workdir=wd)
        r = ctx.take(results, "glob-table")
        evals += r["counters"]["evaluations"]
        nontrivial += r["counters"]["nontrivial"]
        samples.append({"domain": dom, "patterns": r["counters"]["patterns"], "names": r["counters"]["names"],
                        "pairs_compared": r["counters"]["evaluations"]})
    # direction B: random Unicode patterns / names / rule sets, validated by TLC
    n = 20000 if th else 1500
    results, wd, _ = ctx.godrive("glob", "^TestRandom$", env={"VERIF_N": n, "VERIF_MAXLEN": 40 if th else 24})
    rr = ctx.take(results, "glob-random")
    tot = validate_trace_chunks(
        ctx, "GlobTrace", "GlobTrace.cfg", os.path.join(wd, "trace.ndjson"), 16 if th else 8,
        keyfn=lambda e: "%s p=%s n=%s rules=%s a=%s" % (e["ev"], e.get("p"), e.get("n"), json.dumps(e.get("rules")), e.get("action")),
        whatfn=lambda e, run: "real acl answer %r%s disagrees with the specification for %s" % (
            e["res"], " (panicked)" if e.get("panic") else "", json.dumps(e)[:400]))
    samples += rr.get("samples", [])[:4]
    cov = {"evaluations": evals + rr["counters"]["events"], "distinct_nontrivial": nontrivial + rr["counters"]["distinct"],
           "rule": "exhaustive: every (pattern, name) pair over the listed alphabets and length bounds, expected bit computed by TLC "
                   "from Glob!Match (cross-checked against the independent MatchP inside TLC); non-trivial = pattern has '*' or the pair matches. "
                   "random: generated valid-UTF-8 pattern/name pairs and rule sets (names derived from the pattern, then mutated), each "
                   "answer of the real code validated by TLC as a trace line; distinct by (pattern,name) / (rules,action,name)",
           "samples": samples, "exhaustive": True,
           "exhaustive_pairs": evals, "random_events_validated": tot["validated"],
           "states": states, "transitions": transitions, "traces_validated_against_impl": 1}
    return "exploration", cov, ["regexp and the spec agree on what a code point is (Go runes of valid UTF-8)",
                                "TLC evaluates Glob!Match correctly; Match and MatchP are independent definitions checked equal on the bounded domain"]


def replay(pid, path):
    doc = json.load(open(path))
    print("replay of %s: %s" % (doc.get("key"), doc.get("what")))
    pkg = {"C07": "glob"}.get(pid)
    if not pkg:
        print(json.dumps(doc.get("replay"), indent=1)[:4000])
        return 0
    from vcheck import Ctx
    ctx = Ctx(pid, "quick", int(doc.get("seed", 1)))
    try:
        _, wd, _ = ctx.godrive(pkg, "^TestReplay$", env={"VERIF_REPLAY": os.path.abspath(path)})
        print(open(os.path.join(wd, "driver.out")).read())
    finally:
        ctx.cleanup()
    return 0
