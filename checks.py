"""Per-property check definitions. Each returns (level, coverage, assumptions)."""
import glob as globmod
import json
import os
import shutil
import subprocess

from vcheck import ToolTrouble, VERIF, NCPU, log, pmap, write_ndjson, split_ndjson

CHECKS = {}


def check(pid):
    def deco(fn):
        CHECKS[pid] = fn
        return fn
    return deco


def validate_trace_chunks(ctx, module, cfg, trace_path, parts, keyfn, whatfn, workers=1, timeout=900, extra_files=None,
                          deque=False):
    """Validate an NDJSON trace in `parts` parallel TLC processes (module reads trace.ndjson).
    On rejection, the offending line index (TLC's variable l) is mapped back to the event."""
    chunks = split_ndjson(trace_path, parts, os.path.dirname(trace_path), "chunk")
    total = {"validated": 0, "states": 0, "generated": 0}

    def one(ch):
        path, base, lines = ch
        files = {"trace.ndjson": path}
        files.update(extra_files or {})
        run = ctx.tlc(module, cfg, files=files, workers=workers, name="chunk%d" % base, timeout=timeout, deque=deque)
        return run, base, lines

    for run, base, lines in pmap(one, chunks, par=min(parts, NCPU)):
        total["states"] += run.distinct
        total["generated"] += run.generated
        if run.code == 0:
            total["validated"] += len(lines)
            continue
        lv = run.var_in_error_state("l")
        if lv is None or not lv.isdigit() or not (1 <= int(lv) <= len(lines)):
            raise ToolTrouble("TLC rejected %s without a usable position:\n%s" % (module, run.tail(30)))
        i = int(lv)
        ev = json.loads(lines[i - 1])
        total["validated"] += i - 1
        ctx.violation(keyfn(ev), whatfn(ev, run), ev)
    return total


def tlaps_prove(ctx, module, deps):
    """Machine-check the proofs of spec/<module>.tla with tlapm; returns the number of proof obligations."""
    import re as _re
    d = os.path.join(ctx.scratch, "tlaps-" + module)
    os.makedirs(d, exist_ok=True)
    for f in [module] + list(deps):
        shutil.copy(os.path.join(VERIF, "spec", f + ".tla"), d)
    if shutil.which("tlapm") is None:
        raise ToolTrouble("tlapm is not on PATH")
    try:
        p = subprocess.run(["tlapm", "--threads", str(NCPU), module + ".tla"], cwd=d, capture_output=True, text=True, timeout=900)
    except subprocess.TimeoutExpired:
        raise ToolTrouble("tlapm timed out on " + module)
    out = p.stdout + p.stderr
    m = _re.search(r"All (\d+) obligations? proved", out)
    if p.returncode != 0 or not m:
        raise ToolTrouble("TLAPS could not check the proofs of %s (a problem in the specification, not a verdict on the code):\n%s" % (module, out[-2500:]))
    log("TLAPS %s: %s obligations proved" % (module, m.group(1)))
    return int(m.group(1))


# findings of the struct-field driver that are about lookups (C16), not about what ends up in the fields (C20)
C16_FIELDS_FINDINGS = ("Apply asked the service", "with lookups disabled", "Apply blocked")
# findings of the backup driver that are about confidentiality at rest (C05), not about the backup schedule (C17)
C05_BACKUP_FINDINGS = ("the state directory holds", "the key-encryption key was consulted")


# ----------------------------------------------------------------------------- C07
@check("C07")
def c07(ctx):
    th = ctx.thorough
    obligations = tlaps_prove(ctx, "ACLProofs", ["ACLDefs"])
    domains = [{"sigma": [42, 47, 46, 10, 97], "maxp": 3, "maxn": 4}]
    if th:
        domains = [{"sigma": [42, 47, 46, 10, 97, 43], "maxp": 4, "maxn": 4},
                   {"sigma": [42, 92, 91, 36, 94, 97], "maxp": 4, "maxn": 4},
                   {"sigma": [42, 92, 69, 81, 100], "maxp": 5, "maxn": 4}]
    else:
        domains.append({"sigma": [42, 92, 36, 97], "maxp": 3, "maxn": 3})
        # the letters that regular-expression dialects give a meaning after a backslash (\\E ends a quotation, \\Q starts one)
        domains.append({"sigma": [42, 92, 69, 81], "maxp": 4, "maxn": 3})
    evals = nontrivial = 0
    states = transitions = 0
    samples = []
    aclmc = ctx.tlc("ACLMC", "ACLMC.cfg", workers=8, timeout=900)
    ctx.tlc_must_pass(aclmc, "ACL lemmas (empty set, monotone, single rule decides)")
    states += aclmc.distinct
    transitions += aclmc.generated
    for di, dom in enumerate(domains):
        shards = 16 if th else 8
        cfgt = open(os.path.join(VERIF, "spec", "cfg", "GlobMC.quick.cfg")).read()

        def one(s):
            return ctx.tlc("GlobMC", cfgt, workers=1 if th else 2, name="dom%d-shard%d" % (di, s), timeout=3000,
                           consts={"Sigma": "{" + ", ".join(map(str, dom["sigma"])) + "}", "MaxP": dom["maxp"],
                                   "MaxN": dom["maxn"], "Shard": s, "NShards": shards}, heap="3g")
        runs = pmap(one, range(shards), par=NCPU)
        wd = os.path.join(ctx.scratch, "c07-table-%d" % di)
        os.makedirs(wd)
        rows = 0
        with open(os.path.join(wd, "rows.ndjson"), "w") as f:
            for r in runs:
                ctx.tlc_must_pass(r, "GlobMC: Match = MatchP, no-star identity, ACL lemmas")
                for row in r.tagged("ROW"):
                    f.write(json.dumps(row) + "\n")
                    rows += 1
            states += runs[0].distinct
            transitions += rows
        json.dump(dom, open(os.path.join(wd, "domain.json"), "w"))
        results, _, _ = ctx.godrive("glob", "^TestTable$", workdir=wd)
        r = ctx.take(results, "glob-table")
        evals += r["counters"]["evaluations"]
        nontrivial += r["counters"]["nontrivial"]
        samples.append({"domain": dom, "patterns": r["counters"]["patterns"], "names": r["counters"]["names"],
                        "pairs_compared": r["counters"]["evaluations"]})
    # direction B: random Unicode patterns / names / rule sets, validated by TLC
    n = 20000 if th else 1500
    results, wd, _ = ctx.godrive("glob", "^TestRandom$", env={"VERIF_N": n, "VERIF_MAXLEN": 40 if th else 24})
    rr = ctx.take(results, "glob-random")
    tot = validate_trace_chunks(
        ctx, "GlobTrace", "GlobTrace.cfg", os.path.join(wd, "trace.ndjson"), 16 if th else 8,
        keyfn=lambda e: "%s p=%s n=%s rules=%s a=%s" % (e["ev"], e.get("p"), e.get("n"), json.dumps(e.get("rules")), e.get("action")),
        whatfn=lambda e, run: "real acl answer %r%s disagrees with the specification for %s" % (
            e["res"], " (panicked)" if e.get("panic") else "", json.dumps(e)[:400]))
    samples += rr.get("samples", [])[:4]
    cov = {"evaluations": evals + rr["counters"]["events"], "distinct_nontrivial": nontrivial + rr["counters"]["distinct"],
           "rule": "exhaustive: every (pattern, name) pair over the listed alphabets and length bounds, expected bit computed by TLC "
                   "from Glob!Match (cross-checked against the independent MatchP inside TLC); non-trivial = pattern has '*' or the pair matches. "
                   "random: generated valid-UTF-8 pattern/name pairs and rule sets (names derived from the pattern, then mutated), each "
                   "answer of the real code validated by TLC as a trace line; distinct by (pattern,name) / (rules,action,name)",
           "samples": samples, "exhaustive": True,
           "exhaustive_pairs": evals, "random_events_validated": tot["validated"],
           "states": states, "transitions": transitions, "traces_validated_against_impl": 1,
           "tlaps_obligations_proved": obligations,
           "tlaps_theorems": "EmptyDenies, NoActionNoGrant, NoPatternNoGrant, MonotoneRight, MonotoneLeft, OnlyFromParts (rule sets of any length, any matcher)"}
    return "exploration", cov, ["regexp and the spec agree on what a code point is (Go runes of valid UTF-8)",
                                "TLC evaluates Glob!Match correctly; Match and MatchP are independent definitions checked equal on the bounded domain"]


def replay(pid, path):
    doc = json.load(open(path))
    print("replay of %s: %s" % (doc.get("key"), doc.get("what")))
    pkg = {"C07": "glob"}.get(pid)
    if not pkg:
        print(json.dumps(doc.get("replay"), indent=1)[:4000])
        return 0
    from vcheck import Ctx
    ctx = Ctx(pid, "quick", int(doc.get("seed", 1)))
    try:
        _, wd, _ = ctx.godrive(pkg, "^TestReplay$", env={"VERIF_REPLAY": os.path.abspath(path)})
        print(open(os.path.join(wd, "driver.out")).read())
    finally:
        ctx.cleanup()
    return 0


# ----------------------------------------------------------------------------- Vault family helpers
def norm_proj(proj):
    out = []
    for s in proj:
        out.append({"name": s["name"], "active": s["active"], "latest": s["latest"],
                    "vers": sorted(s["vers"], key=lambda v: v["v"])})
    return sorted(out, key=lambda s: s["name"])


def build_graph(run, path):
    """Turn TLC's EDGE lines into graph.json (states numbered by canonical projection)."""
    ids, states, edges = {}, [], []

    def sid(proj, audit):
        p = norm_proj(proj)
        k = json.dumps([p, audit], sort_keys=True)
        if k not in ids:
            ids[k] = len(states)
            states.append({"proj": p, "audit": audit})
        return ids[k]
    init = sid([], True)
    n = 0
    for e in run.tagged("EDGE"):
        ed = {"f": sid(e["from"], e["fa"]), "t": sid(e["to"], e["ta"]), "op": e["op"]}
        if "req" in e:
            ed["req"], ed["http"] = e["req"], e["http"]
        edges.append(ed)
        n += 1
    callers = {} if any("req" in e for e in edges[:1]) else None
    for c in run.tagged("CALLERS"):
        callers = c
    if callers is None or n == 0:
        raise ToolTrouble("TLC emitted no edges/callers:\n" + run.tail(20))
    if n + 1 < run.generated - 1:
        raise ToolTrouble("TLC generated %d transitions but %d EDGE lines were parsed" % (run.generated, n))
    json.dump({"states": states, "init": init, "edges": edges, "callers": callers}, open(path, "w"))
    return len(states), len(edges)


def vault_cfg(names, vals, maxver, mode="su", faults=("none",), reopen=True, emit=True):
    q = lambda xs: "{" + ", ".join('"%s"' % x for x in xs) + "}"
    return """CONSTANTS
  NameSet = %s
  Vals = %s
  MaxVer = %d
  Nil = Nil
  CallerMode = "%s"
  Faults = %s
  WithReopen = %s
  EmitEdges = %s
INIT Init
NEXT Next
VIEW View
INVARIANTS TypeOK Durable
PROPERTY StepOK
ACTION_CONSTRAINT Emit
CHECK_DEADLOCK FALSE
""" % (q(names), q(vals), maxver, mode, q(faults), "TRUE" if reopen else "FALSE", "TRUE" if emit else "FALSE")


def vault_graph(ctx, name, cfg, workers=4, timeout=3000):
    run = ctx.tlc("VaultMC", cfg, workers=workers, name=name, timeout=timeout, heap="8g")
    ctx.tlc_must_pass(run, "Vault invariants and step properties on config " + name)
    wd = os.path.join(ctx.scratch, "graph-" + name)
    os.makedirs(wd, exist_ok=True)
    ns, ne = build_graph(run, os.path.join(wd, "graph.json"))
    log("graph %s: %d states, %d edges" % (name, ns, ne))
    return wd, run, ns, ne


def vault_walk(ctx, wd, name, shards=1, env=None, race=False):
    """Replay graph.json in `shards` parallel driver processes; returns merged counters + samples."""
    base_env = dict(env or {})

    def one(s):
        e = dict(base_env)
        e.update({"VERIF_SHARD": s, "VERIF_NSHARDS": shards, "VERIF_NAME": "%s-%d" % (name, s)})
        sub = os.path.join(wd, "shard-%s-%d" % (name, s))
        os.makedirs(sub, exist_ok=True)
        if not os.path.exists(os.path.join(sub, "graph.json")):
            os.symlink(os.path.join(wd, "graph.json"), os.path.join(sub, "graph.json"))
        results, _, _ = ctx.godrive("vault", "^TestReplayGraph$", env=e, workdir=sub, name="%s-%d" % (name, s), race=race, timeout=3400)
        return ctx.take(results, "%s-%d" % (name, s))
    ctx.gobuild("vault", race)
    tot, samples, notes = {}, [], []
    visited = set()
    for r in pmap(one, range(shards), par=min(shards, NCPU)):
        visited.update((r.get("extra") or {}).get("visited") or [])
        for k, v in r["counters"].items():
            tot[k] = tot.get(k, 0) + v
        samples += (r.get("samples") or [])[:2]
        notes += r.get("notes") or []
    tot["states_visited"] = len(visited)
    for n in notes[:10]:
        ctx.note(n)
    if tot.get("target_edges_left", 0) and not ctx.violations:
        raise ToolTrouble("%s: %d target edges could not be reached on the real system" % (name, tot["target_edges_left"]))
    return tot, samples


# ----------------------------------------------------------------------------- C02
@check("C02")
def c02(ctx):
    th = ctx.thorough
    cfg = vault_cfg(["A", "B"], ["x", "y", "E"] if th else ["x", "E"], 3)
    wd, run, ns, ne = vault_graph(ctx, "c02", cfg, workers=8 if th else 4)
    tot, samples = vault_walk(ctx, wd, "c02", shards=16 if th else 4, env={"VERIF_PROBE_EVERY": 1 if th else 4})
    # a deeper single-name instance (more versions)
    cfg2 = vault_cfg(["A"], ["x", "y", "E"] if th else ["x", "E"], 5 if th else 4)
    wd2, run2, ns2, ne2 = vault_graph(ctx, "c02deep", cfg2, workers=4)
    tot2, samples2 = vault_walk(ctx, wd2, "c02deep", shards=4 if th else 2, env={"VERIF_PROBE_EVERY": 1})
    # the same graphs once more with the observer kept away from the live instance (it reads a copy of the file): whatever the
    # instance caches is then refreshed only by the calls of the walk itself, so a stale answer to info / list is not hidden
    tot3, _ = vault_walk(ctx, wd2, "c02deep-quiet", shards=4 if th else 2, env={"VERIF_PROBE_EVERY": 1, "VERIF_OBSERVE_COPY": 1})
    tot4, _ = vault_walk(ctx, wd, "c02-quiet", shards=16 if th else 4, env={"VERIF_PROBE_EVERY": 4, "VERIF_OBSERVE_COPY": 1})
    tot2 = merge_tot(tot2, tot3, tot4)
    cov = {"states": ns + ns2, "transitions": tot.get("targets_covered", 0) + tot2.get("targets_covered", 0),
           "traces_validated_against_impl": 0,
           "samples": samples[:3] + samples2[:2],
           "model_transitions": ne + ne2, "edges_executed_on_real_code": tot.get("edges_executed", 0) + tot2.get("edges_executed", 0),
           "states_reached_on_real_code": tot.get("states_visited", 0) + tot2.get("states_visited", 0),
           "counter_probes": tot.get("probes", 0) + tot2.get("probes", 0), "exhaustive": True,
           "explanation": "TLC enumerated the complete labelled transition graph of Vault (superuser; every operation with every argument incl. "
                          "version 0 and MaxVer+1, reopen from every state) for the listed constants; every edge was executed on the real db.DB "
                          "from a real state equal to its pre-state; reply, audit record, save flag, KEK use and the full projected state "
                          "(incl. next-version counters probed on a copy of the file) compared after every call."}
    return "model_checking", cov, ["model constants: Names {A,B}, Vals {x,(y),E}, MaxVer 3; single name MaxVer 4/5",
                                   "the superuser API (list/info/get-version/get) is the observation of the real state"]


def split_traces(path, parts):
    """Split a multi-history trace (histories start with a 'reset' line) into `parts` lists of histories."""
    hist, cur = [], []
    for line in open(path):
        line = line.rstrip("\n")
        if not line:
            continue
        if line.startswith('{"ev":"reset"') and cur:
            hist.append(cur)
            cur = []
        cur.append(line)
    if cur:
        hist.append(cur)
    buckets = [[] for _ in range(max(1, min(parts, len(hist))))]
    for i, h in enumerate(hist):
        buckets[i % len(buckets)].append(h)
    return buckets


def validate_histories(ctx, module, cfg, trace_path, parts, extra_files=None, what="history", deque=False, timeout=900,
                       describe=None, workers=1):
    """Validate many recorded histories with TLC. A rejected history is reported (with the longest accepted
    prefix and the first line the specification cannot follow), removed, and the rest is validated again."""
    buckets = split_traces(trace_path, parts)
    stats = {"histories": 0, "accepted": 0, "events": 0, "states": 0, "rejected": 0}

    def one(bi):
        hs = buckets[bi]
        out = {"accepted": 0, "events": 0, "states": 0, "rejected": []}
        rounds = 0
        while hs and rounds < 6:
            rounds += 1
            lines = [l for h in hs for l in h]
            data = ("\n".join(lines) + "\n").encode()
            files = {"trace.ndjson": data}
            files.update(extra_files or {})
            run = ctx.tlc(module, cfg, files=files, workers=workers, name="b%d-r%d" % (bi, rounds), timeout=timeout, deque=deque)
            out["states"] += run.distinct
            hw = None
            for ln in open(run.out, errors="replace"):
                if ln.startswith('<<"HW", '):
                    hw = int(ln.split(",")[1].strip(" >\n"))
            if run.code == 0:
                out["accepted"] += len(hs)
                out["events"] += len(lines)
                break
            if hw is None or any(("Invariant" in e or "property" in e.lower()) for e in run.errors):
                # an invariant of the specification failed on a state reached by the trace
                lv = run.var_in_error_state("l")
                if lv and lv.isdigit():
                    hw = int(lv) - 1 if int(lv) > 1 else 1
                else:
                    raise ToolTrouble("TLC failed on %s without a usable position:\n%s" % (module, run.tail(40)))
                why = "an invariant/step property of the specification is violated after this event: " + (run.error or "")
            else:
                why = "the specification has no behaviour that continues with this event"
            if hw < 1 or hw > len(lines):
                raise ToolTrouble("TLC rejected the trace but reported position %s of %d:\n%s" % (hw, len(lines), run.tail(30)))
            # locate the history containing line hw
            pos, idx = 0, None
            for i, h in enumerate(hs):
                if pos + len(h) >= hw:
                    idx = i
                    break
                pos += len(h)
            h = hs[idx]
            k = hw - pos  # 1-based index inside the history
            out["accepted"] += idx
            out["events"] += pos
            out["rejected"].append({"history": h[:k], "line": json.loads(h[k - 1]), "why": why,
                                    "state": run.trace_state[-1500:] if run.trace_state else ""})
            hs = hs[idx + 1:]
        return out
    for o in pmap(one, range(len(buckets)), par=NCPU):
        stats["accepted"] += o["accepted"]
        stats["events"] += o["events"]
        stats["states"] += o["states"]
        for rj in o["rejected"]:
            stats["rejected"] += 1
            ev = rj["line"]
            desc = describe(ev) if describe else json.dumps(ev)[:300]
            ctx.violation("%s rejected at %s" % (what, desc),
                          "TLC rejects a recorded %s after %d accepted event(s): %s. First unmatched event: %s" % (
                              what, len(rj["history"]) - 1, rj["why"], json.dumps(ev)[:900]),
                          {"kind": "trace", "history": [json.loads(x) for x in rj["history"]]})
    stats["histories"] = sum(len(b) for b in buckets)
    return stats


def describe_vault_event(ev):
    if ev.get("ev") != "op":
        return ev.get("ev", "?")
    return "%s(%s,%r,ver=%s,val=%s)!%s via %s -> %s" % (ev["op"], ev["who"], ev["name"], ev["ver"], ev["val"], ev["fault"],
                                                        ev.get("via"), ev["reply"]["class"])


def vault_random(ctx, mode, traces, events, nofaults=False, parts=8):
    env = {"VERIF_TRACES": traces, "VERIF_EVENTS": events, "VERIF_MODE": mode}
    if nofaults:
        env["VERIF_NOFAULTS"] = "1"
    results, wd, _ = ctx.godrive("vault", "^TestRandomHistories$", env=env, name="random-" + mode)
    r = ctx.take(results, "vault-random")
    st = validate_histories(ctx, "VaultTrace", "VaultTrace.cfg", os.path.join(wd, "trace.ndjson"), parts,
                            extra_files={"dict.ndjson": os.path.join(wd, "dict.ndjson")}, what="history (%s)" % mode,
                            describe=describe_vault_event)
    return r, st


def merge_tot(*tots):
    out = {}
    for t in tots:
        for k, v in t.items():
            out[k] = out.get(k, 0) + v
    return out


# ----------------------------------------------------------------------------- C01
@check("C01")
def c01(ctx):
    th = ctx.thorough
    # (1) every caller of the rule-set family x every operation x every name class x every state
    small = vault_cfg(["A", "_internal/X", ""], ["x", "E"], 2, mode="acl", reopen=False)
    wd, run, ns, ne = vault_graph(ctx, "c01small", small, workers=8)
    t1, s1 = vault_walk(ctx, wd, "c01small-db", shards=4, env={"VERIF_PROBE_EVERY": 16})
    t2, s2 = vault_walk(ctx, wd, "c01small-http", shards=4, env={"VERIF_PROBE_EVERY": 16, "VERIF_MODE": "http"})
    full = vault_cfg(["A", "B", "_internal/X", ""], ["x", "E"], 2, mode="acl", reopen=False)
    wdf, runf, nsf, nef = vault_graph(ctx, "c01full", full, workers=8)
    pct = 100 if th else 12
    t3, s3 = vault_walk(ctx, wdf, "c01full-db", shards=16 if th else 6, env={"VERIF_PROBE_EVERY": 16, "VERIF_SAMPLE_PCT": pct})
    t4, s4 = vault_walk(ctx, wdf, "c01full-http", shards=16 if th else 6,
                        env={"VERIF_PROBE_EVERY": 16, "VERIF_SAMPLE_PCT": pct, "VERIF_MODE": "http"})
    # (2) arbitrary rule sets: random histories validated by TLC (Allow recomputed from the rules in the trace)
    r1, v1 = vault_random(ctx, "db", 1500 if th else 150, 40, parts=16 if th else 8)
    r2, v2 = vault_random(ctx, "http", 1500 if th else 150, 40, nofaults=True, parts=16 if th else 8)
    # (3) callers with partial or no grants racing authorized ones, at the database API and through the handlers: the verdict of one
    # request must never come from another that overlaps it (TLC places the Apply steps; VaultConc computes Allow per caller)
    rc1, sc1 = conc_histories(ctx, "db", 1200 if th else 120, race=True, parts=16 if th else 8, opmix="acl")
    rc2, sc2 = conc_histories(ctx, "http", 800 if th else 80, race=True, parts=16 if th else 8, opmix="acl")
    rc3, sc3 = conc_histories(ctx, "http", 800 if th else 120, race=True, parts=16 if th else 8, opmix="same")
    sc2 = {k: sc2[k] + sc3[k] for k in sc2}
    tot = merge_tot(t1, t2, t3, t4)
    cov = {"states": ns + nsf, "transitions": tot.get("targets_covered", 0),
           "traces_validated_against_impl": v1["accepted"] + v2["accepted"] + sc1["accepted"] + sc2["accepted"],
           "concurrent_histories_mixed_grants": sc1["histories"] + sc2["histories"],
           "samples": (s1[:1] + s2[:1] + s3[:1] + (r1.get("samples") or [])[:2]),
           "model_transitions": ne + nef, "edges_executed_on_real_code": tot.get("edges_executed", 0),
           "trace_events_validated": v1["events"] + v2["events"], "callers_in_family": 39,
           "exhaustive": bool(th),
           "explanation": "TLC enumerated every (caller of the rule-set family: all-access, empty, each single action x pattern rule, split rules, "
                          "multi-rule) x (operation, arguments) x (existing / absent / reserved / empty name) transition in every reachable state; "
                          "each was executed through db.DB and through the HTTP handlers, comparing reply class, payload, audit record and the "
                          "full state before/after. Random histories with arbitrary generated rule sets were validated line by line by TLC, "
                          "which recomputes Allow with the specification's own matcher."}
    return "model_checking", cov, ["quick tier samples %d%% of the 4-name graph; the 3-name graph is always complete" % pct,
                                   "WhoIs is the injected seam carrying the caller's rules"]


# ----------------------------------------------------------------------------- C09
@check("C09")
def c09(ctx):
    th = ctx.thorough
    cfg = vault_cfg(["A", "B"], ["x", "y", "E"] if th else ["x", "E"], 3)
    wd, run, ns, ne = vault_graph(ctx, "c09", cfg, workers=8 if th else 4)
    t1, s1 = vault_walk(ctx, wd, "c09-db", shards=16 if th else 4, env={"VERIF_OPS": "getcond", "VERIF_FILECLIENT": 1, "VERIF_PROBE_EVERY": 64})
    t2, s2 = vault_walk(ctx, wd, "c09-http", shards=16 if th else 4, env={"VERIF_OPS": "getcond,get", "VERIF_MODE": "http", "VERIF_PROBE_EVERY": 64})
    tot = merge_tot(t1, t2)
    # conditional gets racing activations / puts / deletions: the check-and-read must be one atomic step (VaultConc: LogApply)
    rc, sc = conc_histories(ctx, "db", 1500 if th else 200, race=True, parts=16 if th else 8, opmix="cond")
    # ... and through the HTTP handlers (overlapping conditional gets carrying different versions must each get their own answer)
    rch, sch = conc_histories(ctx, "http", 1000 if th else 120, race=True, parts=16 if th else 8, opmix="cond")
    cov = {"states": ns, "transitions": tot.get("targets_covered", 0), "traces_validated_against_impl": sc["accepted"] + sch["accepted"],
           "concurrent_histories": sc["histories"] + sch["histories"],
           "samples": s1[:2] + s2[:2], "model_transitions": ne, "edges_executed_on_real_code": tot.get("edges_executed", 0),
           "fileclient_checks": tot.get("fileclient_checks", 0), "exhaustive": True,
           "explanation": "every conditional-get edge of the bounded Vault graph (every V in 0..MaxVer+1: current, older, newer, deleted, "
                          "never-existing, 0; in every reachable state incl. activation back to an older version) executed through db.DB, "
                          "through HTTP handler + setec.Client.GetIfChanged, and against a FileClient built from the state's active versions"}
    return "model_checking", cov, ["FileClient omits empty-valued secrets by design (property: 'when non-empty')"]


# ----------------------------------------------------------------------------- C03
@check("C03")
def c03(ctx):
    th = ctx.thorough
    cfg = vault_cfg(["A", "B"], ["x", "y", "E"] if th else ["x", "E"], 3)
    wd, run, ns, ne = vault_graph(ctx, "c03", cfg, workers=8 if th else 4)
    # restart after every single operation; counters probed after every restart
    t1, s1 = vault_walk(ctx, wd, "c03", shards=16 if th else 6,
                        env={"VERIF_REOPEN_EACH": 1, "VERIF_PROBE_EVERY": 1, "VERIF_SAMPLE_PCT": 100 if th else 40})
    # what was acknowledged survives also when other calls failed in between: the same walk with failing saves (an error reply
    # acknowledges nothing; the next successful save and a restart must show exactly the acknowledged state)
    cfgf = vault_cfg(["A"], ["x", "E"], 3, faults=("none", "save"))
    wdf, runf, nsf, nef = vault_graph(ctx, "c03faults", cfgf, workers=4)
    t2, s2 = vault_walk(ctx, wdf, "c03faults", shards=8 if th else 4, env={"VERIF_REOPEN_EACH": 1, "VERIF_PROBE_EVERY": 1})
    # ... and with two names, the file watched instead of the live instance (after every call a copy of the file is opened and
    # must hold exactly the acknowledged state): a failed save of one secret must not ride along with the next successful save of another
    cfgf2 = vault_cfg(["A", "B"], ["x", "E"], 3 if th else 2, faults=("none", "save"))
    wdf2, runf2, nsf2, nef2 = vault_graph(ctx, "c03faults2", cfgf2, workers=8)
    t3, s3 = vault_walk(ctx, wdf2, "c03faults2", shards=16 if th else 6, env={"VERIF_OBSERVE_COPY": 1, "VERIF_PROBE_EVERY": 16, "VERIF_AFTER_FAULT": 1})
    t1 = merge_tot(t1, t2, t3)
    ns, ne = ns + nsf + nsf2, ne + nef + nef2
    gold = golden_check(ctx)
    # concurrent mutating calls (race detector on): once all have returned, a copy of the file must hold exactly what the server
    # serves -- saves that overlap must not leave an older snapshot behind
    rcc, scc = conc_histories(ctx, "db", 1500 if th else 200, race=True, parts=16 if th else 8)
    cov = {"states": ns, "transitions": t1.get("targets_covered", 0), "traces_validated_against_impl": gold["validated"] + scc["accepted"],
           "concurrent_histories": scc["histories"],
           "samples": s1[:2] + gold["samples"], "restarts_after_operation": t1.get("reopens_after_op", 0),
           "golden_files": gold["files"], "model_transitions": ne, "exhaustive": bool(th),
           "explanation": "walk of the bounded Vault graph with db.Open on the same file/key after every call: projection incl. next-version "
                          "counters must equal the model state and the file bytes must be untouched by the open; golden schema-v1 files written "
                          "by the pinned tree are opened by the current build and the observed state is appended to the history that produced "
                          "them, which TLC validates against Vault"}
    return "model_checking", cov, ["golden files were produced by the pinned commit with the committed cleartext test keyset"]


# ----------------------------------------------------------------------------- C06
@check("C06")
def c06(ctx):
    th = ctx.thorough
    faults = ("none", "auditWrite", "auditSync", "save", "latched")
    cfg = vault_cfg(["A", "B"] if th else ["A"], ["x", "E"], 2, mode="few", faults=faults, reopen=True)
    wd, run, ns, ne = vault_graph(ctx, "c06", cfg, workers=8)
    t1, s1 = vault_walk(ctx, wd, "c06-db", shards=16 if th else 4, env={"VERIF_PROBE_EVERY": 8})
    cfg2 = vault_cfg(["A"], ["x", "E"], 2, mode="few", faults=("none", "auditWrite", "auditSync", "latched"), reopen=True)
    wd2, run2, ns2, ne2 = vault_graph(ctx, "c06h", cfg2, workers=8)
    t2, s2 = vault_walk(ctx, wd2, "c06-http", shards=4, env={"VERIF_PROBE_EVERY": 8, "VERIF_MODE": "http"})
    r1, v1 = vault_random(ctx, "db", 1200 if th else 120, 50, parts=16 if th else 8)
    conc = audit_concurrent(ctx)
    tot = merge_tot(t1, t2)
    cov = {"states": ns + ns2, "transitions": tot.get("targets_covered", 0),
           "traces_validated_against_impl": v1["accepted"] + conc["accepted"],
           "samples": s1[:2] + s2[:1] + conc["samples"][:1], "model_transitions": ne + ne2,
           "edges_executed_on_real_code": tot.get("edges_executed", 0),
           "concurrent_audit_histories": conc["histories"], "concurrent_audit_lines": conc["lines"], "exhaustive": True,
           "explanation": "graph with an audit sink failing at the write or at the sync of any record and a save failing, for authorized and "
                          "unauthorized callers: per call the records written (principal, action, secret, version, authorized; one complete "
                          "synced JSON line; database file still untouched when the record is written) must equal the specification's; a failed "
                          "record means error, no payload, no change; whether later calls then keep failing closed (the pinned writer latches its first error) or work again is left to the implementation, and the walk follows whichever the real code does. "
                          "Concurrent callers append to a real audit.NewFile file; every line must parse and the per-principal record sequence "
                          "must equal what the TLC-validated history prescribes."}
    return "model_checking", cov, ["the audit sink is an io.Writer with Sync owned by the harness; the concurrent part uses a real file"]


# ----------------------------------------------------------------------------- concurrent histories (C14, C06)
def validate_conc(ctx, wd, parts, what):
    """Linearizability search by TLC over recorded concurrent histories (VaultConcTrace).
    Acceptance = invariant NotDone violated (all lines explained); completion without it = rejection."""
    buckets = split_traces(os.path.join(wd, "trace.ndjson"), parts)
    audit_side = [json.loads(x) for x in open(os.path.join(wd, "audit.ndjson")) if x.strip()]
    stats = {"histories": sum(len(b) for b in buckets), "accepted": 0, "states": 0, "rejected": 0}

    def one(bi):
        hs = list(buckets[bi])
        out = {"accepted": 0, "states": 0, "rejected": []}
        rounds = 0
        while hs and rounds < 5:
            rounds += 1
            # renumber the side audit cursor for this bucket
            lines, side = [], []
            for h in hs:
                fin = json.loads(h[-1])
                k = fin.get("auditlines", 0) if audit_side else 0
                hh = list(h)
                if audit_side:
                    upto = fin["aupto"]
                    seg = audit_side[upto - k:upto]
                    side += seg
                    fin["aupto"] = len(side)
                    hh[-1] = json.dumps(fin, separators=(",", ":"))
                lines += hh
            files = {"trace.ndjson": ("\n".join(lines) + "\n").encode(),
                     "audit.ndjson": ("".join(json.dumps(x, separators=(",", ":")) + "\n" for x in side)).encode(),
                     "dict.ndjson": os.path.join(wd, "dict.ndjson")}
            run = ctx.tlc("VaultConcTrace", "VaultConcTrace.cfg", files=files, workers=1, deque=True,
                          name="%s-b%d-r%d" % (what, bi, rounds), timeout=1500, heap="3g")
            out["states"] += run.distinct
            errs = " ".join(run.errors)
            if run.code != 0 and "NotDone" in errs:
                out["accepted"] += len(hs)
                break
            if run.code != 0:
                if "Invariant" in errs:
                    lv = run.var_in_error_state("l")
                    hw = int(lv) if lv and lv.isdigit() else None
                    why = "an invariant of the specification is violated: " + errs[:200]
                else:
                    raise ToolTrouble("TLC failed on VaultConcTrace:\n" + run.tail(40))
            else:
                hw = None
                for ln in open(run.out, errors="replace"):
                    if ln.startswith('<<"HW", '):
                        hw = int(ln.split(",")[1].strip(" >\n"))
                why = "no placement of linearization points explains the recorded replies, audit records and final state"
            if hw is None or hw < 1 or hw > len(lines):
                raise ToolTrouble("TLC rejected concurrent histories without a usable position:\n" + run.tail(30))
            pos, idx = 0, None
            for i, h in enumerate(hs):
                if pos + len(h) >= hw:
                    idx = i
                    break
                pos += len(h)
            out["accepted"] += idx
            out["rejected"].append({"history": hs[idx], "at": hw - pos, "why": why})
            hs = hs[idx + 1:]
        return out
    for o in pmap(one, range(len(buckets)), par=NCPU):
        stats["accepted"] += o["accepted"]
        stats["states"] += o["states"]
        for rj in o["rejected"]:
            stats["rejected"] += 1
            h = [json.loads(x) for x in rj["history"]]
            ev = h[min(rj["at"], len(h)) - 1]
            ctx.violation("concurrent history (%s) rejected at %s %s" % (what, ev.get("ev"), ev.get("op", ev.get("cl", ""))),
                          "TLC finds no linearization of a recorded concurrent history: %s; the search got as far as line %d: %s" % (
                              rj["why"], rj["at"], json.dumps(ev)[:600]),
                          {"kind": "conc-history", "history": h})
    return stats


def conc_histories(ctx, mode, n, race=True, auditfile=False, parts=8, opmix=None):
    env = {"VERIF_TRACES": n, "VERIF_MODE": mode}
    if auditfile:
        env["VERIF_AUDITFILE"] = 1
    if opmix:
        env["VERIF_OPMIX"] = opmix
    name = "conc-%s%s%s" % (mode, "-file" if auditfile else "", "-" + opmix if opmix else "")
    results, wd, code = ctx.godrive("vault", "^TestConcurrentHistories$", env=env, race=race, name=name, allow_fail=True, timeout=1700)
    out = open(os.path.join(wd, "driver.out"), errors="replace").read()
    blocks = [b for b in out.split("==================") if "WARNING: DATA RACE" in b]
    real = [b for b in blocks if "/repo/" in b or "github.com/tailscale/setec/" in b]
    if blocks and not real:
        raise ToolTrouble("race inside the harness itself (no verdict):\n" + blocks[0][:2500])
    if real:
        out = real[0]
        i = out.index("WARNING: DATA RACE")
        ctx.violation("data race (%s)" % name, "the race detector reports a data race in the server/database/audit writer under concurrent "
                      "requests:\n" + out[i:i + 1800], {"kind": "race", "report": out[i:i + 6000]})
    elif code != 0 and "vault-conc" not in results:
        raise ToolTrouble("concurrent driver died:\n" + out[-3000:])
    r = ctx.take(results, "vault-conc") if "vault-conc" in results else {"counters": {}, "samples": []}
    st = validate_conc(ctx, wd, parts, name) if "vault-conc" in results else {"histories": 0, "accepted": 0, "states": 0, "rejected": 0}
    return r, st


def audit_concurrent(ctx):
    th = ctx.thorough
    # through the HTTP handlers (callers with different grants asking for the same things at the same time): every caller that is
    # served or refused has a record of its own -- TLC counts the records against the history (no record lost, none shared)
    r0, st0 = conc_histories(ctx, "http", 800 if th else 100, race=True, parts=16 if th else 8, opmix="acl")
    # ... and many identical reads by different callers, each entitled in its own right: one record per caller and request
    r00, st00 = conc_histories(ctx, "http", 800 if th else 150, race=True, parts=16 if th else 8, opmix="same")
    st0 = {k: st0[k] + st00[k] for k in st0}
    r, st = conc_histories(ctx, "db", 400 if th else 60, race=True, auditfile=True, parts=16 if th else 8)
    # and with a sink that has fsync semantics (a sync covers what was written when it began, and takes a while): when a call
    # returns, its own record must be covered by a completed sync -- also when other requests' syncs are in flight
    r2, st2 = conc_histories(ctx, "db", 600 if th else 100, race=True, parts=16 if th else 8)
    return {"accepted": st["accepted"] + st2["accepted"] + st0["accepted"], "histories": st["histories"] + st2["histories"] + st0["histories"],
            "lines": r["counters"].get("calls", 0) + r2["counters"].get("calls", 0), "samples": r.get("samples") or []}


def golden_check(ctx):
    results, wd, _ = ctx.godrive("vault", "^TestGolden$", name="golden")
    r = ctx.take(results, "vault-golden")
    st = validate_histories(ctx, "VaultTrace", "VaultTrace.cfg", os.path.join(wd, "trace.ndjson"), 6,
                            extra_files={"dict.ndjson": os.path.join(wd, "dict.ndjson")}, what="golden history + open by current build",
                            describe=describe_vault_event)
    if r["counters"].get("files", 0) < 4:
        raise ToolTrouble("golden files missing")
    return {"files": r["counters"]["files"], "validated": st["accepted"], "samples": (r.get("samples") or [])[:2]}


# ----------------------------------------------------------------------------- C14
@check("C14")
def c14(ctx):
    th = ctx.thorough
    # T: every interleaving of a few clients at the code's atomicity
    cfg = open(os.path.join(VERIF, "spec", "cfg", "VaultConcMC.cfg")).read()
    run = ctx.tlc("VaultConcMC", cfg, workers=NCPU, timeout=2400, heap="10g",
                  consts={"Vals": '{"x", "E"}' if th else '{"x"}', "CallsEach": 2, "NClients": 2})
    ctx.tlc_must_pass(run, "VaultConc invariants (TypeOK, AuditBeforeEffect, append-only log) over all interleavings")
    # B: recorded concurrent histories, linearization points searched by TLC; race detector on
    r1, s1 = conc_histories(ctx, "db", 2500 if th else 250, race=True, parts=16 if th else 8)
    r2, s2 = conc_histories(ctx, "http", 1500 if th else 120, race=True, parts=16 if th else 8)
    # a listing is one state: one client changes the two shared names in turn (each call complete before the next), the others
    # list, with many other secrets sorting between the two names
    r3, s3 = conc_histories(ctx, "db", 1200 if th else 150, race=True, parts=16 if th else 8, opmix="list")
    s1 = {k: s1[k] + s3[k] for k in ("states", "accepted", "histories", "rejected")}
    cov = {"states": run.distinct + s1["states"] + s2["states"], "transitions": run.generated,
           "traces_validated_against_impl": s1["accepted"] + s2["accepted"],
           "samples": (r1.get("samples") or [])[:2] + (r2.get("samples") or [])[:1],
           "concurrent_calls": r1["counters"].get("calls", 0) + r2["counters"].get("calls", 0),
           "histories_db": s1["histories"], "histories_http": s2["histories"],
           "explanation": "2-4 client goroutines x 2-5 calls on two shared names (put/activate/delete/delete-version/get/get-version/"
                          "conditional get/info/list), GOMAXPROCS varied, filler secrets widening multi-name windows, under the race "
                          "detector; begin/end/audit events totally ordered by one lock; TLC (VaultConcTrace, depth-first) searches the "
                          "placement of the unlogged Apply steps that explains all replies, audit records and the final state"}
    return "model_checking", cov, ["begin is logged before the call starts and end after it returns, so the recorded real-time order is never "
                                   "stronger than the true one", "race reports are attributed to the code under test only when a setec frame is on the stack"]


# ----------------------------------------------------------------------------- C08
@check("C08")
def c08(ctx):
    th = ctx.thorough
    cfg = open(os.path.join(VERIF, "spec", "cfg", "HttpMC.cfg")).read()
    # T: the complete request-class product against every store state (no emission)
    full = ctx.tlc("HttpMC", cfg, workers=NCPU, name="full", timeout=1800, heap="8g")
    ctx.tlc_must_pass(full, "Http: GateNoEffect, StatusExact, PrincipalExact over the full request product")
    q = lambda xs: "{" + ", ".join('"%s"' % x for x in xs) + "}"
    if th:
        consts = {"EmitEdges": "TRUE"}
    else:
        # quick: every class is still present, but the non-conforming representatives rotate with the seed
        s = ctx.seed
        om = ["GET", "PUT", "DELETE"]
        oc = ["jsoncs", "text", "none"]
        oh = ["other", "none"]
        consts = {"EmitEdges": "TRUE", "Methods": q(["POST", "GET"] + ([om[s % 3]] if om[s % 3] != "GET" else [])), "CTypes": q(["json", oc[s % 3]]),
                  "Hdrs": q(["setec", oh[s % 2]])}
    run = ctx.tlc("HttpMC", cfg, workers=4, name="emit", timeout=3000, heap="8g", consts=consts)
    ctx.tlc_must_pass(run, "Http (emitting configuration)")
    wd = os.path.join(ctx.scratch, "graph-c08")
    os.makedirs(wd)
    ns, ne = build_graph(run, os.path.join(wd, "graph.json"))
    log("graph c08: %d states, %d edges" % (ns, ne))
    tot, samples = vault_walk(ctx, wd, "c08", shards=16 if th else 8, env={"VERIF_MODE": "http", "VERIF_PROBE_EVERY": 64})
    # B: overlapping requests by callers with different grants through the real handlers, replies delivered over a slow connection
    # (every other reply pauses where its delivery starts): each reply must be the caller's own result under the caller's own rules
    rcc, scc = conc_histories(ctx, "http", 1000 if th else 100, race=True, parts=16 if th else 8, opmix="acl")
    cov = {"states": ns, "transitions": tot.get("targets_covered", 0), "traces_validated_against_impl": scc["accepted"],
           "concurrent_histories": scc["histories"],
           "samples": samples[:4], "model_transitions_full_product": full.generated, "model_transitions_replayed": ne,
           "requests_sent_to_real_mux": tot.get("edges_executed", 0), "exhaustive": bool(th),
           "explanation": "TLC checks GateNoEffect/StatusExact/PrincipalExact over the complete product method x content type x browser header x "
                          "WhoIs answer (error, anonymous, tagged, user; each grant absent/empty/good/malformed under either capability name) x "
                          "body class x endpoint (+ dashboard) in every store state; every emitted row is sent as a concrete request to the real "
                          "mux (several representatives per class, chosen by seed) and status, body, audit sink, principal, rules applied and store "
                          "state are compared with the row"}
    return "model_checking", cov, ["WhoIs never returns a nil Node/UserProfile (tailscaled does not)",
                                   "a body with more data after a valid JSON value is only sent as a read-only primer before malformed requests (nothing of an earlier request may leak into the next)",
                                   "quick tier: POST, GET + one other method, application/json + one other content type, 'setec' + one other header value, rotated by seed"]


# ----------------------------------------------------------------------------- C04 / C13 file protocol
def build_child(ctx):
    out = os.path.join(ctx.scratch, "bin", "dbchild")
    os.makedirs(os.path.dirname(out), exist_ok=True)
    from vcheck import GO, go_env
    p = subprocess.run([GO, "build", "-tags", "verif", "-o", out, "./cmd/dbchild"], cwd=ctx.harness_dir(), env=go_env(),
                       capture_output=True, text=True)
    if p.returncode != 0:
        raise ToolTrouble("build of dbchild failed:\n" + (p.stdout + p.stderr)[-3000:])
    return out


def atomicfile_model(ctx):
    cfg = open(os.path.join(VERIF, "spec", "cfg", "AtomicFile.cfg")).read()
    run = ctx.tlc("AtomicFile", cfg, workers=4, name="atomic", consts={"N": 4 if ctx.thorough else 3})
    ctx.tlc_must_pass(run, "AtomicFile: AllOrNothing under Kill / PowerLoss / IoError at every step")
    return run


def atomicfile_conformance(ctx, scenarios):
    if shutil.which("strace") is None:
        raise ToolTrouble("strace is not available")
    child = build_child(ctx)
    results, wd, _ = ctx.godrive("fs", "^TestAtomicFile$", env={"VERIF_CHILD": child, "VERIF_SCENARIOS": ",".join(scenarios)}, timeout=3000)
    r = ctx.take(results, "fs-atomic")
    if r["counters"].get("cases", 0) < 6 * len(scenarios):
        raise ToolTrouble("fault injection reached only %d cases (strace injection not effective?)" % r["counters"].get("cases", 0))
    # the recorded system calls (clean runs and injected-error runs) are held against FileSys.tla (complete and flushed before the
    # rename, live file never touched, owner-only, error = old / success = new), whatever names and order the writer uses
    lines = open(os.path.join(wd, "trace.ndjson")).read().splitlines()
    runs, cur = [], []
    for l in lines:
        if l.startswith('{"ev":"begin"') and cur:
            runs.append(cur)
            cur = []
        cur.append(l)
    if cur:
        runs.append(cur)
    ok = 0
    todo = runs
    rounds = 0
    while todo and rounds < 6:
        rounds += 1
        flat = [l for r_ in todo for l in r_]
        run = ctx.tlc("FileSysTrace", "FileSysTrace.cfg", files={"trace.ndjson": ("\n".join(flat) + "\n").encode()}, workers=1,
                      name="proto-r%d" % rounds, deque=True)
        if run.code == 0:
            ok += len(todo)
            break
        hw = None
        for ln in open(run.out, errors="replace"):
            if ln.startswith('<<"HW", '):
                hw = int(ln.split(",")[1].strip(" >\n"))
        if hw is None:
            lv = run.var_in_error_state("l")
            hw = int(lv) if lv and lv.isdigit() else None
        if hw is None:
            raise ToolTrouble("TLC failed on FileSysTrace:\n" + run.tail(30))
        pos = 0
        for i, r_ in enumerate(todo):
            if pos + len(r_) >= hw:
                ok += i
                ev = json.loads(r_[min(hw - pos, len(r_)) - 1])
                ctx.violation("file protocol: %s" % " ".join(json.loads(x)["ev"] for x in r_),
                              "the system calls of a save break what FileSys.tla requires of them (%s); reached at call: %s; calls: %s" % (
                                  run.error or "trace not accepted", json.dumps(ev), " ".join(json.loads(x)["ev"] for x in r_)),
                              {"kind": "syscalls", "run": [json.loads(x) for x in r_]})
                todo = todo[i + 1:]
                break
            pos += len(r_)
        else:
            break
    return r, ok, len(runs)


@check("C04")
def c04(ctx):
    th = ctx.thorough
    model = atomicfile_model(ctx)
    scen = ["create", "firstput", "newversion", "activate", "delver", "delete"] if th else ["create", "newversion", "delete"]
    r, ok, nruns = atomicfile_conformance(ctx, scen)
    # in-process I/O failures with rollback of the served state: the "save" fault edges of the Vault graph
    cfg = vault_cfg(["A", "B"], ["x", "E"], 3 if th else 2, mode="su", faults=("none", "save"), reopen=True)
    wd, run, ns, ne = vault_graph(ctx, "c04save", cfg, workers=8)
    t1, s1 = vault_walk(ctx, wd, "c04save", shards=16 if th else 6, env={"VERIF_PROBE_EVERY": 4})
    # the same graph with the FILE watched after every call (a copy of it is opened) and a successful save of another secret right
    # after every failed one: what a failed call leaves behind in memory must never reach the disk later
    t1b, _ = vault_walk(ctx, wd, "c04save-file", shards=16 if th else 6, env={"VERIF_PROBE_EVERY": 16, "VERIF_OBSERVE_COPY": 1, "VERIF_AFTER_FAULT": 1})
    t1 = merge_tot(t1, t1b)
    cov = {"evaluations": r["counters"]["cases"] + t1.get("targets_covered", 0), "distinct_nontrivial": r["counters"]["cases"],
           "rule": "one case = (kind of mutating operation, system call of the save, fault: injected errno or SIGKILL at its entry), enumerated by "
                   "scanning strace's when=N over create-temp/openat, every write, fchmod, fsync, close, renameat and the instant after the rename; "
                   "distinct by (operation, call, fault, protocol step); all are non-trivial. Plus every save-fault edge of the bounded Vault graph "
                   "(in-process: vanished directory / file-size limit giving a partial write)",
           "samples": (r.get("samples") or [])[:3] + s1[:1], "syscall_runs_validated_by_tlc": ok, "syscall_runs": nruns,
           "states": model.distinct + ns, "transitions": model.generated + t1.get("targets_covered", 0),
           "traces_validated_against_impl": ok, "exhaustive": True}
    return "fault_enumeration", cov, ["a SIGKILL models the process dying; power loss is decided on the model (AllOrNothingPower) given that the recorded "
                                      "calls satisfy FileSys!ReplaceFlushed (complete and fsynced before the rename)", "rename durability without a directory fsync is a "
                                      "file-system assumption stated in AtomicFile.tla / FileSys.tla"]


# ----------------------------------------------------------------------------- C05
@check("C05")
def c05(ctx):
    th = ctx.thorough
    cfg = open(os.path.join(VERIF, "spec", "cfg", "Envelope.cfg")).read()
    env = ctx.tlc("Envelope", cfg, workers=4, name="envelope")
    ctx.tlc_must_pass(env, "Envelope: TamperEvident, OnlyOwnKek under flips, truncation, single-field splices, cross-field moves, wrong KEK")
    # A: every tamper class instantiated exhaustively on real files (real AES-256-GCM KEK)
    results, wd, _ = ctx.godrive("vault", "^TestTamper$", name="tamper", timeout=3000)
    rt = ctx.take(results, "vault-tamper")
    # B: marker scanning after every call + modes + KEK use, history validated by TLC (kek field of every event)
    results, wd2, _ = ctx.godrive("vault", "^TestConfidential$", name="conf", env={"VERIF_TRACES": 300 if th else 40, "VERIF_EVENTS": 40})
    rc = ctx.take(results, "vault-confidential")
    st = validate_histories(ctx, "VaultTrace", "VaultTrace.cfg", os.path.join(wd2, "trace.ndjson"), 16 if th else 8,
                            extra_files={"dict.ndjson": os.path.join(wd2, "dict.ndjson")}, what="history (marker scan)",
                            describe=describe_vault_event)
    # the backup task reads the live file: while an upload is in flight and after failed uploads the state directory must hold
    # the database file only, mode 0600 (no readable staging copy)
    results, wd3, _ = ctx.godrive("backup", "^TestBackupTimelines$", env={"VERIF_TRACES": 200 if th else 40}, name="backup-scan", timeout=1700)
    rb = ctx.take(results, "backup-timelines", only=C05_BACKUP_FINDINGS)
    cov = {"evaluations": rt["counters"]["evaluations"] + rc["counters"]["scans"], "backup_timelines_scanned": rb["counters"].get("timelines", 0),
           "distinct_nontrivial": rt["counters"]["evaluations"],
           "rule": "tamper cases: every single-bit flip and every truncation length of a saved database file, every single-field splice between "
                   "valid databases (same KEK, other KEK), cross-field moves, 16-byte ciphertext splices, schema versions, foreign KEKs -- each "
                   "is one distinct case, each is an instance of a tamper action of Envelope.tla whose oracle is TamperEvident (error, or exactly "
                   "the original contents). Scans: after every call of random histories every file under the state directory is searched for every "
                   "marker name/value in raw, base64 (3 alignments, std+url), hex and JSON-escaped form",
           "samples": (rt.get("samples") or [])[:1] + (rc.get("samples") or [])[:2],
           "file_bytes": rt["counters"].get("file_bytes"), "bitflips": rt["counters"].get("class_bitflip"),
           "truncations": rt["counters"].get("class_truncate"), "splices": rt["counters"].get("class_splice"),
           "scans_after_calls": rc["counters"]["scans"], "states": env.distinct, "transitions": env.generated,
           "traces_validated_against_impl": st["accepted"], "exhaustive": True}
    return "fault_enumeration", cov, ["'does this byte string encode that value' is a scanner, not a state predicate: the specification fixes when it must be "
                                      "false (always) and when the KEK may be used (Vault!KekOnlyAtOpen, validated per event)",
                                      "temporary files are observed as leftovers of killed saves (C04 driver) and at post-call points"]


# ----------------------------------------------------------------------------- client store family
def validate_branching(ctx, module, cfg, trace_path, parts, what, extra_files, timeout=1500, describe=None):
    """Validate recorded histories against a trace specification that takes unlogged (silent) steps.
    Acceptance = invariant NotDone violated (every line explained); the high-water mark tells where a
    rejected history stopped. Rejected histories are reported, removed, and the rest re-validated."""
    buckets = split_traces(trace_path, parts)
    stats = {"histories": sum(len(b) for b in buckets), "accepted": 0, "states": 0, "rejected": 0, "events": 0}

    def one(bi):
        hs = list(buckets[bi])
        out = {"accepted": 0, "states": 0, "rejected": [], "events": 0}
        rounds = 0
        while hs and rounds < 6:
            rounds += 1
            lines = [l for h in hs for l in h]
            files = {"trace.ndjson": ("\n".join(lines) + "\n").encode()}
            files.update(extra_files)
            run = ctx.tlc(module, cfg, files=files, workers=1, deque=True, name="%s-b%d-r%d" % (what, bi, rounds), timeout=timeout, heap="3g")
            out["states"] += run.distinct
            diffs = {ln for ln in open(run.out, errors="replace") if ln.startswith('<<"METRICS-DIFF"')}
            if diffs:
                ctx.note("%s: the store's exported metrics differ from the specification's history counters at the end of %d histories "
                         "(informational: no listed property constrains the metrics)" % (what, len(diffs)))
            errs = " ".join(run.errors)
            if run.code != 0 and "NotDone" in errs:
                out["accepted"] += len(hs)
                out["events"] += len(lines)
                break
            if run.code != 0 and ("Invariant" in errs or "property" in errs.lower()):
                lv = run.var_in_error_state("l")
                hw = int(lv) if lv and lv.isdigit() else None
                why = "a property of the specification is violated on this history: " + errs[:300]
            elif run.code != 0:
                raise ToolTrouble("TLC failed on %s:\n%s" % (module, run.tail(40)))
            else:
                hw = None
                for ln in open(run.out, errors="replace"):
                    if ln.startswith('<<"HW", '):
                        hw = int(ln.split(",")[1].strip(" >\n"))
                why = "the specification has no behaviour that produces the next line"
            if hw is None or hw < 1:
                raise ToolTrouble("TLC rejected histories without a usable position:\n" + run.tail(30))
            hw = min(hw, len(lines))
            pos, idx = 0, None
            for i, h in enumerate(hs):
                if pos + len(h) >= hw:
                    idx = i
                    break
                pos += len(h)
            out["accepted"] += idx
            out["events"] += pos
            out["rejected"].append({"history": hs[idx], "at": hw - pos, "why": why})
            hs = hs[idx + 1:]
        return out
    for o in pmap(one, range(len(buckets)), par=NCPU):
        for k in ("accepted", "states", "events"):
            stats[k] += o[k]
        for rj in o["rejected"]:
            stats["rejected"] += 1
            h = [json.loads(x) for x in rj["history"]]
            at = max(1, min(rj["at"], len(h)))
            ev = h[at - 1]
            d = describe(ev) if describe else json.dumps(ev)[:200]
            ctx.violation("%s rejected at %s" % (what, d),
                          "TLC rejects a recorded history (%s): %s. Explained up to line %d of %d; first unexplained line: %s; preceding lines: %s" % (
                              what, rj["why"], at - 1, len(h), json.dumps(ev)[:500], " | ".join(json.dumps(x)[:120] for x in h[max(0, at - 5):at - 1])),
                          {"kind": "store-history", "history": h, "at": at})
    return stats


def describe_store_event(ev):
    keep = {k: v for k, v in ev.items() if k not in ("t", "doc", "cache", "declared")}
    return json.dumps(keep, sort_keys=True)[:160]


def store_random(ctx, profile, n, parts=8, race=False):
    results, wd, code = ctx.godrive("store", "^TestStoreRandom$", env={"VERIF_PROFILE": profile, "VERIF_TRACES": n}, name="store-" + profile,
                                    race=race, timeout=1700, allow_fail=race)
    if race:
        blocks, real = race_blocks(os.path.join(wd, "driver.out"))
        if blocks and not real:
            raise ToolTrouble("race inside the harness itself (no verdict):\n" + blocks[0][:2500])
        if real:
            i = real[0].index("WARNING: DATA RACE")
            ctx.violation("data race (store/%s)" % profile, "the race detector reports a data race in the client store:\n" + real[0][i:i + 1800],
                          {"kind": "race", "report": real[0][i:i + 6000]})
        if "store-random" not in results:
            if real:
                return {"counters": {}, "samples": []}, {"accepted": 0, "events": 0, "histories": 0, "states": 0, "rejected": 0}
            raise ToolTrouble("store driver died:\n" + open(os.path.join(wd, "driver.out"), errors="replace").read()[-3000:])
    r = ctx.take(results, "store-random")
    st = validate_branching(ctx, "StoreTrace", "StoreTrace.cfg", os.path.join(wd, "trace.ndjson"), parts, "store/" + profile,
                            {"dict.ndjson": os.path.join(wd, "dict.ndjson")}, describe=describe_store_event)
    return r, st


STORE_MC = {
    # name: (cfg file, quick overrides, thorough overrides)
    "init":   ("StoreMC.init.cfg", {"Horizon": 9000, "NewDeadlines": "{0, 3}", "CacheKinds": '{"none", "garbage", "partial", "complete", "stale"}'}, {}),
    "poll":   ("StoreMC.poll.cfg", {"CallerSet": '{"k1"}', "Acts": '{"newstore", "fail", "refresh", "svc", "handle", "read"}'}, {}),
    "lookup": ("StoreMC.lookup.cfg", {"CallerSet": '{"k1", "k2"}'}, {"CallerSet": '{"k1", "k2"}', "LookupDeadlines": "{0, 10000, 60000}"}),
    "reads":  ("StoreMC.reads.cfg", {"Acts": '{"newstore", "refresh", "svc", "handle", "read", "lookup", "close", "tick"}', "CacheKinds": '{"undeclared"}'}, {}),
    "race":   ("StoreMC.race.cfg", {}, {}),
    # simulation only: racing lookups with a cache and a clock (access stamps across lookups, polls, expiry, restarts)
    "racetime": ("StoreMC.race.cfg", {}, {}),
    "cache":  ("StoreMC.cache.cfg", {}, {"CacheKinds": '{"empty", "readerr", "garbage", "complete", "stale", "undeclared"}'}),
    "expiry": ("StoreMC.expiry.cfg", {"Expiries": "{30000}", "CacheKinds": '{"undeclared"}', "Horizon": 31000}, {}),
}


# simulation explores products that are beyond exhaustive reach (more callers)
SIM_CONSTS = {"racetime": {"Steps": "{1000, 31000}", "Horizon": 93000, "Expiries": "{30000}", "CacheKinds": '{"empty", "undeclared"}',
                           "Acts": '{"newstore", "lookup", "refresh", "svc", "read", "handle", "restart"}'},
              "cache": {"Acts": '{"newstore", "fail", "refresh", "svc", "lookup", "cachefault", "restart", "close", "tick", "handle", "read"}',
                        "CacheKinds": '{"empty", "readerr", "garbage", "partial", "complete", "stale", "undeclared"}', "DeclaredSets": '{{"a"}, {"a", "x"}}'},
              "reads": {"CallerSet": '{"k1", "k2"}', "CacheKinds": '{"undeclared", "empty", "none"}'}, "lookup": {"CallerSet": '{"k1", "k2", "k3"}'}, "poll": {"CallerSet": '{"k1", "k2"}', "LookupDeadlines": "{0, 10000}",
                                                                                                            "Steps": "{1000, 10000}", "Horizon": 30000,
                                                                                                            "Acts": '{"newstore", "fail", "refresh", "svc", "handle", "read", "cachefault", "cancel"}'}}


def store_mc(ctx, fam, invariants_note):
    f, q, t = STORE_MC[fam]
    run = ctx.tlc("StoreMC", f, workers=NCPU, name="mc-" + fam, timeout=3000, heap="12g", consts=(t if ctx.thorough else q))
    ctx.tlc_must_pass(run, "Store (%s configuration): %s" % (fam, invariants_note))
    return run


def store_check(ctx, fams, profiles, n_quick, n_thorough, explanation, extra=None, race_profiles=(), script_only_fams=()):
    th = ctx.thorough
    runs = [store_mc(ctx, f, explanation[:80]) for f in fams]
    tot = {"accepted": 0, "events": 0, "histories": 0, "states": 0}
    samples = []
    for p in profiles:
        r, st = store_random(ctx, p, n_thorough if th else n_quick, parts=16 if th else 8, race=p in race_profiles)
        for k in tot:
            tot[k] += st[k]
        samples += (r.get("samples") or [])[:1]
    # direction A: behaviours simulated by TLC from the same configurations, forced on the real store
    forced = {"behaviours": 0, "accepted": 0, "steps_applied": 0, "steps_skipped": 0}
    for f in list(fams) + list(script_only_fams):
        st = store_scripts(ctx, f, int(os.environ.get("VERIF_SIM_N", 4000 if th else 600)), 45, consts=SIM_CONSTS.get(f))
        forced["behaviours"] += st["histories"]
        forced["accepted"] += st["accepted"]
        forced["steps_applied"] += st["steps_applied"]
        forced["steps_skipped"] += st["steps_skipped"]
        tot["accepted"] += st["accepted"]
        tot["events"] += st["events"]
        tot["histories"] += st["histories"]
    cov = {"states": sum(r.distinct for r in runs), "transitions": sum(r.generated for r in runs),
           "traces_validated_against_impl": tot["accepted"], "samples": samples,
           "trace_events_validated": tot["events"], "histories_recorded": tot["histories"],
           "tlc_behaviours_forced_on_real_store": forced,
           "explanation": explanation}
    if extra:
        cov.update(extra)
    return cov


@check("C10")
def c10(ctx):
    cov = store_check(ctx, ["init"], ["init"], 150, 2500,
                      "Store.tla models construction: cache load (only a well-formed document is used), stubs, init rounds (one Get per missing "
                      "secret per round, never for a secret already obtained), a pause between rounds that is positive and at most a few seconds, the caller's deadline, the final "
                      "flush. TLC checks InitOK / LookupGate / HandleNeverDangles over declared sets x cache classes x failure scripts x deadlines; "
                      "random scripted-service histories of the real NewStore under testing/synctest (virtual time) are validated line by line: every "
                      "request, its timestamp (so the back-off delays and the prompt return at the deadline are exact), the cache write and the return")
    extra = store_special(ctx, "TestStoreSpecial")
    cov["special_cases"] = extra
    # cache contents that are malformed by construction: the start must behave exactly as with no cache (every declared secret fetched)
    results, wd, _ = ctx.godrive("store", "^TestCacheMalformed$", env={"VERIF_TRACES": 1500 if ctx.thorough else 200}, name="malformed")
    rm = ctx.take(results, "store-malformed")
    st = validate_branching(ctx, "StoreTrace", "StoreTrace.cfg", os.path.join(wd, "trace.ndjson"), 8, "store/malformed-cache",
                            {"dict.ndjson": os.path.join(wd, "dict.ndjson")}, describe=describe_store_event)
    cov["malformed_cache_inputs_validated"] = st["accepted"]
    cov["traces_validated_against_impl"] += st["accepted"]
    return "model_checking", cov, ["time is virtual (testing/synctest); the scripted StoreClient honours contexts like the HTTP client does"]


@check("C11")
def c11(ctx):
    cov = store_check(ctx, ["poll"], ["poll", "tick"], 150, 2500,
                      "Store.tla models a poll as snapshot / one request per secret (one at a time or several at once) / apply-or-abort / flush, with overlapping Refresh callers joining "
                      "the round in flight. TLC checks PollConverges (every known secret ends at a version that was active during the poll), Coalesce "
                      "and that an aborted poll changes nothing, over all interleavings of activations (forwards and backwards), failures and two "
                      "refresh callers; random histories of the real store (scripted service, gated requests) are validated line by line. TLC-simulated "
                      "behaviours in which lookups of one name race each other and a poll (the `race` configuration) are forced on the real store: "
                      "whatever a late lookup answer does, a poll that completes leaves every known secret at a version active during that poll",
                      script_only_fams=("race",))
    cad = store_special(ctx, "TestCadence")
    cov["cadence"] = cad
    # "... and the cache holds the same": polls and lookups overlapping their cache writes on a slow cache (real goroutines); at
    # quiescence the document is the one made from the last state
    cov["concurrent_flush_runs"] = cache_order(ctx, 150 if ctx.thorough else 20)
    # ... with the shipped file cache and the real service: a store started from its cache file polls a newer, shorter version;
    # store, cache file, a successor store and the file client must all hold it (RoundTrip.tla, journey "newver")
    results, wdj, _ = ctx.godrive("e2e", "^TestRoundTrip$", env={"VERIF_TRACES": 200 if ctx.thorough else 40, "VERIF_MAXLARGE": 1 << 16}, name="roundtrip-poll", timeout=1700)
    ctx.take(results, "e2e-roundtrip")
    okj, nj = validate_journeys(ctx, os.path.join(wdj, "trace.ndjson"), 4)
    cov["file_cache_journeys"] = okj
    return "model_checking", cov, ["freshness is judged by version number, as the protocol does"]


@check("C16")
def c16(ctx):
    cov = store_check(ctx, ["lookup", "race"], ["lookup", "lookupx"], 200, 3000,
                      "Store.tla models lookups: the gate (no request when lookups are disabled), one flight per name, per-caller contexts with the "
                      "five-minute fallback, retry after the leader's context ended, give-up at the caller's own deadline. TLC checks LookupGate, "
                      "Bounded and NotCollateral over callers x deadlines x cancellations x services that answer, fail or hang (explicit clock); "
                      "random histories of the real store under synctest (hanging service, clock advanced up to 20 virtual minutes) are validated")
    # long lookup-heavy histories in which most lookups fail: nothing a failed lookup leaves behind may wear the store out
    rw, stw = store_random(ctx, "lookupwear", 500 if ctx.thorough else 60, parts=16 if ctx.thorough else 8)
    cov["traces_validated_against_impl"] += stw["accepted"]
    cov["histories_recorded"] += stw["histories"]
    cov["trace_events_validated"] += stw["events"]
    # "thereafter polled and cached like any other": lookups of different names overlapping their cache writes (real goroutines, slow cache)
    cov["concurrent_flush_runs"] = cache_order(ctx, 150 if ctx.thorough else 20)
    # Apply is a caller of lookups: per struct shape, it asks at most once per field naming a secret (a failed lookup is not
    # repeated), and with lookups disabled it asks nothing and reports the missing secret
    results, _, _ = ctx.godrive("fields", "^TestFields$", env={"VERIF_MAXFIELDS": 2, "VERIF_RANDOM": 3000 if ctx.thorough else 400}, name="fields-lookups", timeout=3000)
    rf = ctx.take(results, "fields", only=C16_FIELDS_FINDINGS)
    cov["apply_cases"] = rf["counters"]["cases"]
    return "model_checking", cov, ["virtual time; a hanging service is a request the driver never releases"]


@check("C19")
def c19(ctx):
    cov = store_check(ctx, ["expiry"], ["expiry", "expiryauto"], 150, 2500,
                      "Store.tla models expiry: a secret is marked expired in the poll snapshot iff undeclared, an age is set, not read for longer "
                      "than the age and no handle exists; it is dropped at the end of a successful poll unless a handle appeared meanwhile. TLC "
                      "checks DropRule / NeverDropDeclared / HandleNeverDangles over reads, handles, polls, clock steps and restarts from caches with "
                      "any stamps (incl. 0); random histories of the real store with the virtual clock are validated, incl. persisted access stamps",
                      script_only_fams=("racetime", "race"))
    return "model_checking", cov, ["the clock is the synctest bubble's; stamps are whole seconds as in the cache document"]


def store_special(ctx, test):
    results, wd, _ = ctx.godrive("store", "^%s$" % test, name=test)
    name = {"TestStoreSpecial": "store-special", "TestCadence": "store-cadence"}[test]
    r = ctx.take(results, name)
    out = dict(r["counters"])
    if test == "TestStoreSpecial":
        st = validate_branching(ctx, "StoreTrace", "StoreTrace.cfg", os.path.join(wd, "trace.ndjson"), 2, "store/fileclient",
                                {"dict.ndjson": os.path.join(wd, "dict.ndjson")}, describe=describe_store_event)
        out["validated"] = st["accepted"]
    else:
        run = ctx.tlc("Cadence", "Cadence.cfg", files={"trace.ndjson": os.path.join(wd, "trace.ndjson")}, workers=1, name="cadence")
        if run.code != 0:
            hw = None
            for ln in open(run.out, errors="replace"):
                if ln.startswith('<<"HW", '):
                    hw = int(ln.split(",")[1].strip(" >\n"))
            if hw is None:
                raise ToolTrouble("TLC failed on Cadence:\n" + run.tail(30))
            lines = open(os.path.join(wd, "trace.ndjson")).read().splitlines()
            ctx.violation("cadence line %s" % lines[min(hw, len(lines)) - 1][:80],
                          "background poll times are not one fixed period within +/-10%% of the interval: TLC stops at line %d: %s (previous: %s)" % (
                              hw, lines[min(hw, len(lines)) - 1], lines[max(0, hw - 3):hw - 1]), {"kind": "cadence", "lines": lines[max(0, hw - 10):hw + 2]})
        out["validated"] = 1 if run.code == 0 else 0
    return out


# ----------------------------------------------------------------------------- C15
def describe_upd_event(ev):
    return json.dumps({k: v for k, v in ev.items()}, sort_keys=True)[:160]


def race_blocks(path):
    out = open(path, errors="replace").read()
    blocks = [b for b in out.split("==================") if "WARNING: DATA RACE" in b]
    real = [b for b in blocks if "/repo/" in b or "github.com/tailscale/setec/" in b]
    return blocks, real


@check("C15")
def c15(ctx):
    th = ctx.thorough
    cfg = open(os.path.join(VERIF, "spec", "cfg", "UpdaterMC.cfg")).read()
    cfg_norefine = cfg.replace("PROPERTIES FailKeeps RefinesInd", "PROPERTY FailKeeps")      # the refinement check triples the cost
    runs = []
    if th:
        runs.append(ctx.tlc("UpdaterMC", cfg_norefine, workers=NCPU, name="full", timeout=3000, heap="12g"))
        runs.append(ctx.tlc("UpdaterMC", cfg, workers=NCPU, name="one-name-refines", timeout=3000, heap="12g", consts={"NameSet": '{"a"}'}))
    else:
        runs.append(ctx.tlc("UpdaterMC", cfg_norefine, workers=NCPU, name="one-name", timeout=1200, heap="8g", consts={"NameSet": '{"a"}'}))
        runs.append(ctx.tlc("UpdaterMC", cfg, workers=NCPU, name="one-getter-refines", timeout=1200, heap="8g", consts={"GetterSet": '{"t1"}'}))
    # unbounded in installs and steps: the typed twin's invariant is inductive (Apalache); TLC above checks Updater refines the twin
    apal = apalache_inductive(ctx, "UpdaterInd", "Init", "IndInit", "IndInv", cinit="CInit")
    for r in runs:
        ctx.tlc_must_pass(r, "Updater: WakeNotLost, ReturnFresh, NoSpuriousBuild, CloseOnce, AllClosed, FailKeeps over all interleavings")
    tot = {"accepted": 0, "events": 0, "histories": 0, "states": 0}
    samples, counters = [], {}
    for conc in (0, 1, 2):
        n = {0: (1500 if th else 150), 1: (2500 if th else 250), 2: (1500 if th else 200)}[conc]
        results, wd, code = ctx.godrive("updater", "^TestUpdaterHistories$", env={"VERIF_CONC": conc, "VERIF_TRACES": n},
                                        name="upd-%d" % conc, race=bool(conc), allow_fail=True, timeout=1700)
        blocks, real = race_blocks(os.path.join(wd, "driver.out"))
        if blocks and not real:
            raise ToolTrouble("race inside the harness itself (no verdict):\n" + blocks[0][:2500])
        if real:
            i = real[0].index("WARNING: DATA RACE")
            ctx.violation("data race (updater)", "the race detector reports a data race among Updater.Get callers, NewUpdater and polls:\n" +
                          real[0][i:i + 1800], {"kind": "race", "report": real[0][i:i + 6000]})
        if "updater-histories" not in results:
            if real:
                continue
            raise ToolTrouble("updater driver died:\n" + open(os.path.join(wd, "driver.out"), errors="replace").read()[-3000:])
        r = ctx.take(results, "updater-histories")
        for k, v in r["counters"].items():
            counters[k] = counters.get(k, 0) + v
        st = validate_branching(ctx, "UpdaterTrace", "UpdaterTrace.cfg", os.path.join(wd, "trace.ndjson"), 16 if th else 8,
                                "updater/%s" % ({0: "sequential", 1: "concurrent", 2: "slow-builder"}[conc]), {"dict.ndjson": os.path.join(wd, "dict.ndjson")},
                                describe=describe_upd_event)
        for k in tot:
            tot[k] += st[k]
        samples += (r.get("samples") or [])[:1]
    cov = {"states": sum(r.distinct for r in runs), "transitions": sum(r.generated for r in runs),
           "traces_validated_against_impl": tot["accepted"], "samples": samples, "trace_events_validated": tot["events"],
           "histories_recorded": tot["histories"], "gets": counters.get("gets", 0), "builder_invocations": counters.get("builds", 0),
           "apalache_inductive_invariant": apal,
           "explanation": "Updater.tla splits NewUpdater (register / read / build) and Get (take u.mu + drain / read / build / close old / return) at the "
                          "code's critical sections and lets installs happen between any two of them; TLC checks WakeNotLost, ReturnFresh, "
                          "NoSpuriousBuild, CloseOnce, AllClosed and FailKeeps over all interleavings of 2 updaters, 1-2 concurrent Get callers, 1-2 names, "
                          "install bursts and builder failures. Real updaters on a real Store are driven sequentially (bursts of 1-3 installs between "
                          "Gets, builder failures, several updaters, two names), concurrently (installer, 2-3 Get goroutines, an updater created "
                          "mid-flight, failure toggles; race detector on) and with a builder held open by the driver while installs and a second Get "
                          "caller arrive (an updater created during an update; a Get overtaken by installs and by another caller); every builder call, Close and returned value is logged and TLC searches "
                          "for the placement of the unlogged steps that explains them"}
    return "model_checking", cov, ["an install is a successful poll that found a new version; versions stand for bytes (64-byte recognisable values, "
                                   "the builder checks it was given a whole value of the right secret)",
                                   "race reports are attributed to the code under test only when a setec frame is on the stack"]


# ----------------------------------------------------------------------------- C12
@check("C12")
def c12(ctx):
    th = ctx.thorough
    cov = store_check(ctx, ["reads", "race"], ["reads", "creads"], 150, 2000,
                      "Store.tla makes calling a handle an action that is enabled in every state in which the handle exists (during construction of "
                      "a successor store, polls, lookups, the expiry sweep, after Close) and returns the version most recently installed for that "
                      "name. TLC checks HandleNeverDangles, InstalledServed, InstLast and ReadServed over handles x reads x polls (ticks and refreshes) "
                      "x lookups x expiry x Close x service changes. Recorded histories of the real store are validated line by line: sequential "
                      "ones (a read is attempted at every point, also while a request is held by the scripted service: it must complete without "
                      "the clock or any request moving), and concurrent ones in which three reader goroutines call handles in bursts racing the "
                      "driver's step (under the race detector), where TLC places each call between its begin and end line",
                      race_profiles=("creads",))
    results, wd, code = ctx.godrive("store", "^TestReadStress$", env={"VERIF_TRACES": 40 if th else 6}, name="stress", race=True, allow_fail=True, timeout=1700)
    blocks, real = race_blocks(os.path.join(wd, "driver.out"))
    if blocks and not real:
        raise ToolTrouble("race inside the harness itself (no verdict):\n" + blocks[0][:2500])
    if real:
        i = real[0].index("WARNING: DATA RACE")
        ctx.violation("data race (store stress)", "the race detector reports a data race among handles, polls, lookups and Close:\n" + real[0][i:i + 1800],
                      {"kind": "race", "report": real[0][i:i + 6000]})
    elif "store-stress" not in results:
        raise ToolTrouble("stress driver died:\n" + open(os.path.join(wd, "driver.out"), errors="replace").read()[-3000:])
    if "store-stress" in results:
        r = ctx.take(results, "store-stress")
        cov["stress_reads_under_race_detector"] = r["counters"].get("reads", 0)
        cov["stress_runs"] = r["counters"].get("runs", 0)
    return "model_checking", cov, ["'no data race' is Go's memory model: decided by the race detector on the concurrent histories and the stress runs",
                                   "a handle call that stays blocked for 20 s of real time is reported by a watchdog outside the virtual-time bubble",
                                   "values are 64-byte patterns unique per (name, version), so a torn or foreign value is recognisable"]


# ----------------------------------------------------------------------------- direction A for the client store:
# behaviours generated by TLC (-simulate) from Store.tla are forced on the real store: every environment
# step of the behaviour (construction, service change, clock step, refresh / tick / lookup / cancel /
# handle / read / close, the release of a request with its outcome) is applied by the driver in the
# behaviour's order; what the real store does in between is recorded and validated as usual.
def behaviour_to_script(states):
    import tlaval
    nil = tlaval.is_nil
    steps = []
    prev = None
    started = False
    for st in states:
        out = st.get("out") or {}
        ev = out.get("ev")
        now_prev = prev["now"] if prev else 0
        if ev == "newstore":
            cfg = st["cfg"]
            s = {"do": "restart" if started else "newstore", "declared": sorted(tlaval.setof(cfg["declared"])), "allowlookup": cfg["allowLookup"],
                 "expiry": cfg["expiry"], "auto": cfg["auto"]}
            dl = st["ini"]["deadline"]
            if not nil(dl):
                s["deadline"] = dl - st["now"]
            c = st["cache"]
            if not started:
                if c["kind"] == "doc":
                    s["cachekind"] = "doc"
                    s["cachedoc"] = [{"name": n, "ver": e["ver"], "la": e["la"]} for n, e in sorted(c["doc"].items()) if not nil(e)]
                else:
                    s["cachekind"] = c["kind"]
            steps.append(s)
            started = True
        elif ev == "svc":
            steps.append({"do": "svc", "name": out["name"], "ver": out["ver"]})
        elif ev == "svcmode":
            steps.append({"do": "svcmode", "name": out["name"], "mode": out["mode"]})
        elif ev == "adv":
            steps.append({"do": "advance", "ms": out["t"] - now_prev})
        elif ev == "refresh":
            if out["caller"] == "poller":
                steps.append({"do": "tick"})
            else:
                s = {"do": "refresh", "caller": out["caller"]}
                own = st["call"][out["caller"]].get("own") if not nil(st["call"][out["caller"]]) else None
                if own is not None and not nil(own):
                    s["deadline"] = own - st["now"]
                steps.append(s)
        elif ev == "lookup" or (ev == "ret" and out.get("call") == "lookup" and "name" in out):
            s = {"do": "lookup", "caller": out["caller"], "name": out["name"]}
            c = st["call"][out["caller"]]
            if ev == "lookup" and not nil(c) and not c.get("fallback"):
                s["deadline"] = c["own"] - st["now"]
            # the model separates "the name is unknown" from "enter the flight": hold the caller there when
            # the model lets something else happen in between
            s["park"] = ev == "lookup"
            steps.append(s)
        elif ev in ("lead", "join"):
            steps.append({"do": "unpark", "caller": out["caller"]})
        elif ev == "cancel":
            steps.append({"do": "cancel", "caller": out["caller"]})
        elif ev == "handle":
            steps.append({"do": "handle", "name": out["name"]})
        elif ev == "read":
            steps.append({"do": "read", "name": out["name"]})
        elif ev in ("closing", "close") and (ev == "closing" or not (prev and prev.get("closed") == "closing")):
            steps.append({"do": "close"})
        elif ev == "cachefault":
            steps.append({"do": "cachefault", "wfail": out["wfail"]})
        elif ev in ("resp", "lookupend"):
            kind = out.get("kind", "get")
            steps.append({"do": "respond", "name": "%s/%s" % (out["name"], kind), "forceerr": bool(out.get("force"))})
        prev = st
    return steps


def store_scripts(ctx, fam, n, depth, consts=None, race=False):
    """TLC -simulate behaviours of the StoreMC configuration `fam` -> scripts -> real store -> validated traces."""
    import tlaval
    f, q, t = STORE_MC[fam]
    d = os.path.join(ctx.scratch, "sim-" + fam)
    os.makedirs(d, exist_ok=True)
    cs = dict(t if ctx.thorough else q)
    cs.update(consts or {})
    run = ctx.tlc("StoreMC", f, workers=1, name="sim-" + fam, timeout=1500, heap="4g", consts=cs,
                  simulate="file=%s,num=%d" % (os.path.join(d, "beh"), n), depth=depth)
    ctx.tlc_must_pass(run, "simulation of Store (%s)" % fam)
    scripts = []
    for p in sorted(globmod.glob(os.path.join(d, "beh_*"))):
        steps = behaviour_to_script(list(tlaval.read_behaviour(p)))
        while steps and steps[0]["do"] != "newstore":
            steps.pop(0)      # the clock may move before anything is constructed
        if steps and steps[0]["do"] == "newstore":
            scripts.append(steps)
        os.unlink(p)
    if len(scripts) < n // 2:
        raise ToolTrouble("only %d of %d simulated behaviours could be turned into scripts" % (len(scripts), n))
    sp = os.path.join(d, "scripts.ndjson")
    write_ndjson(sp, scripts)
    results, wd, code = ctx.godrive("store", "^TestStoreScript$", env={"VERIF_SCRIPTS": sp}, name="script-" + fam, race=race, timeout=1700)
    r = ctx.take(results, "store-script")
    st = validate_branching(ctx, "StoreTrace", "StoreTrace.cfg", os.path.join(wd, "trace.ndjson"), 16 if ctx.thorough else 8, "store/script-" + fam,
                            {"dict.ndjson": os.path.join(wd, "dict.ndjson")}, describe=describe_store_event)
    st["steps_applied"] = r["counters"].get("applied", 0)
    st["steps_skipped"] = r["counters"].get("skipped", 0)
    return st


# ----------------------------------------------------------------------------- C13
def cache_order(ctx, n):
    """Real concurrency (race detector): lookups of different names and installing polls overlapping their flushes on a slow cache; at
    quiescence the last document written must be the one made from the last state (every looked-up secret is cached like any other)."""
    results, wd4, code = ctx.godrive("store", "^TestCacheOrder$", env={"VERIF_TRACES": n}, name="cacheorder", race=True, allow_fail=True, timeout=1700)
    blocks, real = race_blocks(os.path.join(wd4, "driver.out"))
    if blocks and not real:
        raise ToolTrouble("race inside the harness itself (no verdict):\n" + blocks[0][:2500])
    if real:
        i = real[0].index("WARNING: DATA RACE")
        ctx.violation("data race (cache flush)", "the race detector reports a data race among lookups, polls and cache flushes:\n" + real[0][i:i + 1800],
                      {"kind": "race", "report": real[0][i:i + 6000]})
    elif "store-cacheorder" not in results:
        raise ToolTrouble("cache-order driver died:\n" + open(os.path.join(wd4, "driver.out"), errors="replace").read()[-3000:])
    if "store-cacheorder" in results:
        return ctx.take(results, "store-cacheorder")["counters"].get("runs", 0)
    return 0


@check("C13")
def c13(ctx):
    th = ctx.thorough
    os.environ["VERIF_FILECLIENT"] = "1"       # every cache document the store writes is also fed to a real FileClient
    try:
        cov = store_check(ctx, ["cache"], ["cache", "init"], 150, 2000,
                          "Store.tla models the cache as one document rewritten as a whole after the initial fetch (when something was missing), after "
                          "every lookup, after every poll that changed something and when the poller shuts down; a failing write leaves the old "
                          "document; only a well-formed document is used at start-up, anything else is ignored as a whole; a successor store starts from "
                          "whatever the cache holds. TLC checks CacheVersions (after every installing step the document lists exactly the known secrets "
                          "with their installed versions) and the start-up rules over cache classes x write faults x restarts. Recorded histories of the "
                          "real store (random, and TLC-simulated behaviours forced on it) are validated incl. the exact payload of every Cache.Write "
                          "(names, versions, bytes, access stamps), restarts with the service unreachable (the successor must serve exactly the cached "
                          "pairs without a request), and every written document is fed to a real FileClient which must agree on every secret")
    finally:
        os.environ.pop("VERIF_FILECLIENT", None)
    # malformed cache contents (class known by construction) -> ignored as a whole, validated by TLC as 'garbage'
    n = 4000 if th else 400
    results, wd, _ = ctx.godrive("store", "^TestCacheMalformed$", env={"VERIF_TRACES": n}, name="malformed")
    rm = ctx.take(results, "store-malformed")
    st = validate_branching(ctx, "StoreTrace", "StoreTrace.cfg", os.path.join(wd, "trace.ndjson"), 16 if th else 8, "store/malformed-cache",
                            {"dict.ndjson": os.path.join(wd, "dict.ndjson")}, describe=describe_store_event)
    results, wd2, _ = ctx.godrive("store", "^TestCacheGray$", env={"VERIF_TRACES": 600 if th else 120}, name="gray")
    rg = ctx.take(results, "store-gray")
    cov["concurrent_flush_runs"] = cache_order(ctx, 200 if th else 25)
    # the file cache itself: atomic replacement, 0600, old-or-new under kill / injected errors at every system call
    model = atomicfile_model(ctx)
    r, ok, nruns = atomicfile_conformance(ctx, ["cachewrite"])
    cov["malformed_inputs"] = rm["counters"]["inputs"]
    cov["malformed_validated"] = st["accepted"]
    cov["gray_inputs"] = rg["counters"]["inputs"]
    cov["traces_validated_against_impl"] += st["accepted"] + ok
    cov["filecache_fault_cases"] = r["counters"].get("cases", 0)
    cov["filecache_syscall_runs_validated"] = ok
    cov["states"] += model.distinct
    cov["transitions"] += model.generated
    return "model_checking", cov, ["malformed = not a well-formed document by construction (truncation, missing/null/mistyped members, empty name, non-object, "
                                   "trailing or random bytes); inputs whose treatment encoding/json leaves open (duplicate keys, case-variant names, extra "
                                   "members, overflowing numbers, null) only have to start without panic and serve the cache's or the service's value",
                                   "SIGKILL models the process dying during FileCache.Write; power loss is decided on the model (FileSys!ReplaceFlushed, AllOrNothingPower) given the recorded calls"]


# ----------------------------------------------------------------------------- C20
@check("C20")
def c20(ctx):
    th = ctx.thorough
    results, wd, _ = ctx.godrive("fields", "^TestFields$", env={"VERIF_MAXFIELDS": 3 if th else 2, "VERIF_RANDOM": 6000 if th else 600}, name="fields", timeout=3000)
    r = ctx.take(results, "fields", drop=C16_FIELDS_FINDINGS)   # how often Apply asks the service is C16's business
    tot = validate_trace_chunks(
        ctx, "FieldsTrace", "FieldsTrace.cfg", os.path.join(wd, "trace.ndjson"), 16 if th else 8,
        keyfn=lambda e: "fields %s prefix=%r forms=%s mode=%s" % (json.dumps(e["shape"]), e["prefix"], json.dumps(e["forms"]), e["mode"]),
        whatfn=lambda e, run: "the real ParseFields / NewStore / Apply disagree with the specification's table for struct shape %s, prefix %r, "
                              "secret forms %s (%s): observed parse=%s names=%s requests=%s outcome=%s err=%s alias=%s live=%s" % (
            json.dumps(e["shape"]), e["prefix"], json.dumps(e["forms"]), e["mode"], e["parse"], e["names"], e["requests"], e["outcome"], e["err"], e["alias"], e["live"]),
        timeout=3000)
    cov = {"evaluations": r["counters"]["cases"], "distinct_nontrivial": r["counters"]["cases"],
           "rule": "one case = (struct shape: every sequence of up to N fields over 12 field kinds -- string, []byte, Secret, binary unmarshaler value, pointer "
                   "to one, JSON struct, JSON int, unsupported float64, untagged, empty tag name with and without the json verb, embedded struct with a tagged "
                   "field -- and 2 secret names, so duplicates occur) x (prefix '', 'p', 'p/q') x (form of each secret's value: JSON object, JSON number, bytes "
                   "that are neither JSON nor acceptable to the unmarshaler, missing) x (Fields.Apply on a running store / StoreConfig.Structs at construction), "
                   "built with reflect.StructOf; plus random shapes of 3-6 fields. All cases are distinct by construction. Per case TLC (FieldsTrace) recomputes "
                   "from Fields.tla: accepted or the rejection reason, the requested secret names in order, what every field holds afterwards (incl. untagged "
                   "ones), whether a failure was reported, that overwriting a populated []byte field does not change what the store serves, and that Secret "
                   "fields follow the next poll while copies keep their value",
           "samples": (r.get("samples") or [])[:3], "shapes_enumerated": r["counters"]["shapes"], "exhaustive": True,
           "max_fields_enumerated": 3 if th else 2, "trace_lines_validated": tot["validated"], "states": tot["states"], "transitions": tot["generated"],
           "traces_validated_against_impl": 1}
    return "exploration", cov, ["struct types are built at run time with reflect.StructOf (exported field names); the two embedded and the unmarshaler types are "
                                "pre-declared", "prefixes and names are clean slash-separated paths, as the property states",
                                "arguments that are not pointers to structs are a fixed list of five checked in the driver"]


# ----------------------------------------------------------------------------- C18
def build_setec_cli(ctx):
    from vcheck import GO, go_env, REPO
    out = os.path.join(ctx.scratch, "bin", "setec")
    os.makedirs(os.path.dirname(out), exist_ok=True)
    p = subprocess.run([GO, "build", "-o", out, "./cmd/setec"], cwd=REPO, env=go_env(), capture_output=True, text=True)
    if p.returncode != 0:
        raise ToolTrouble("build of cmd/setec from %s failed:\n%s" % (REPO, (p.stdout + p.stderr)[-3000:]))
    return out


def validate_journeys(ctx, trace_path, parts):
    """RoundTrip: journeys (a 'put' line + one 'obs' line per hop) validated in parallel chunks cut at 'put' lines."""
    lines = open(trace_path).read().splitlines()
    journeys, cur = [], []
    for ln in lines:
        if json.loads(ln).get("ev") == "put":
            if cur:
                journeys.append(cur)
            cur = []
        cur.append(ln)
    if cur:
        journeys.append(cur)
    buckets = [journeys[i::parts] for i in range(parts)]
    ok = [0]

    def one(bi):
        js = buckets[bi]
        flat = [l for j in js for l in j]
        if not flat:
            return
        run = ctx.tlc("RoundTrip", "RoundTrip.cfg", files={"trace.ndjson": ("\n".join(flat) + "\n").encode()}, workers=1, name="rt-%d" % bi, timeout=1200)
        if run.code == 0:
            ok[0] += len(js)
            return
        hw = None
        for ln in open(run.out, errors="replace"):
            if ln.startswith('<<"HW", '):
                hw = int(ln.split(",")[1].strip(" >\n"))
        if hw is None or hw < 1 or hw > len(flat):
            raise ToolTrouble("TLC failed on RoundTrip:\n" + run.tail(30))
        # journey containing line hw
        pos = 0
        for j in js:
            if pos + len(j) >= hw:
                put = json.loads(j[0])
                bad = json.loads(flat[hw - 1])
                ctx.violation("roundtrip %s at %s" % (put.get("class"), bad.get("hop", bad.get("ev"))),
                              "a %d-byte value (%s, sha256/8 %s) did not come back unchanged at hop %r: found=%s len=%s sum=%s" % (
                                  put["len"], put.get("class"), put["sum"], bad.get("hop"), bad.get("found"), bad.get("len"), bad.get("sum")),
                              {"kind": "journey", "lines": [json.loads(x) for x in j]})
                break
            pos += len(j)
    pmap(one, range(parts), par=NCPU)
    return ok[0], len(journeys)


@check("C18")
def c18(ctx):
    th = ctx.thorough
    # the byte journeys
    results, wd, _ = ctx.godrive("e2e", "^TestRoundTrip$", env={"VERIF_TRACES": 2500 if th else 160, "VERIF_MAXLARGE": (4 << 20) if th else (1 << 20)},
                                 name="roundtrip", timeout=3000)
    rr = ctx.take(results, "e2e-roundtrip")
    okj, nj = validate_journeys(ctx, os.path.join(wd, "trace.ndjson"), 8)
    # concurrent readers of distinct large values through the real HTTP API, race detector on
    results, wd3, code = ctx.godrive("e2e", "^TestConcurrentGets$", env={"VERIF_TRACES": 120 if th else 25}, name="concgets", race=True, allow_fail=True, timeout=1700)
    blocks, real = race_blocks(os.path.join(wd3, "driver.out"))
    if blocks and not real:
        raise ToolTrouble("race inside the harness itself (no verdict):\n" + blocks[0][:2500])
    if real:
        i = real[0].index("WARNING: DATA RACE")
        ctx.violation("data race (concurrent gets)", "the race detector reports a data race while concurrent requests are served:\n" + real[0][i:i + 1800],
                      {"kind": "race", "report": real[0][i:i + 6000]})
    elif "e2e-concurrent" not in results:
        raise ToolTrouble("concurrent-get driver died:\n" + open(os.path.join(wd3, "driver.out"), errors="replace").read()[-3000:])
    conc_reads = ctx.take(results, "e2e-concurrent")["counters"].get("reads", 0) if "e2e-concurrent" in results else 0
    # the CLI table
    cli = build_setec_cli(ctx)
    results, wd2, _ = ctx.godrive("e2e", "^TestPutCli$", env={"VERIF_SETEC_BIN": cli, "VERIF_REPS": 8 if th else 4}, name="putcli", timeout=3000)
    rc = ctx.take(results, "e2e-putcli")
    tot = validate_trace_chunks(
        ctx, "PutCliTrace", "PutCliTrace.cfg", os.path.join(wd2, "trace.ndjson"), 4,
        keyfn=lambda e: "putcli %s %s verbatim=%s trim=%s emptyok=%s -> %s" % (e["class"], e["source"], e["verbatim"], e["trim"], e["emptyok"], e["outcome"]),
        whatfn=lambda e, run: "`setec put` with input class %s from %s, --verbatim=%s --trim-space=%s --empty-ok=%s: exit %s, %s request(s), %s put(s), stored bytes "
                              "are %r relative to the input; the specification (PutCli!Allowed) does not allow this. Output: %s" % (
            e["class"], e["source"], e["verbatim"], e["trim"], e["emptyok"], e["exit"], e["requests"], e["puts"], e["outcome"], e.get("output", "")[:200]))
    cli_cov = cli_sessions(ctx, cli)
    cli_cov.update(static_secrets(ctx))
    cov = {"evaluations": rr["counters"]["values"] * 8 + rc["counters"]["runs"], "distinct_nontrivial": rr["counters"]["values"] + rc["counters"]["runs"],
           "rule": "journeys: one generated byte string (the named classes: empty, NUL, newlines, ASCII, invalid UTF-8, JSON / base64 look-alikes, all 256 byte "
                   "values, then random short strings of every length residue mod 3, medium and large random strings up to 1 MiB (thorough 4 MiB), Unicode text "
                   "with NULs and separators, runs of one byte) put through the real HTTP API and read back at 8 hops: get, get-version, both again after a server "
                   "restart (db reopened from its file), a client Store, the Store's cache document, a successor Store started from that cache with the service "
                   "unreachable, a file-backed client on the same file; TLC (RoundTrip) requires length and digest to equal what was put at every hop (the "
                   "file-backed client may omit an empty value). CLI: the binary built from the working tree is run for every input class x {file, pipe} x all 8 "
                   "flag subsets x several concrete inputs; TLC (PutCliTrace) checks exit status, number of requests and the stored bytes against PutCli!Allowed. "
                   "distinct = values + CLI runs",
           "samples": (rr.get("samples") or [])[:2] + (rc.get("samples") or [])[:3], "values": rr["counters"]["values"], "bytes_put": rr["counters"]["bytes"],
           "journeys_validated": okj, "concurrent_large_gets": conc_reads, "cli_runs": rc["counters"]["runs"], "cli_lines_validated": tot["validated"],
           "states": tot["states"], "transitions": tot["generated"], "traces_validated_against_impl": okj + 1,
           "beyond_the_property": cli_cov}
    return "exploration", cov, ["universality over byte strings is by generation across the listed classes, not enumeration; the specification fixes the hops, the order "
                                "and the one permitted exception", "WhoIs is the injected seam (every caller is granted everything); the interactive terminal path of "
                                "`setec put` is not exercised (no terminal)"]


class NoteCtx:
    """Wraps a check context for parts of the specification that no listed property speaks about: what would be a
    violation is recorded as a note in the evidence (and on stderr), never as a verdict."""
    def __init__(self, ctx, label):
        self._ctx, self._label, self.count = ctx, label, 0

    def __getattr__(self, k):
        return getattr(self._ctx, k)

    def violation(self, key, what, replay=None):
        self.count += 1
        if self.count <= 5:
            self._ctx.note("SPEC-NOTE (%s; no listed property covers this, not a verdict): %s -- %s" % (self._label, key, what[:700]))


def static_secrets(ctx):
    """The library's placeholder secrets (StaticSecret / StaticFile / StaticTextFile / StaticUpdater) against Static.tla; beyond the
    listed properties: a difference is a note."""
    results, wd, _ = ctx.godrive("e2e", "^TestStatic$", env={"VERIF_TRACES": 60 if ctx.thorough else 15}, name="static", timeout=600)
    r = results.get("e2e-static")
    if r is None:
        ctx.note("SPEC-NOTE: the static-secret driver did not report (not a verdict)")
        return {"static_calls": 0}
    nctx = NoteCtx(ctx, "static secrets vs Static.tla")
    st = validate_histories(nctx, "StaticTrace", "StaticTrace.cfg", os.path.join(wd, "trace.ndjson"), 2,
                            extra_files={"dict.ndjson": open(os.path.join(wd, "dict.ndjson"), "rb").read()}, what="static-secret run",
                            describe=lambda e: json.dumps(e, sort_keys=True)[:200])
    return {"static_runs": st["histories"], "static_runs_accepted": st["accepted"], "static_calls_validated": st["events"], "static_differences_noted": nctx.count}


def cli_sessions(ctx, cli):
    """The whole command-line client as sessions validated against Cli.tla (list, info, get variants, put, activate, the
    two-step confirmation of both deletes). Only `put` is the subject of a listed property (C18, decided by PutCli); the
    rest extends the specification's coverage of the system, so a difference here is a note, not a violation."""
    th = ctx.thorough
    mc = ctx.tlc("CliMC", "CliMC.cfg", workers=8, timeout=1500, name="climc")
    ctx.tlc_must_pass(mc, "Cli: ConfirmedDeletes, UnconfirmedChangesNothing, RefusedSendsNothing, GetPrintsServed, TokenWorks")
    results, wd, _ = ctx.godrive("e2e", "^TestCliSession$", env={"VERIF_SETEC_BIN": cli, "VERIF_TRACES": 40 if th else 8, "VERIF_EVENTS": 70},
                                 name="clisession", timeout=3000)
    r = results.get("e2e-cli")
    if r is None:
        ctx.note("SPEC-NOTE: the CLI session driver did not report (not a verdict)")
        return {"cli_sessions": 0}
    nctx = NoteCtx(ctx, "setec CLI vs Cli.tla")
    for v in (r.get("violations") or []):
        nctx.violation(v["key"], v["what"], v.get("replay"))
    st = validate_histories(nctx, "CliTrace", "CliTrace.cfg", os.path.join(wd, "trace.ndjson"), 4,
                            extra_files={"dict.ndjson": open(os.path.join(wd, "dict.ndjson"), "rb").read()}, what="CLI session",
                            describe=lambda e: "setec %s %s ver=%s tok=%s -> exit %s, %s request(s)" % (e.get("cmd"), e.get("name"), e.get("ver"), e.get("tok"), e.get("exit"), e.get("reqs")))
    return {"cli_model_states": mc.distinct, "cli_model_transitions": mc.generated, "cli_sessions": st["histories"], "cli_sessions_accepted": st["accepted"],
            "cli_commands_validated": st["events"], "cli_differences_noted": nctx.count, "cli_samples": (r.get("samples") or [])[:3],
            "what": "spec/Cli.tla: every command of the setec binary as an action over Vault; TLC checks on CliMC that a delete reaches the service "
                    "only under a token printed for that very request in the current window, that refused commands send nothing, that get writes "
                    "exactly the served bytes and that an unchanged conditional get is a failure with empty output; recorded sessions of the real "
                    "binary against a real server are validated line by line (exit status, requests sent, parsed output, server state)"}


def apalache_inductive(ctx, module, init, indinit, inv, action_invs=(), cinit=None):
    """Unbounded safety with Apalache: Init => Inv (length 0), Inv /\\ Next => Inv' (length 1 from an arbitrary state satisfying Inv),
    and action invariants from such a state."""
    if shutil.which("apalache-mc") is None:
        raise ToolTrouble("apalache-mc is not on PATH")
    d = os.path.join(ctx.scratch, "apalache-" + module)
    os.makedirs(d, exist_ok=True)
    shutil.copy(os.path.join(VERIF, "spec", module + ".tla"), d)
    runs = [("base", ["--init=" + init, "--inv=" + inv, "--length=0"]), ("step", ["--init=" + indinit, "--inv=" + inv, "--length=1"])]
    runs += [("action:" + a, ["--init=" + indinit, "--inv=" + a, "--length=1"]) for a in action_invs]
    done = []
    for name, args in runs:
        try:
            p = subprocess.run(["apalache-mc", "check"] + (["--cinit=" + cinit] if cinit else []) + args + ["--out-dir=" + os.path.join(d, "out"), module + ".tla"], cwd=d, capture_output=True, text=True, timeout=900)
        except subprocess.TimeoutExpired:
            raise ToolTrouble("apalache timed out on %s (%s)" % (module, name))
        if "EXITCODE: OK" not in p.stdout:
            raise ToolTrouble("Apalache does not confirm the inductive invariant of %s (%s): a problem in the specification, not a verdict on the code\n%s" % (
                module, name, (p.stdout + p.stderr)[-2000:]))
        done.append(name)
    log("Apalache %s: %s" % (module, ", ".join(done)))
    return {"module": module, "invariant": inv, "checked": done}


# ----------------------------------------------------------------------------- C17
@check("C17")
def c17(ctx):
    th = ctx.thorough
    cfg = open(os.path.join(VERIF, "spec", "cfg", "BackupMC.cfg")).read()
    consts = {} if th else {"Steps": "{30000}", "Horizon": 330000}
    run = ctx.tlc("BackupMC", cfg, workers=NCPU, name="mc", timeout=3000, heap="12g", consts=consts)
    ctx.tlc_must_pass(run, "Backup: Consistent, RateLimit, Settled, ChangeDriven, Quiescent, CoverExact over all timelines; refinement of BackupInd")
    apal = apalache_inductive(ctx, "BackupInd", "Init", "IndInit", "IndInv", ["RateLimitStep"])
    results, wd, code = ctx.godrive("backup", "^TestBackupTimelines$", env={"VERIF_TRACES": 3000 if th else 300}, name="timelines", timeout=3000)
    r = ctx.take(results, "backup-timelines", drop=C05_BACKUP_FINDINGS)  # what the files and the key say is C05's business
    st = validate_branching(ctx, "BackupTrace", "BackupTrace.cfg", os.path.join(wd, "trace.ndjson"), 16 if th else 8, "backup",
                            {}, describe=lambda ev: json.dumps(ev, sort_keys=True)[:160])
    # the task is actually started by server.New when a bucket is configured (real time, loopback endpoint)
    results2, wd2, _ = ctx.godrive("backup", "^TestServerStartsBackups$", name="servernew", timeout=600)
    r2 = ctx.take(results2, "backup-servernew")
    cov = {"states": run.distinct, "transitions": run.generated, "traces_validated_against_impl": st["accepted"],
           "samples": (r.get("samples") or [])[:2], "timelines_recorded": st["histories"], "trace_events_validated": st["events"],
           "uploads_observed": r["counters"].get("uploads", 0), "database_writes": r["counters"].get("writes", 0),
           "server_new_uploads": r2["counters"].get("uploads", 0), "apalache_inductive_invariant": apal,
           "explanation": "Backup.tla models the loop step by step (check the generation / read the live file / request reaches the bucket / outcome incl. the "
                          "client's time limit / wait at least a minute, at most MaxWait / exit on cancellation) with database writes, a bucket that answers, fails or stalls, "
                          "cancellation and an explicit clock that cannot pass a due step. TLC checks Consistent, ChangeDriven, RateLimit, Quiescent, "
                          "CoverExact and Settled over all bounded timelines. The real loop (hook server.VerifPeriodicBackup) runs under testing/synctest "
                          "against a real db.DB and an in-memory S3 endpoint on random timelines (write bursts, idle stretches of up to 10 minutes, bucket "
                          "failing or stalling at any position, writes racing a stalled upload, cancellation at any moment); every write (generation, file "
                          "digest), request (body digest), outcome, clock step, cancellation and return is validated by TLC, which places the unlogged steps. "
                          "A watchdog on the real clock reports a bubble that never becomes idle (a spinning task)."}
    return "model_checking", cov, ["virtual time (testing/synctest); the S3 endpoint is an in-memory HTTP client given to a real aws-sdk s3.Client (one attempt per "
                                   "upload)", "file versions are identified by the SHA-256 of the live file after each write",
                                   "'does not hammer the database lock' is covered only as 'takes no step while waiting' (the bubble is idle)"]
