----------------------------- MODULE FieldsTrace -----------------------------
(***************************************************************************)
(* Every line of trace.ndjson is one struct shape built at run time with   *)
(* reflect.StructOf and pushed through the real ParseFields / NewStore /   *)
(* Fields.Apply against a scripted service, with everything observable     *)
(* recorded: accepted or rejected (and why), the secrets requested, what   *)
(* each field holds afterwards, whether an error was reported, whether a   *)
(* []byte field aliases the store's buffer, whether Secret fields follow   *)
(* the next poll while copies do not.  TLC recomputes each from Fields.    *)
(***************************************************************************)
EXTENDS Fields, Json

Trace == ndJsonDeserialize("trace.ndjson")
VARIABLE l
Init == l = 1

FormsOf(e) == [n \in {e.forms[i].name : i \in DOMAIN e.forms} |-> (CHOOSE x \in {e.forms[i] : i \in DOMAIN e.forms} : x.name = n).form]

LineGood(e) ==
  LET shape == e.shape
      forms == FormsOf(e)
      p == Parse(shape)
  IN /\ e.parse = p
     /\ IF p # "ok"
        THEN /\ e.requests = <<>>            \* rejected up front: nothing was asked of the service
             /\ e.names = <<>>
        ELSE /\ e.names = Requested(shape, e.prefix)
             \* (under a context that is already over -- mode "applyc" -- a lookup that cannot succeed need not be sent)
             /\ LET asked == {e.requests[i] : i \in DOMAIN e.requests}
                    due == {Requested(shape, e.prefix)[i] : i \in DOMAIN Requested(shape, e.prefix)}
                IN  IF e.mode = "applyc" THEN asked \subseteq due /\ {n \in due : forms[n] # "missing"} \subseteq asked ELSE asked = due
             /\ e.outcome = Outcome(shape, forms, e.prefix)
             /\ e.err = (IF Failed(shape, forms, e.prefix) THEN "t" ELSE "f")
             /\ e.alias = "f"                \* changing a populated []byte field never alters what the store serves
             /\ e.live = "t"                 \* Secret fields follow the next poll; copies keep the value they were given

Next == l <= Len(Trace) /\ l' = l + 1
LineOK == l > Len(Trace) \/ LineGood(Trace[l])
Accepted == TLCGet("stats").diameter = Len(Trace) + 1
=============================================================================
