------------------------------- MODULE Cadence -------------------------------
(***************************************************************************)
(* Background polls happen once per configured interval within +/-10 %     *)
(* (C11): the poller draws ONE jittered period T in [0.9 I, 1.1 I) when it  *)
(* starts and then polls at T, 2T, 3T, ... (a poll that is still running    *)
(* when the next tick is due makes that tick late, never early or doubled). *)
(* trace.ndjson: per store a "start" line with the interval, then one       *)
(* "poll" line per round with the virtual time of its first request.        *)
(***************************************************************************)
EXTENDS Integers, Sequences, TLC, Json
Trace == ndJsonDeserialize("trace.ndjson")
VARIABLES l, interval, period, last
Init == l = 1 /\ interval = 0 /\ period = 0 /\ last = 0
Start ==
  /\ l <= Len(Trace) /\ Trace[l].ev = "start"
  /\ interval' = Trace[l].interval /\ period' = 0 /\ last' = 0 /\ l' = l + 1
Poll ==
  /\ l <= Len(Trace) /\ Trace[l].ev = "poll"
  /\ LET d == Trace[l].t - last IN
     IF period = 0
     THEN /\ 9 * interval <= 10 * d /\ 10 * d < 11 * interval     \* the first period fixes T within +/-10 %
          /\ period' = d
     ELSE /\ d \in {period - 1, period, period + 1} /\ UNCHANGED period  \* every later round one period later (times are logged in whole ms)
  /\ last' = Trace[l].t /\ l' = l + 1 /\ UNCHANGED interval
Next == Start \/ Poll
Accepted == PrintT(<<"HW", TLCGet("stats").diameter>>) /\ TLCGet("stats").diameter = Len(Trace) + 1
=============================================================================
