------------------------------- MODULE Cadence -------------------------------
(***************************************************************************)
(* Background polls happen once per configured interval within +/-10 %     *)
(* (C11): consecutive polls are between 0.9 I and 1.1 I apart (the code     *)
(* draws one jittered period when it starts; the property fixes only the    *)
(* band), also when the service is slow: the next poll is due one period    *)
(* after the previous one STARTED.                                          *)
(* trace.ndjson: per store a "start" line with the interval, then one       *)
(* "poll" line per round with the virtual time of its first request.        *)
(***************************************************************************)
EXTENDS Integers, Sequences, TLC, Json
Trace == ndJsonDeserialize("trace.ndjson")
VARIABLES l, interval, period, last
Init == l = 1 /\ interval = 0 /\ period = 0 /\ last = 0
Start ==
  /\ l <= Len(Trace) /\ Trace[l].ev = "start"
  /\ interval' = Trace[l].interval /\ period' = 0 /\ last' = 0 /\ l' = l + 1
Poll ==
  /\ l <= Len(Trace) /\ Trace[l].ev = "poll"
  /\ LET d == Trace[l].t - last IN
     /\ 9 * interval <= 10 * (d + 1) /\ 10 * (d - 1) <= 11 * interval    \* every period within +/-10 % of the interval (times are whole ms)
     /\ period' = d
  /\ last' = Trace[l].t /\ l' = l + 1 /\ UNCHANGED interval
Next == Start \/ Poll
Accepted == PrintT(<<"HW", TLCGet("stats").diameter>>) /\ TLCGet("stats").diameter = Len(Trace) + 1
=============================================================================
