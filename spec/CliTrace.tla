------------------------------ MODULE CliTrace ------------------------------
(***************************************************************************)
(* Trace validation of the real `setec` binary against Cli (direction B).  *)
(* trace.ndjson holds recorded sessions separated by "reset" lines; every  *)
(* "cmd" line is one run of the binary built from the working tree against *)
(* a real server: command, arguments, kind of confirmation token passed,   *)
(* exit status, number of API requests that reached the server, parsed     *)
(* standard output, whether a token was printed, and the server's full     *)
(* state afterwards.  A line is consumed only by the Cli action it names,  *)
(* with the outcome the specification prescribes.                          *)
(*                                                                         *)
(* Token kinds: "none"; "fresh" (the token the binary printed a moment ago *)
(* for this very request); "stale" (the same token with its window number  *)
(* decreased by one, i.e. what the binary printed a minute earlier);       *)
(* "foreign" (printed a moment ago for a different request); "garbage".    *)
(* The recorded sessions never wait for the window to move on (the driver  *)
(* repeats a confirm pair that straddles a boundary), so win stays 1.      *)
(***************************************************************************)
EXTENDS Naturals, Sequences, FiniteSets, TLC, Json

CONSTANT Nil

Trace == ndJsonDeserialize("trace.ndjson")
Dict  == ndJsonDeserialize("dict.ndjson")[1]

ToSet(s) == {s[i] : i \in DOMAIN s}
NameSet == {Dict.names[i].name : i \in DOMAIN Dict.names}
CpTab == [n \in NameSet |-> (CHOOSE i \in DOMAIN Dict.names : Dict.names[i].name = n)]
CpImpl(n) == Dict.names[CpTab[n]].cps
InternalPrefix == <<95, 105, 110, 116, 101, 114, 110, 97, 108, 47>>
ReservedImpl(n) == LET c == CpImpl(n) IN Len(c) >= 10 /\ SubSeq(c, 1, 10) = InternalPrefix
Vals == ToSet(Dict.vals)
MaxVer == Dict.maxver

VARIABLES sec, disk, auditOK, last, win, issued, out, l
C == INSTANCE Cli WITH Names <- NameSet, Cp <- CpImpl, Reserved <- ReservedImpl, MaxWin <- 1
M == INSTANCE TraceMatch

B(s) == s = "t"
ReqFor(e) == IF e.cmd = "delete-version" THEN C!ReqDelVer(e.name, e.ver) ELSE C!ReqDelete(e.name)
OtherReq == [kind |-> "other", name |-> "", ver |-> 0]
TokFor(e) ==
  CASE e.tok = "none"    -> Nil
    [] e.tok = "fresh"   -> C!Token(ReqFor(e), win)
    [] e.tok = "stale"   -> C!Token(ReqFor(e), 0)
    [] e.tok = "foreign" -> C!Token(OtherReq, win)
    [] OTHER             -> C!Token(OtherReq, 0)

Step(e) ==
  CASE e.cmd = "list" -> C!CmdList
    [] e.cmd = "info" -> C!CmdInfo(e.name)
    [] e.cmd = "get"  -> C!CmdGet(e.name, e.ver, B(e.flag))
    [] e.cmd = "put"  -> C!CmdPut(e.name, e.val)
    [] e.cmd = "activate" -> IF B(e.flag) THEN C!CmdActivateBad(e.name) ELSE C!CmdActivate(e.name, e.ver)
    [] e.cmd = "delete-version" -> IF B(e.flag) THEN C!CmdDeleteVersionBad(e.name, TokFor(e))
                                   ELSE C!CmdDeleteVersion(e.name, e.ver, TokFor(e))
    [] e.cmd = "delete-secret" -> C!CmdDeleteSecret(e.name, TokFor(e))
    [] OTHER -> FALSE

\* standard output: what the specification says the command writes vs what was parsed from the real run
StdoutMatches(m, r) ==
  IF m = Nil THEN r.kind = "none"
  ELSE CASE m.kind = "rows"  -> /\ r.kind = "rows"
                                /\ Len(r.rows) = Cardinality(m.rows)
                                /\ \A i \in DOMAIN r.rows : \E x \in m.rows : M!InfoMatches(x, r.rows[i])
         [] m.kind = "info"  -> r.kind = "info" /\ M!InfoMatches(m.info, r.info)
         [] m.kind = "value" -> r.kind = "value" /\ r.val = m.val
         [] m.kind = "saved" -> r.kind = "saved" /\ r.ver = m.ver
         [] OTHER -> FALSE

TraceCmd ==
  /\ l <= Len(Trace) /\ Trace[l].ev = "cmd"
  /\ LET e == Trace[l] IN
     /\ Step(e)
     /\ (out'.exit = "ok") = (e.exit = 0)
     /\ out'.reqs = e.reqs
     /\ StdoutMatches(out'.stdout, e.out)
     /\ (out'.printed # Nil) = B(e.printed)
     /\ M!StateMatches(sec', NameSet, e.state)
  /\ l' = l + 1

TraceReset ==
  /\ l <= Len(Trace) /\ Trace[l].ev = "reset"
  /\ sec' = C!V!NoSecret /\ disk' = C!V!NoSecret /\ auditOK' = TRUE
  /\ last' = C!V!Out("create", "", "", Nil, 0, "none", C!V!Plain("ok"), <<>>, TRUE, 1)
  /\ win' = 1 /\ issued' = {}
  /\ out' = C!Out("start", "", 0, FALSE, Nil, "ok", 0, Nil, Nil)
  /\ l' = l + 1

Init == C!Init /\ l = 1
Next == TraceCmd \/ TraceReset

TypeOK == C!V!TypeOK
Durable == C!V!Durable
StepOK == [][out'.cmd = "start" \/ C!StepProps]_<<sec, disk, auditOK, last, win, issued, out>>

Accepted == LET d == TLCGet("stats").diameter IN PrintT(<<"HW", d>>) /\ d = Len(Trace) + 1
=============================================================================
