------------------------------- MODULE Fields -------------------------------
(***************************************************************************)
(* The struct-tag plumbing of the client store (client/setec/fields.go) as *)
(* a decision table, written from the documented behaviour:                *)
(*                                                                         *)
(*   a struct shape is a sequence of fields [kind, name]; a field tagged   *)
(*   setec:"name[,json]" asks for the secret  prefix/name;                 *)
(*   []byte gets a private copy, string the text, Secret a live handle,    *)
(*   a (pointer to a) binary unmarshaler or -- with the json verb -- any   *)
(*   JSON-decodable type gets the decoded value; untagged fields are not   *)
(*   touched; unsupported types, empty names and structs without tagged    *)
(*   fields are rejected before anything is requested; a field that cannot *)
(*   be filled is reported and does not stop the others.                   *)
(*                                                                         *)
(* Secret values come in forms: "obj" (a JSON object), "num" (a JSON       *)
(* number), "junk" (neither JSON nor acceptable to the binary unmarshaler  *)
(* of the test types), "trail" (a JSON value followed by more data: not a  *)
(* JSON document) and "missing" (the service has no such secret).          *)
(***************************************************************************)
EXTENDS Integers, Sequences, FiniteSets, TLC

Kinds == {"string", "bytes", "secret", "binval", "binptr", "jsonstruct", "jsonint", "float", "untagged", "emptyname", "emptyjson", "embedded"}
Forms == {"obj", "num", "junk", "missing", "trail"}      \* "trail": a complete JSON value followed by more data

Tagged(k) == k # "untagged"
Offending(k) == k \in {"float", "emptyname", "emptyjson"}      \* rejected up front: unsupported type, empty secret name

\* path.Join on clean slash-separated parts
Join(prefix, name) == IF prefix = "" THEN name ELSE prefix \o "/" \o name

Min(S) == CHOOSE x \in S : \A y \in S : x <= y
TaggedIdx(shape) == {i \in DOMAIN shape : Tagged(shape[i].kind)}

\* ParseFields / NewStore's validation: a struct with an offending field, or without any tagged field, is rejected up front
\* (which field is named first, and in what words, is the implementation's business)
Parse(shape) ==
  IF \E i \in DOMAIN shape : Offending(shape[i].kind) THEN "rejected"
  ELSE IF TaggedIdx(shape) = {} THEN "rejected"
  ELSE "ok"

\* the secrets requested, one per tagged field, in declaration order
Requested(shape, prefix) ==
  LET F[i \in 0..Len(shape)] ==
        IF i = 0 THEN <<>> ELSE IF Tagged(shape[i].kind) THEN Append(F[i - 1], Join(prefix, shape[i].name)) ELSE F[i - 1]
  IN F[Len(shape)]

\* can a value of this form be delivered to a field of this kind?
Accepts(kind, form) ==
  CASE form = "missing" -> FALSE
    [] kind \in {"string", "bytes", "secret", "embedded"} -> TRUE
    [] kind \in {"binval", "binptr"} -> form # "junk"
    [] kind = "jsonstruct" -> form = "obj"
    [] kind = "jsonint" -> form = "num"
    [] OTHER -> FALSE

\* per field: "set" (holds the secret's current value in the field's own representation) or "untouched"
Outcome(shape, forms, prefix) ==
  [i \in DOMAIN shape |->
     IF ~Tagged(shape[i].kind) THEN "untouched"
     ELSE IF Accepts(shape[i].kind, forms[Join(prefix, shape[i].name)]) THEN "set" ELSE "untouched"]

\* a failure on any field is reported
Failed(shape, forms, prefix) ==
  \E i \in TaggedIdx(shape) : ~Accepts(shape[i].kind, forms[Join(prefix, shape[i].name)])
=============================================================================
