----------------------------- MODULE PutCliTrace -----------------------------
(* Every line of trace.ndjson is one run of the real `setec put` binary (built from the working tree) against *)
(* a local server: input source and class, flags, exit status, number of requests that reached the server    *)
(* and how the stored bytes relate to the input.  TLC checks each against PutCli!Allowed.                     *)
EXTENDS PutCli, Json
Trace == ndJsonDeserialize("trace.ndjson")
VARIABLE l
Init == l = 1
Next == l <= Len(Trace) /\ l' = l + 1
B(s) == s = "t"
LineGood(e) ==
  /\ e.class \in Classes /\ e.source \in Sources
  /\ e.outcome \in Allowed(e.class, B(e.verbatim), B(e.trim), B(e.emptyok))
  /\ (e.outcome = "refused") = (e.exit # 0)               \* a refusal is reported, a success is not
  /\ (e.outcome = "refused") => e.requests = 0             \* refused without contacting the server
  /\ (e.outcome # "refused") => e.puts = 1                 \* exactly one put
LineOK == l > Len(Trace) \/ LineGood(Trace[l])
Accepted == TLCGet("stats").diameter = Len(Trace) + 1
ASSUME BinaryVerbatim /\ PlainTextVerbatim /\ NeitherFlagRefuses /\ EmptyNeedsOK /\ NeverEmptyWithoutOK
=============================================================================
