------------------------------- MODULE StoreMC -------------------------------
(***************************************************************************)
(* Bounded instances of Store for TLC, one configuration per property      *)
(* family (the full product is far beyond exhaustive reach; simulation     *)
(* covers it).  `Acts` selects which environment / API actions are offered. *)
(***************************************************************************)
EXTENDS Integers, Sequences, FiniteSets, TLC, Json

CONSTANTS Nil, MaxVer, NameSet, CallerSet,
          Acts,          \* subset of action names offered
          DeclaredSets,  \* set of declared-name sets to construct the store with
          AllowLookups,  \* subset of BOOLEAN
          Expiries,      \* set of expiry ages (ms)
          CacheKinds,    \* subset of {"none","empty","readerr","garbage","partial","complete","stale","undeclared"}
          NewDeadlines,  \* set of NewStore context deadlines (ms from the call) 0 = none
          LookupDeadlines, \* likewise for lookups
          Steps,         \* clock increments offered
          Horizon,       \* the clock stops here
          EmitEdges

VARIABLES cfg, svc, m, handles, cache, phase, closed, ini, poll, lk, rq, call, now, hist, out
S == INSTANCE Store WITH Names <- NameSet, Callers <- CallerSet, ZeroStamp <- -1000000

vars == <<cfg, svc, m, handles, cache, phase, closed, ini, poll, lk, rq, call, now, hist, out>>

On(a) == a \in Acts

\* cache contents offered to a new store (the service's active version at that time is 1 for every name)
DocFor(names, ver, la) == [n \in NameSet |-> IF n \in names THEN [ver |-> ver, la |-> la] ELSE Nil]
CacheOf(kind, declared) ==
  CASE kind = "none"      -> [kind |-> "none", doc |-> S!NoDoc, wfail |-> FALSE]
    [] kind = "empty"     -> [kind |-> "empty", doc |-> S!NoDoc, wfail |-> FALSE]
    [] kind = "readerr"   -> [kind |-> "readerr", doc |-> S!NoDoc, wfail |-> FALSE]
    [] kind = "garbage"   -> [kind |-> "garbage", doc |-> S!NoDoc, wfail |-> FALSE]
    [] kind = "complete"  -> [kind |-> "doc", doc |-> DocFor(declared, 1, 0), wfail |-> FALSE]
    [] kind = "stale"     -> [kind |-> "doc", doc |-> DocFor(declared, 2, 0), wfail |-> FALSE]
    [] kind = "partial"   -> [kind |-> "doc", doc |-> DocFor(IF declared = {} THEN {} ELSE {CHOOSE n \in declared : TRUE}, 1, 0), wfail |-> FALSE]
    [] kind = "undeclared" -> [kind |-> "doc", doc |-> DocFor(NameSet, 1, 0), wfail |-> FALSE]      \* also secrets nobody declared, stamp 0 s
    [] kind = "zerostamp"  -> [kind |-> "doc", doc |-> DocFor(NameSet, 1, -1000000), wfail |-> FALSE]

Configs == {[declared |-> d, allowLookup |-> al, expiry |-> e, hasCache |-> hc, fileClient |-> FALSE, auto |-> au, structs |-> <<>>] :
              d \in DeclaredSets, al \in AllowLookups, e \in Expiries, hc \in BOOLEAN, au \in {On("tick")}}

Dl(set, x) == IF x = 0 THEN Nil ELSE now + x

Init ==
  /\ S!Init
  /\ svc = [n \in NameSet |-> [ver |-> 1, mode |-> "ok"]]
  /\ cache = [kind |-> "none", doc |-> S!NoDoc, wfail |-> FALSE]

NextTimes == {t \in {now + d : d \in Steps} \cup S!Timers : t > now /\ t <= Horizon}

Forced == IF On("fail") THEN {FALSE, TRUE} ELSE {FALSE}

Next ==
  \/ On("newstore") /\ phase = "config" /\
       \E c \in Configs, k \in CacheKinds, dl \in NewDeadlines :
         /\ (c.hasCache = (k # "none"))
         /\ (c.declared # {} \/ c.allowLookup)
         /\ S!NewStore(c, FALSE, Dl(NewDeadlines, dl), CacheOf(k, c.declared))
  \/ On("restart") /\ phase \in {"running", "failed"} /\ now < Horizon /\
       S!NewStore(cfg, FALSE, Nil, cache)
  \/ \E n \in NameSet : S!InitReq(n) \/ S!PollStep(n) \/ S!FlightSend(n)
  \/ \E n \in NameSet, f \in Forced : S!InitResp(n, f) \/ S!PollResp(n, f) \/ S!LookupResp(n, f)
  \/ \E n \in NameSet : S!InitStray(n)
  \/ (On("xflush") /\ S!ExtraFlush)
  \/ S!InitRoundEnd \/ S!InitWake \/ S!InitGiveUp \/ S!PollFinish
  \/ \E n \in NameSet : S!FlightSkip(n)
  \/ On("refresh") /\ \E c \in CallerSet, dl \in LookupDeadlines : S!Refresh(c, Dl(LookupDeadlines, dl))
  \/ On("tick") /\ S!Refresh("poller", Nil)
  \/ \E c \in CallerSet : S!RefreshGiveUp(c)
  \/ On("handle") /\ \E n \in NameSet : S!Handle(n)
  \/ On("read") /\ \E n \in NameSet : S!Read(n)
  \/ On("lookup") /\ \E k \in CallerSet, n \in NameSet, dl \in LookupDeadlines : S!Lookup(k, n, Dl(LookupDeadlines, dl))
  \/ \E k \in CallerSet : S!LookupEnter(k) \/ S!LookupGiveUp(k) \/ S!CtxExpire(k)
  \/ On("cancel") /\ \E k \in CallerSet : S!Cancel(k)
  \/ On("close") /\ (S!Close \/ S!PollerGiveUp \/ S!PollerExit)
  \/ On("svc") /\ phase # "config" /\ \E n \in NameSet, v \in 0..MaxVer : v # svc[n].ver /\ S!SvcActivate(n, v)
  \/ On("cachefault") /\ \E w \in BOOLEAN : w # cache.wfail /\ S!CacheFault(w)
  \/ \E t \in NextTimes : S!Advance(t)

Spec == Init /\ [][Next]_vars

\* `out` is output only; the installation history grows without bound and is only needed by trace validation
View == <<cfg, svc, m, handles, cache, phase, closed, ini, poll, lk, rq, call, now, hist.served>>

InitOK == S!InitOK
HandleNeverDangles == S!HandleNeverDangles
InstalledServed == S!InstalledServed
InstLast == S!InstLast
PollConverges == S!PollConverges
Coalesce == S!Coalesce
LookupGate == S!LookupGate
Bounded == S!Bounded
NeverDropDeclared == S!NeverDropDeclared
StepProps == [][S!DropRule /\ S!ReadServed' /\ S!NotCollateral' /\ S!CacheVersions']_vars

Emit == EmitEdges => PrintT(<<"EDGE", ToJson([op |-> out'])>>)
=============================================================================
