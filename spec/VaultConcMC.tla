----------------------------- MODULE VaultConcMC -----------------------------
(***************************************************************************)
(* All interleavings of a few clients issuing a few calls each at the      *)
(* code's atomicity (Begin / Log / Apply / LogApply / End).                *)
(***************************************************************************)
EXTENDS Naturals, Sequences, FiniteSets, TLC
CONSTANTS Nil, MaxVer, Vals, NClients, CallsEach

NameSet == {"A", ""}
CpImpl(n) == IF n = "A" THEN <<65>> ELSE <<>>
ReservedImpl(n) == FALSE
Clients == 1..NClients

VARIABLES sec, disk, auditOK, last, pc, req, resp, alog, done
C == INSTANCE VaultConc WITH Names <- NameSet, Cp <- CpImpl, Reserved <- ReservedImpl

SU == <<[action |-> <<"get", "info", "put", "activate", "delete">>, secret |-> <<<<42>>>>]>>
RO == <<[action |-> <<"get">>, secret |-> <<<<65>>>>]>>   \* may only get A
R(op, who, rules, n, val, ver) == [op |-> op, who |-> who, rules |-> rules, name |-> n, val |-> val, ver |-> ver]
Menu(c) ==
  LET who == IF c = 1 THEN "su" ELSE "ro"
      rules == IF c = 1 THEN SU ELSE (IF c = 2 THEN SU ELSE RO)
      w == IF c = 2 THEN "su2" ELSE who
  IN  {R("put", w, rules, "A", v, 0) : v \in Vals}
      \cup {R("get", w, rules, "A", Nil, 0), R("list", w, rules, "", Nil, 0), R("delete", w, rules, "A", Nil, 0),
            R("info", w, rules, "A", Nil, 0), R("put", w, rules, "", "x", 0)}
      \cup {R("getcond", w, rules, "A", Nil, k) : k \in 1..2}
      \cup {R("activate", w, rules, "A", Nil, k) : k \in 1..2}
      \cup {R("delver", w, rules, "A", Nil, k) : k \in 1..2}

Init == C!Init /\ done = [c \in Clients |-> 0]
Next ==
  \E c \in Clients :
    \/ (done[c] < CallsEach /\ \E r \in Menu(c) : C!Begin(c, r) /\ done' = [done EXCEPT ![c] = @ + 1])
    \/ ((C!Log(c) \/ C!Apply(c) \/ C!Refuse(c) \/ C!LogApply(c) \/ C!LogList(c) \/ C!LogDeniedCond(c) \/ C!ApplyCond(c) \/ C!LogAfter(c) \/ C!End(c)) /\ UNCHANGED done)

TypeOK == C!TypeOK
AuditBeforeEffect == C!AuditBeforeEffect
\* the log never loses or reorders records: it only grows by appending
AppendOnly == [][Len(alog') >= Len(alog) /\ SubSeq(alog', 1, Len(alog)) = alog]_<<alog>>
View == <<sec, pc, req, resp, done, Len(alog)>>
=============================================================================
