----------------------------- MODULE UpdaterMC -----------------------------
(* Bounded instance of Updater for TLC: every interleaving of installs, updater creation split at its *)
(* three steps, concurrent Get callers split at theirs, and builder failures.                         *)
EXTENDS Integers, Sequences, FiniteSets, TLC, Json

CONSTANTS Nil, NameSet, UpdSet, GetterSet, MaxInst, EmitEdges

VARIABLES cur, w, u, failing, g, closed, nextId, out
U == INSTANCE Updater WITH Names <- NameSet, Upds <- UpdSet, Getters <- GetterSet
vars == <<cur, w, u, failing, g, closed, nextId, out>>

Init == U!Init
Next ==
  \/ \E S \in SUBSET NameSet : (\A n \in S : cur[n] < MaxInst) /\ U!Install(S)
  \/ \E x \in UpdSet, n \in NameSet : U!Register(x, n)
  \/ \E x \in UpdSet : U!InitRead(x) \/ U!InitBuild(x)
  \/ \E t \in GetterSet, x \in UpdSet : U!GetBegin(t, x)
  \/ \E t \in GetterSet : U!GetLock(t) \/ U!GetRead(t) \/ U!GetBuild(t) \/ U!CloseOld(t) \/ U!GetEnd(t)
  \/ \E x \in UpdSet, b \in BOOLEAN : U!SetFailing(x, b)
Spec == Init /\ [][Next]_vars

View == <<cur, w, u, failing, g, closed, nextId>>

\* UpdaterInd is the typed twin (ids and the close log left out) whose invariant Apalache proves inductive, for any
\* number of installs; here TLC checks on the bounded instance that Updater refines it and that the inductive
\* invariant holds in every reachable state.
UI == INSTANCE UpdaterInd WITH
        Names <- NameSet, Upds <- UpdSet, Getters <- GetterSet,
        wname <- [x \in UpdSet |-> IF w[x] = Nil THEN "" ELSE w[x].name],
        ready <- [x \in UpdSet |-> IF w[x] = Nil THEN FALSE ELSE w[x].ready],
        upc <- [x \in UpdSet |-> IF u[x] = Nil THEN "none" ELSE u[x].pc],
        uread <- [x \in UpdSet |-> IF u[x] = Nil THEN 0 ELSE u[x].read],
        ufrom <- [x \in UpdSet |-> IF u[x] = Nil THEN 0 ELSE IF u[x].val = Nil THEN 0 ELSE u[x].val.from],
        uerr <- [x \in UpdSet |-> IF u[x] = Nil THEN FALSE ELSE u[x].err],
        holder <- [x \in UpdSet |-> IF u[x] = Nil THEN "" ELSE IF u[x].holder = Nil THEN "" ELSE u[x].holder],
        gupd <- [t \in GetterSet |-> IF g[t] = Nil THEN "" ELSE g[t].upd],
        gstage <- [t \in GetterSet |-> IF g[t] = Nil THEN "idle" ELSE g[t].stage],
        gread <- [t \in GetterSet |-> IF g[t] = Nil THEN 0 ELSE g[t].read],
        gseen <- [t \in GetterSet |-> IF g[t] = Nil THEN 0 ELSE g[t].seen],
        gretfrom <- [t \in GetterSet |-> IF g[t] = Nil THEN 0 ELSE IF g[t].ret = Nil THEN 0 ELSE g[t].ret.val.from],
        greterr <- [t \in GetterSet |-> IF g[t] = Nil THEN FALSE ELSE IF g[t].ret = Nil THEN FALSE ELSE g[t].ret.err]
IndInvHolds == UI!IndInv
RefinesInd == [][UI!Next \/ UNCHANGED UI!vars]_vars
WakeNotLost == U!WakeNotLost
ReturnFresh == U!ReturnFresh
NoSpuriousBuild == U!NoSpuriousBuild
CloseOnce == U!CloseOnce
AllClosed == U!AllClosed
FailKeeps == U!FailKeeps
TypeOK == U!TypeOK
=============================================================================
