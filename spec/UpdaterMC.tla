----------------------------- MODULE UpdaterMC -----------------------------
(* Bounded instance of Updater for TLC: every interleaving of installs, updater creation split at its *)
(* three steps, concurrent Get callers split at theirs, and builder failures.                         *)
EXTENDS Integers, Sequences, FiniteSets, TLC, Json

CONSTANTS Nil, NameSet, UpdSet, GetterSet, MaxInst, EmitEdges

VARIABLES cur, w, u, failing, g, closed, nextId, out
U == INSTANCE Updater WITH Names <- NameSet, Upds <- UpdSet, Getters <- GetterSet
vars == <<cur, w, u, failing, g, closed, nextId, out>>

Init == U!Init
Next ==
  \/ \E S \in SUBSET NameSet : (\A n \in S : cur[n] < MaxInst) /\ U!Install(S)
  \/ \E x \in UpdSet, n \in NameSet : U!Register(x, n)
  \/ \E x \in UpdSet : U!InitRead(x) \/ U!InitBuild(x)
  \/ \E t \in GetterSet, x \in UpdSet : U!GetBegin(t, x)
  \/ \E t \in GetterSet : U!GetLock(t) \/ U!GetRead(t) \/ U!GetBuild(t) \/ U!CloseOld(t) \/ U!GetEnd(t)
  \/ \E x \in UpdSet, b \in BOOLEAN : U!SetFailing(x, b)
Spec == Init /\ [][Next]_vars

View == <<cur, w, u, failing, g, closed, nextId>>
WakeNotLost == U!WakeNotLost
ReturnFresh == U!ReturnFresh
NoSpuriousBuild == U!NoSpuriousBuild
CloseOnce == U!CloseOnce
AllClosed == U!AllClosed
FailKeeps == U!FailKeeps
TypeOK == U!TypeOK
=============================================================================
