------------------------------- MODULE ACLDefs -------------------------------
(***************************************************************************)
(* Rule evaluation over an arbitrary matcher (C01, C07).  ACL.tla          *)
(* instantiates this module with the glob matcher of Glob.tla; the proofs  *)
(* in ACLProofs.tla are about these very definitions, for rule sets of any *)
(* length and any matcher.                                                 *)
(***************************************************************************)
EXTENDS Naturals, Sequences

CONSTANT Match(_, _)

\* ONE SINGLE rule both lists the action and has a matching pattern
RuleAllows(r, a, n) ==
  /\ \E i \in DOMAIN r.action : r.action[i] = a
  /\ \E j \in DOMAIN r.secret : Match(r.secret[j], n)

Allow(rules, a, n) == \E i \in DOMAIN rules : RuleAllows(rules[i], a, n)
=============================================================================
