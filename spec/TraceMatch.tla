----------------------------- MODULE TraceMatch -----------------------------
(***************************************************************************)
(* How a value of the specification is compared with what the harness      *)
(* recorded from the real code (JSON): reply classes with their stated     *)
(* latitude, payloads, audit records and projected store states.           *)
(***************************************************************************)
EXTENDS Naturals, Sequences, FiniteSets
CONSTANT Nil

ToSet(s) == {s[i] : i \in DOMAIN s}

\* "fail": the property leaves open whether the failure is not-found or another error
ClassOK(model, real) == IF model = "fail" THEN real \in {"notfound", "error"} ELSE model = real

InfoMatches(m, r) ==       \* m: model info record or Nil; r: [some |-> FALSE] or [some |-> TRUE, name, active, versions]
  IF m = Nil THEN ~r.some
  ELSE r.some /\ r.name = m.name /\ r.active = m.active /\ ToSet(r.versions) = m.versions

ReplyMatches(m, r, isPut) ==
  /\ ClassOK(m.class, r.class)
  /\ IF m.val = Nil THEN r.val = "Nil" ELSE r.val = m.val /\ r.ver = m.ver
  /\ (m.class = "ok" /\ isPut) => r.ver = m.ver
  /\ InfoMatches(m.info, r.info)
  /\ IF m.list = Nil THEN ~r.list.some
     ELSE /\ r.list.some
          /\ Len(r.list.items) = Cardinality(m.list)
          /\ \A i \in DOMAIN r.list.items : \E x \in m.list : InfoMatches(x, r.list.items[i])

\* the version in a record is the one the caller gave (C06: "and version where one was given"); where none was given (get,
\* conditional get) the pinned code records 0, recording the version that was disclosed is just as good
EntryMatches(m, r) ==
  /\ m.who = r.who /\ m.action = r.action /\ m.name = r.name /\ m.authorized = r.authorized
  /\ (m.ver = r.ver \/ (m.action = "get" /\ m.ver = 0 /\ m.authorized))

AuditMatches(m, r) ==      \* both sequences of entries
  /\ Len(m) = Len(r)
  /\ \A i \in DOMAIN m : EntryMatches(m[i], r[i])

\* s: model store; obs: sequence of [name, active, latest (0 = not observed), vers: seq of [v, val]]
StateMatches(s, names, obs) ==
  /\ {obs[i].name : i \in DOMAIN obs} = {n \in names : s[n] # Nil}
  /\ \A i \in DOMAIN obs :
       LET r == obs[i] IN
       /\ s[r.name].active = r.active
       /\ (r.latest = 0 \/ s[r.name].latest = r.latest)
       /\ ToSet(r.vers) = {[v |-> v, val |-> s[r.name].vers[v]] : v \in {w \in DOMAIN s[r.name].vers : s[r.name].vers[w] # Nil}}
=============================================================================
