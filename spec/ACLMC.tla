------------------------------- MODULE ACLMC -------------------------------
(***************************************************************************)
(* Bounded check of the rule-set lemmas of C07: the empty set allows       *)
(* nothing, adding a rule never revokes access, and one single rule        *)
(* decides (the action of one rule never combines with the pattern of      *)
(* another).  One TLC state per pair of rules, so workers share the work.  *)
(***************************************************************************)
EXTENDS Naturals, Sequences, FiniteSets, TLC
CONSTANTS Sigma
G == INSTANCE Glob
A == INSTANCE ACL
SeqsUpTo(S, k) == UNION {[1..m -> S] : m \in 0..k}

RulePats == {<<42>>, <<97>>, <<97, 42>>, <<42, 97>>}
Acts == {"get", "put"}
RuleSet == {[action |-> a, secret |-> s] :
              a \in {<<>>, <<"get">>, <<"put">>, <<"get", "put">>},
              s \in {<<>>} \cup {<<p>> : p \in RulePats} \cup {<<p, q>> : p \in RulePats, q \in RulePats}}
NamesSmall == SeqsUpTo(Sigma, 2)

VARIABLES r1, r2
Init == r1 \in RuleSet /\ r2 = <<>>
Next == r2 = <<>> /\ r1' = r1 /\ r2' \in RuleSet

Lemmas ==
  \A n \in NamesSmall : \A a \in Acts :
    /\ ~A!Allow(<<>>, a, n)                                                      \* empty set allows nothing
    /\ r2 # <<>> =>
         /\ A!Allow(<<r1>>, a, n) => A!Allow(<<r1, r2>>, a, n) /\ A!Allow(<<r2, r1>>, a, n)   \* monotone
         /\ A!Allow(<<r1, r2>>, a, n) = (A!RuleAllows(r1, a, n) \/ A!RuleAllows(r2, a, n))    \* a single rule decides
         /\ (A!AllowSplit(<<r1, r2>>, a, n) /\ ~A!RuleAllows(r1, a, n) /\ ~A!RuleAllows(r2, a, n))
               => ~A!Allow(<<r1, r2>>, a, n)                                      \* the split reading is excluded
=============================================================================
