-------------------------------- MODULE Http --------------------------------
(***************************************************************************)
(* The HTTP front door of the setec server (C08), in front of Vault.       *)
(*                                                                         *)
(* A request is a record of CLASSES (the harness sends several concrete    *)
(* representatives of each):                                               *)
(*   method  POST | GET | PUT | DELETE                                     *)
(*   ctype   "json" (exactly application/json) | "jsoncs" (with a charset  *)
(*           parameter) | "text" | "none"                                  *)
(*   hdr     Sec-X-Tailscale-No-Browsers: "setec" | "other" | "none"       *)
(*   path    list get info put activate delete delete-version | dash (/)   *)
(*   whois   [kind: err | anon | tagged | user,                            *)
(*            plain, https: none | empty | good | bad]   (the two grants)   *)
(*   body    [class: valid | extra | null | empty | truncated | wrongtype  *)
(*                   | nonobject, args]                                    *)
(*                                                                         *)
(* API endpoints check, in the code's order: method, content type, browser *)
(* header, identity (WhoIs + grants), body; the first failing check        *)
(* answers with a non-2xx status and NOTHING else happens (no store call,  *)
(* no audit record).  Otherwise the Vault action runs with the rules       *)
(* CallerOf picks and its reply class maps to the status exactly.          *)
(* The dashboard (GET on any other path) is modelled too: it is reachable  *)
(* behaviour and must never show values.                                   *)
(***************************************************************************)
EXTENDS Naturals, Sequences, FiniteSets, TLC

CONSTANTS Names, Vals, MaxVer, Nil, Cp(_), Reserved(_),
          PlainRules, HttpsRules     \* what the tailnet grants under the two capability names

VARIABLES sec, disk, auditOK, last,   \* Vault
          http                        \* output only: [gate, status, body]

V == INSTANCE Vault
vvars == <<sec, disk, auditOK, last>>

ApiPaths == {"list", "get", "info", "put", "activate", "delete", "delete-version"}

(* --- identity ------------------------------------------------------------- *)
\* Outcome of getIdentity: [ok |-> FALSE] or [ok |-> TRUE, who, rules].
\* The plain capability's rules apply unless that grant yields none; only then the
\* legacy https:// one is consulted.  A grant that does not parse fails the request
\* if (and only if) it is consulted.
Identity(w) ==
  LET who == IF w.kind = "tagged" THEN "tag:server" ELSE "user@example.com"
      fail == [ok |-> FALSE, who |-> "", rules |-> <<>>]
  IN  IF w.kind \in {"err", "anon"} THEN fail
      ELSE IF w.plain = "bad" THEN fail
      ELSE IF w.plain = "good" THEN [ok |-> TRUE, who |-> who, rules |-> PlainRules]
      ELSE IF w.https = "bad" THEN fail
      ELSE IF w.https = "good" THEN [ok |-> TRUE, who |-> who, rules |-> HttpsRules]
      ELSE [ok |-> TRUE, who |-> who, rules |-> <<>>]

(* --- the gate -------------------------------------------------------------- *)
BodyOK(b) == b.class \in {"valid", "extra", "null"}

\* lenient: "application/json" with a parameter (a charset) counts as the required content type -- the pinned code compares the
\* header with the bare string; an implementation that parses the media type accepts it; C08 asks for "Content-Type application/json"
Gate(r, lenient) ==
  IF r.method # "POST" THEN "method"
  ELSE IF r.ctype # "json" /\ ~(lenient /\ r.ctype = "jsoncs") THEN "ctype"
  ELSE IF r.hdr # "setec" THEN "browser"
  ELSE IF ~Identity(r.whois).ok THEN "identity"
  ELSE IF ~BodyOK(r.body) THEN "body"
  ELSE "pass"

GateStatus(g) == CASE g = "method" -> 400 [] g = "ctype" -> 400 [] g = "browser" -> 403
                   [] g = "identity" -> 500 [] g = "body" -> 400

\* exact status table of accepted requests; "other" = any 4xx/5xx except 403/404
StatusOf(class) == CASE class = "ok" -> "200" [] class = "notchanged" -> "304" [] class = "denied" -> "403"
                     [] class = "notfound" -> "404" [] OTHER -> "other"

Args(b) == IF b.class = "null" THEN [name |-> "", ver |-> 0, uic |-> FALSE, val |-> "E"] ELSE b.args

\* which Vault action an accepted API request is
Dispatch(path, id, a) ==
  CASE path = "list"     -> V!List(id.who, id.rules, "none")
    [] path = "info"     -> V!Info(id.who, id.rules, a.name, "none")
    [] path = "put"      -> V!Put(id.who, id.rules, a.name, a.val, "none")
    [] path = "activate" -> V!Activate(id.who, id.rules, a.name, a.ver, "none")
    [] path = "delete"   -> V!Delete(id.who, id.rules, a.name, "none")
    [] path = "delete-version" -> V!DeleteVersion(id.who, id.rules, a.name, a.ver, "none")
    [] path = "get" -> IF a.ver # 0 /\ a.uic THEN V!GetCond(id.who, id.rules, a.name, a.ver, "none")
                       ELSE IF a.ver # 0 THEN V!GetVersion(id.who, id.rules, a.name, a.ver, "none")
                       ELSE V!Get(id.who, id.rules, a.name, "none")

Reject(g, status) ==
  /\ UNCHANGED vvars
  /\ http' = [gate |-> g, status |-> status, payload |-> FALSE]

ServeApi(r) ==
  /\ r.path \in ApiPaths
  /\ \E lenient \in (IF r.ctype = "jsoncs" THEN BOOLEAN ELSE {FALSE}) :
     LET g == Gate(r, lenient) IN
     IF g # "pass" THEN Reject(g, "non2xx")
     ELSE /\ Dispatch(r.path, Identity(r.whois), Args(r.body))
          /\ http' = [gate |-> "pass", status |-> StatusOf(last'.reply.class),
                      payload |-> (last'.reply.class = "ok")]

\* the HTML dashboard: GET only, identified caller, List semantics (one audit record), names and versions only
ServeDash(r) ==
  /\ r.path = "dash"
  /\ IF r.method # "GET" THEN Reject("method", "non2xx")
     ELSE IF ~Identity(r.whois).ok THEN Reject("identity", "non2xx")
     ELSE /\ V!List(Identity(r.whois).who, Identity(r.whois).rules, "none")
          /\ http' = [gate |-> "pass", status |-> StatusOf(last'.reply.class), payload |-> FALSE]

Serve(r) == ServeApi(r) \/ ServeDash(r)

Init == V!Init /\ http = [gate |-> "pass", status |-> "200", payload |-> FALSE]

(* --- properties (C08) -------------------------------------------------------- *)
\* an ill-formed or unidentified request is refused without side effects
GateNoEffect ==
  http'.gate # "pass" => /\ http'.status = "non2xx"
                         /\ UNCHANGED vvars
\* accepted requests: exact status table, payload only with 200, secret bytes only from gets
StatusExact ==
  http'.gate = "pass" =>
    /\ http'.status = StatusOf(last'.reply.class)
    /\ (last'.reply.val # Nil) => http'.status = "200"
    /\ (http'.status = "304") => (last'.op = "getcond" /\ last'.reply.val = Nil)
\* the rules applied are the granted ones and the recorded principal is the caller
PrincipalExact(r) ==
  (http'.gate = "pass" /\ Len(last'.audit) = 1) => last'.audit[1].who = Identity(r.whois).who
=============================================================================
