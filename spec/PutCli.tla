------------------------------- MODULE PutCli -------------------------------
(***************************************************************************)
(* `setec put` as a decision table (C18), written from the documented      *)
(* behaviour, not from cmd/setec/setec.go:                                 *)
(*                                                                         *)
(*   the command sends exactly the bytes it read from the file or pipe,    *)
(*   except that valid UTF-8 text with leading or trailing whitespace is   *)
(*   sent trimmed under --trim-space, verbatim under --verbatim, and       *)
(*   refused without contacting the server when neither flag is given;     *)
(*   an empty value is refused unless --empty-ok.                          *)
(*                                                                         *)
(* Input classes: "empty"; "ws" (valid UTF-8, whitespace only); "text"     *)
(* (valid UTF-8, no surrounding whitespace); "textws" (valid UTF-8 with    *)
(* leading and/or trailing whitespace around something); "bin" (not valid  *)
(* UTF-8, no whitespace at the ends); "binws" (not valid UTF-8, ASCII      *)
(* whitespace at an end -- still binary: sent as it is).                   *)
(* Outcomes: "same" (one put carrying exactly the input), "trimmed" (one   *)
(* put carrying the input without its surrounding whitespace), "refused"   *)
(* (non-zero exit, no request).  Where the statement leaves a choice (both *)
(* --verbatim and --trim-space given) the table allows either.             *)
(***************************************************************************)
EXTENDS Integers, Sequences, FiniteSets, TLC

Classes == {"empty", "ws", "text", "textws", "bin", "binws"}
Sources == {"file", "pipe"}

IsText(c) == c \in {"empty", "ws", "text", "textws"}
HasEdgeSpace(c) == c \in {"ws", "textws"}                 \* among text: trimming changes it
TrimsToEmpty(c) == c \in {"empty", "ws"}

\* the value the whitespace policy lets through: a set of candidates "same"/"trimmed", or {} = refused by the policy
Policy(c, verbatim, trim) ==
  IF ~IsText(c) \/ ~HasEdgeSpace(c) THEN {"same"}
  ELSE (IF verbatim THEN {"same"} ELSE {}) \cup (IF trim THEN {"trimmed"} ELSE {})

\* then the empty-value rule applies to what would be sent
IsEmptySent(c, o) == (o = "same" /\ c = "empty") \/ (o = "trimmed" /\ TrimsToEmpty(c))

Allowed(c, verbatim, trim, emptyok) ==
  LET cand == Policy(c, verbatim, trim) IN
  IF cand = {} THEN {"refused"}
  ELSE {IF IsEmptySent(c, o) /\ ~emptyok THEN "refused" ELSE o : o \in cand}

\* a few consequences, checked by TLC over the whole table
BinaryVerbatim == \A c \in {"bin", "binws"}, v, t, e \in BOOLEAN : Allowed(c, v, t, e) = {"same"}
PlainTextVerbatim == \A v, t, e \in BOOLEAN : Allowed("text", v, t, e) = {"same"}
NeitherFlagRefuses == \A c \in {"ws", "textws"}, e \in BOOLEAN : Allowed(c, FALSE, FALSE, e) = {"refused"}
EmptyNeedsOK == \A v, t \in BOOLEAN : Allowed("empty", v, t, FALSE) = {"refused"} /\ Allowed("empty", v, t, TRUE) = {"same"}
NeverEmptyWithoutOK == \A c \in Classes, v, t \in BOOLEAN : \A o \in Allowed(c, v, t, FALSE) : ~IsEmptySent(c, o)
=============================================================================
