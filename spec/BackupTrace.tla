----------------------------- MODULE BackupTrace -----------------------------
(***************************************************************************)
(* Trace validation of the real periodic-backup loop against Backup.       *)
(* The driver runs server.VerifPeriodicBackup (build tag verif) inside a   *)
(* testing/synctest bubble against a real db.DB and an in-memory S3        *)
(* endpoint and logs, with virtual timestamps: every database write (the   *)
(* new generation and the digest of the file), every request the endpoint  *)
(* receives (digest of the body) and its outcome, every change of the      *)
(* endpoint's behaviour, clock steps, cancellation and the return of the   *)
(* task.  Check / Read / WaitOver produce no line: TLC places them, at the *)
(* instant they are due -- the clock of the specification cannot pass a    *)
(* due step, so an upload that comes late, early, twice, or not at all, a  *)
(* task that does not return when cancelled, leaves the trace unexplained. *)
(***************************************************************************)
EXTENDS Integers, Sequences, FiniteSets, TLC, Json
CONSTANT Nil
Trace == ndJsonDeserialize("trace.ndjson")
VARIABLES gen, last, pc, cur, until, s3, cancelled, now, ups, quiet, out,
          l,
          shas      \* digest of every file version so far: sequence indexed by generation
B == INSTANCE Backup WITH MaxWait <- 900000        \* a quarter of an hour: the longest wait the validation accepts
bvars == <<gen, last, pc, cur, until, s3, cancelled, now, ups, quiet, out>>
vars == <<bvars, l, shas>>

Line(ev) == l <= Len(Trace) /\ Trace[l].ev = ev /\ Trace[l].t = now
E == Trace[l]
Adv == l' = l + 1
T(s) == s = "t"

TReset ==
  /\ l <= Len(Trace) /\ Trace[l].ev = "reset"
  /\ gen' = 1 /\ last' = 0 /\ pc' = "check" /\ cur' = B!NoCur /\ until' = 0 /\ s3' = "ok" /\ cancelled' = FALSE
  /\ now' = 0 /\ ups' = <<>> /\ quiet' = 0 /\ out' = [ev |-> "init"]
  /\ shas' = <<Trace[l].sha>> /\ Adv
TWrite  == Line("write") /\ B!DbWrite /\ gen' = E.gen /\ shas' = Append(shas, E.sha) /\ Adv
\* a write that reported failure saved nothing: neither the file nor the generation moved
TWriteFail == Line("writefail") /\ E.moved = "f" /\ Adv /\ UNCHANGED <<bvars, shas>>
TUBegin == Line("ubegin") /\ B!UBegin /\ out'.ev = "ubegin" /\ shas[out'.body] = E.sha /\ Adv /\ UNCHANGED shas
TUEnd   == Line("uend") /\ B!UEnd(T(E.ok)) /\ Adv /\ UNCHANGED shas
TS3     == Line("s3") /\ B!S3Mode(E.mode) /\ Adv /\ UNCHANGED shas
TCancel == Line("cancel") /\ B!Cancel /\ Adv /\ UNCHANGED shas
TExit   == Line("exit") /\ B!Exit /\ Adv /\ UNCHANGED shas
TAdv    == Line("adv") /\ Adv /\ UNCHANGED <<bvars, shas>>
\* the clock moves to the next line's time, stopping at every timer of the task on the way (a wait that ends
\* with nothing to do produces no line)
TTime   == /\ l <= Len(Trace) /\ Trace[l].ev # "reset" /\ Trace[l].t > now
           /\ \E t \in ({Trace[l].t} \cup B!Timers) : t > now /\ t <= Trace[l].t /\ B!Advance(t)
           /\ UNCHANGED <<l, shas>>
\* at the end nothing is due: the task waits, is held by the bucket, or is gone
TEnd    == Line("end") /\ ~B!Urgent /\ Adv /\ UNCHANGED <<bvars, shas>>
Silent  == (B!Check \/ B!Read \/ B!WaitOver \/ (B!UBegin /\ out'.ev = "uskip")) /\ UNCHANGED <<l, shas>>

Init == B!Init /\ l = 1 /\ shas = <<"">>
Next == TReset \/ TWrite \/ TWriteFail \/ TUBegin \/ TUEnd \/ TS3 \/ TCancel \/ TExit \/ TAdv \/ TTime \/ TEnd \/ Silent

Consistent == B!Consistent
RateLimit == B!RateLimit
Settled == B!Settled
StepProps == [][out'.ev = "init" \/ ((out'.ev = "ubegin" => cur.g # last)
                                    /\ ((now' > now) => (pc \in {"wait", "upload", "exited"} /\ (cancelled => pc = "exited")))
                                    /\ ((out'.ev = "uend" /\ out'.ok) => (last' >= cur.g /\ last' <= cur.body)))]_bvars

ASSUME TLCSet(1, 0)
HW == TLCGet(1) >= l \/ TLCSet(1, l)
NotDone == l <= Len(Trace)
Report == PrintT(<<"HW", TLCGet(1)>>)
=============================================================================
