------------------------------- MODULE Backup -------------------------------
(***************************************************************************)
(* The server's periodic backup task (server/backup.go) together with the  *)
(* database it reads, the bucket it uploads to, a clock and cancellation.  *)
(*                                                                         *)
(* The database: gen is the write generation (bumped by every successful   *)
(* save), and because the live file is only ever replaced by rename, the   *)
(* file is at every instant the complete image written by save number gen: *)
(* file versions are identified with generations.                          *)
(*                                                                         *)
(* The task, one action per step of the loop:                              *)
(*   Check      read the generation; changed since the last successful     *)
(*              upload (or nothing uploaded yet) -> Read, else -> wait     *)
(*   Read       read the live file whole                                   *)
(*   UBegin     the upload request reaches the bucket (body = what was     *)
(*              read)                                                      *)
(*   UEnd(ok)   the bucket answers, or the request fails / the client gives *)
(*              up on a stalled one / it is cancelled; success records as  *)
(*              covered the generation read by Check (the pinned code) or  *)
(*              any later one up to the generation of the file it read     *)
(*   WaitOver   at least a minute has passed since the wait began (the     *)
(*              pinned code wakes after exactly one; an implementation may *)
(*              wait longer, e.g. back off after failures -- C17 says "at  *)
(*              most once a minute" -- but not longer than MaxWait)        *)
(*   Exit       the server's context is cancelled: the task ends -- from   *)
(*              the wait at once, from an upload as soon as it fails       *)
(* Environment: DbWrite, S3Mode, Cancel, Advance.                          *)
(*                                                                         *)
(* Time is in milliseconds.  Code steps take no time: the clock does not   *)
(* move while the task is at Check/Read/UBegin, so "spinning" is not a     *)
(* behaviour of this specification -- whenever time passes the task is     *)
(* waiting, uploading or gone.                                             *)
(***************************************************************************)
EXTENDS Integers, Sequences, FiniteSets, TLC

CONSTANTS Nil,
          MaxWait    \* the longest the task may stay in one wait (>= Minute): "retried" and "once writes stop the newest backup
                     \* equals the current file" need some bound; the pinned code waits exactly one minute

VARIABLES gen,        \* write generation of the database = version of the live file
          last,       \* generation covered by the last successful upload (0: none yet)
          pc,         \* "check" | "read" | "ubegin" | "upload" | "wait" | "exited"
          cur,        \* the iteration in progress: [g: generation read by Check, body: file version read, since: upload start]
          until,      \* earliest end of the current wait (its start + Minute); Latest is its latest end
          s3,         \* "ok" | "fail" | "hold"      how the bucket treats requests
          cancelled,
          now,
          ups,        \* history: sequence of [body, at, ok]  (ok \in {"ok","fail","pending"})
          quiet,      \* time of the last disturbance (database write or change of the bucket's behaviour)
          out

vars == <<gen, last, pc, cur, until, s3, cancelled, now, ups, quiet, out>>

Minute == 60000
UploadTimeout == 300000
Event(k, r) == [ev |-> k] @@ r
NoCur == [g |-> 0, body |-> 0, since |-> 0]

Init ==
  /\ gen = 1 /\ last = 0 /\ pc = "check" /\ cur = NoCur /\ until = 0 /\ s3 = "ok" /\ cancelled = FALSE
  /\ now = 0 /\ ups = <<>> /\ quiet = 0 /\ out = [ev |-> "init"]

(* --- the task ------------------------------------------------------------------------------ *)
Check ==
  /\ pc = "check"
  /\ IF gen # last
     THEN pc' = "read" /\ cur' = [NoCur EXCEPT !.g = gen] /\ UNCHANGED until
     ELSE pc' = "wait" /\ until' = now + Minute /\ UNCHANGED cur
  /\ out' = Event("check", [due |-> (gen # last)])
  /\ UNCHANGED <<gen, last, s3, cancelled, now, ups, quiet>>

Read ==
  /\ pc = "read"
  /\ cur' = [cur EXCEPT !.body = gen] /\ pc' = "ubegin"
  /\ out' = Event("read", [body |-> gen])
  /\ UNCHANGED <<gen, last, until, s3, cancelled, now, ups, quiet>>

\* the request reaches the bucket (a cancelled task's request never leaves)
UBegin ==
  /\ pc = "ubegin"
  /\ IF cancelled
     THEN /\ pc' = "wait" /\ until' = now + Minute /\ UNCHANGED <<cur, ups>>
          /\ out' = Event("uskip", [body |-> cur.body])
     ELSE /\ pc' = "upload" /\ cur' = [cur EXCEPT !.since = now]
          /\ ups' = Append(ups, [body |-> cur.body, at |-> now, ok |-> "pending"])
          /\ out' = Event("ubegin", [body |-> cur.body])
          /\ UNCHANGED until
  /\ UNCHANGED <<gen, last, s3, cancelled, now, quiet>>

\* the outcome: the bucket's answer, or the client's own time limit / cancellation ending a request still in flight
MustFail == cancelled
UEnd(ok) ==
  /\ pc = "upload"
  /\ (ok => (s3 = "ok" /\ ~MustFail))
  /\ (~ok => (s3 = "fail" \/ s3 = "hold" \/ MustFail))     \* a stalled request fails whenever the client gives up on it
  /\ ups' = [ups EXCEPT ![Len(ups)].ok = IF ok THEN "ok" ELSE "fail"]
  /\ IF ok THEN last' \in {g \in cur.g..cur.body : TRUE} ELSE last' = last        \* at least what Check saw, at most what was read
  /\ pc' = "wait" /\ until' = now + Minute
  /\ out' = Event("uend", [ok |-> ok])
  /\ UNCHANGED <<gen, cur, s3, cancelled, now, quiet>>

\* A wake that finds nothing to do is invisible and only pushes the next wake further away, so it is modelled at the two ends
\* of the window only; a wake that finds the database changed (and therefore uploads) may come at any moment of the window.
Latest == until + (MaxWait - Minute)
WaitOver ==
  /\ pc = "wait" /\ ~cancelled /\ now >= until
  /\ (gen # last \/ now = until \/ now >= Latest)
  /\ pc' = "check"
  /\ out' = Event("wake", [t |-> now])
  /\ UNCHANGED <<gen, last, cur, until, s3, cancelled, now, ups, quiet>>

Exit ==
  /\ pc = "wait" /\ cancelled
  /\ pc' = "exited"
  /\ out' = Event("exit", [t |-> now])
  /\ UNCHANGED <<gen, last, cur, until, s3, cancelled, now, ups, quiet>>

(* --- the environment -------------------------------------------------------------------------- *)
DbWrite ==
  /\ gen' = gen + 1 /\ quiet' = now
  /\ out' = Event("write", [gen |-> gen + 1])
  /\ UNCHANGED <<last, pc, cur, until, s3, cancelled, now, ups>>

S3Mode(m) ==
  /\ s3 # m /\ s3' = m /\ quiet' = now
  /\ out' = Event("s3", [mode |-> m])
  /\ UNCHANGED <<gen, last, pc, cur, until, cancelled, now, ups>>

Cancel ==
  /\ ~cancelled /\ cancelled' = TRUE
  /\ out' = Event("cancel", [t |-> now])
  /\ UNCHANGED <<gen, last, pc, cur, until, s3, now, ups, quiet>>

\* a step of the task is due now: the clock waits for it
Urgent ==
  \/ pc \in {"check", "read", "ubegin"}
  \/ (pc = "wait" /\ (cancelled \/ now >= Latest))
  \/ (pc = "upload" /\ (s3 # "hold" \/ MustFail))
Timers == IF pc = "wait" THEN {until, Latest} ELSE {}
Advance(t) ==
  /\ t > now /\ ~Urgent /\ \A d \in Timers : (d > now => t <= d)
  /\ now' = t
  /\ out' = Event("adv", [t |-> t])
  /\ UNCHANGED <<gen, last, pc, cur, until, s3, cancelled, ups, quiet>>

(* --- properties (C17) -------------------------------------------------------------------------- *)
\* every uploaded object is a complete file that existed at some moment
Consistent == \A i \in DOMAIN ups : ups[i].body \in 1..gen
\* after the first upload, an upload happens only if the database was written since the last successful one
ChangeDriven == [][(out'.ev = "ubegin") => (cur.g # last)]_vars
\* at most one upload a minute
RateLimit == \A i \in DOMAIN ups : i > 1 => ups[i].at - ups[i - 1].at >= Minute
\* whenever time passes, the task is waiting, uploading or gone (it does not spin); and a cancelled task is gone
\* before any time passes
Quiescent == [][(now' > now) => (pc \in {"wait", "upload", "exited"} /\ (cancelled => pc = "exited"))]_vars
\* success covers exactly what Check saw: a write racing the upload is not marked as backed up
CoverExact == [][(out'.ev = "uend" /\ out'.ok) => (last' >= cur.g /\ last' <= cur.body)]_vars
\* a failed upload is retried and, once writes stop, the newest backup equals the current file: as a state
\* predicate -- when the database and a healthy bucket have been left alone for more than two minutes, the
\* last successful upload covers the current file
Settled == (~cancelled /\ s3 = "ok" /\ pc = "wait" /\ now - quiet > MaxWait + Minute) => last = gen
=============================================================================
