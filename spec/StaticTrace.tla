----------------------------- MODULE StaticTrace -----------------------------
(* Recorded runs of the real StaticSecret / StaticFile / StaticTextFile / StaticUpdater (one line per call: file written or *)
(* removed, placeholder made, placeholder asked) validated against Static.  Contents are identified by digest; the driver    *)
(* records for every content token the digest of its whitespace-trimmed form (dict.ndjson).                                   *)
EXTENDS Naturals, Sequences, TLC, Json
CONSTANT Nil
Trace == ndJsonDeserialize("trace.ndjson")
Dict == ndJsonDeserialize("dict.ndjson")[1]      \* [trim: sequence of [of, is]]
TrimImpl(c) == LET S == {i \in DOMAIN Dict.trim : Dict.trim[i].of = c} IN IF S = {} THEN c ELSE Dict.trim[CHOOSE i \in S : TRUE].is
VARIABLES file, made, out, l
S == INSTANCE Static WITH Contents <- {}, Trim <- TrimImpl
E == Trace[l]
Step ==
  /\ l <= Len(Trace)
  /\ CASE E.ev = "reset"  -> file' = Nil /\ made' = <<>> /\ out' = [ev |-> "init"]
       [] E.ev = "write"  -> S!WriteFile(E.val)
       [] E.ev = "remove" -> S!RemoveFile
       [] E.ev = "make"   -> S!Make(E.kind, E.val) /\ out'.ok = (E.ok = "t")
       [] E.ev = "get"    -> S!Get(E.idx) /\ out'.val = E.val
       [] OTHER -> FALSE
  /\ l' = l + 1
Init == S!Init /\ l = 1
Next == Step
Accepted == LET d == TLCGet("stats").diameter IN PrintT(<<"HW", d>>) /\ d = Len(Trace) + 1
=============================================================================
