------------------------------ MODULE ACLProofs ------------------------------
(***************************************************************************)
(* Machine-checked (TLAPS) proofs of the rule-evaluation lemmas of C01/C07 *)
(* for rule sets of ANY length over ANY matcher -- the bounded TLC check in *)
(* ACLMC covers concrete patterns; these proofs remove the bound on the    *)
(* rule structure.  Match is left uninterpreted (ACLDefs): the lemmas hold *)
(* whatever "pattern matches name" means; ACL.tla instantiates the same    *)
(* definitions with the glob matcher.                                      *)
(***************************************************************************)
EXTENDS ACLDefs, TLAPS

\* no rules, no access
THEOREM EmptyDenies == \A a, n : ~Allow(<<>>, a, n)
  BY DEF Allow

\* a rule without actions, or without patterns, grants nothing
THEOREM NoActionNoGrant == \A r, a, n : r.action = <<>> => ~RuleAllows(r, a, n)
  BY DEF RuleAllows
THEOREM NoPatternNoGrant == \A r, a, n : r.secret = <<>> => ~RuleAllows(r, a, n)
  BY DEF RuleAllows

\* adding rules never revokes access (in either position)
THEOREM MonotoneRight ==
  ASSUME NEW S, NEW r1 \in Seq(S), NEW r2 \in Seq(S), NEW a, NEW n, Allow(r1, a, n)
  PROVE  Allow(r1 \o r2, a, n)
<1>1. PICK i \in DOMAIN r1 : RuleAllows(r1[i], a, n)
  BY DEF Allow
<1>2. i \in 1..Len(r1)
  BY <1>1
<1>3. i \in DOMAIN (r1 \o r2) /\ (r1 \o r2)[i] = r1[i]
  BY <1>2
<1>4. QED
  BY <1>1, <1>3 DEF Allow

THEOREM MonotoneLeft ==
  ASSUME NEW S, NEW r1 \in Seq(S), NEW r2 \in Seq(S), NEW a, NEW n, Allow(r2, a, n)
  PROVE  Allow(r1 \o r2, a, n)
<1>1. PICK i \in DOMAIN r2 : RuleAllows(r2[i], a, n)
  BY DEF Allow
<1>2. i \in 1..Len(r2)
  BY <1>1
<1>3. (Len(r1) + i) \in DOMAIN (r1 \o r2) /\ (r1 \o r2)[Len(r1) + i] = r2[i]
  BY <1>2
<1>4. QED
  BY <1>1, <1>3 DEF Allow

\* and nothing else is granted: access under a concatenation comes from one of the parts
THEOREM OnlyFromParts ==
  ASSUME NEW S, NEW r1 \in Seq(S), NEW r2 \in Seq(S), NEW a, NEW n, Allow(r1 \o r2, a, n)
  PROVE  Allow(r1, a, n) \/ Allow(r2, a, n)
<1>1. PICK i \in DOMAIN (r1 \o r2) : RuleAllows((r1 \o r2)[i], a, n)
  BY DEF Allow
<1>2. i \in 1..(Len(r1) + Len(r2))
  BY <1>1
<1>3. CASE i <= Len(r1)
  <2>1. i \in DOMAIN r1 /\ (r1 \o r2)[i] = r1[i]
    BY <1>2, <1>3
  <2>2. QED
    BY <1>1, <2>1 DEF Allow
<1>4. CASE i > Len(r1)
  <2>1. (i - Len(r1)) \in DOMAIN r2 /\ (r1 \o r2)[i] = r2[i - Len(r1)]
    BY <1>2, <1>4
  <2>2. QED
    BY <1>1, <2>1 DEF Allow
<1>5. QED
  BY <1>2, <1>3, <1>4
=============================================================================
