----------------------------- MODULE StoreTrace -----------------------------
(***************************************************************************)
(* Trace validation of the real setec.Store against Store (direction B).   *)
(*                                                                         *)
(* The driver runs the real store inside a testing/synctest bubble with a  *)
(* scripted StoreClient, a recording Cache and a virtual clock, performs   *)
(* one environment step at a time and waits for quiescence.  Every line of *)
(* trace.ndjson is something observable: an environment step (newstore,    *)
(* svc, adv, refresh, tick, lookup, cancel, handle, read, close,           *)
(* cachefault), a request arriving at the client (req), its completion     *)
(* (resp), a cache write (cachew) or a call returning (ret).               *)
(*                                                                         *)
(* A line is consumed by the Store action it witnesses and must agree with *)
(* what that action makes observable (`out`); steps of the store that      *)
(* produce no line (end of an init round, waking from the back-off sleep,  *)
(* marking an expired secret, the end of a poll, joining a flight) are     *)
(* left to TLC.  Outputs the specification prescribes (returns, cache      *)
(* writes) are owed until the matching line consumes them, and neither the *)
(* clock nor the environment moves while something is owed -- so a missing *)
(* return, a missing or spurious cache write, a request that should not    *)
(* have been sent, a wrong version in a read or a wrong back-off delay     *)
(* leave the trace unexplained.                                            *)
(***************************************************************************)
EXTENDS Integers, Sequences, FiniteSets, TLC, Json

CONSTANT Nil

Trace == ndJsonDeserialize("trace.ndjson")
Dict  == ndJsonDeserialize("dict.ndjson")[1]      \* [names: seq of strings, callers: seq, maxver]

ToSet(s) == {s[i] : i \in DOMAIN s}
NameSet == ToSet(Dict.names)
CallerSet == ToSet(Dict.callers)
ReaderSet == ToSet(Dict.readers)        \* goroutines that call handles concurrently with everything else
MaxVer == Dict.maxver

VARIABLES cfg, svc, m, handles, cache, phase, closed, ini, poll, lk, rq, call, now, hist, out,
          l,      \* next line
          rets,   \* returns the specification has produced and the trace has not shown yet: set of <<call, caller, res>>
          owed,   \* a cache write the specification has produced and the trace has not shown yet: Nil | [doc, ok]
          rd      \* [ReaderSet -> Nil | [name, got]]  a concurrent handle call between its begin and end lines
S == INSTANCE Store WITH Names <- NameSet, Callers <- CallerSet, ZeroStamp <- -1000000

svars == <<cfg, svc, m, handles, cache, phase, closed, ini, poll, lk, rq, call, now, hist, out>>
vars == <<svars, l, rets, owed, rd>>

\* every line carries the virtual time at which it was logged; a line is consumed at that time exactly
Line(ev) == l <= Len(Trace) /\ Trace[l].ev = ev /\ Trace[l].t = now
E == Trace[l]
Quiet == rets = {} /\ owed = Nil                    \* every prescribed output has been observed
Adv == l' = l + 1

\* a document as the harness records it: sequence of [name, ver, la]
DocOf(seq) == [n \in NameSet |-> IF \E i \in DOMAIN seq : seq[i].name = n
                                 THEN LET i == CHOOSE j \in DOMAIN seq : seq[j].name = n IN [ver |-> seq[i].ver, la |-> seq[i].la]
                                 ELSE Nil]
CacheOf(c) == [kind |-> c.kind, doc |-> DocOf(c.doc), wfail |-> c.wfail]
Dl(x) == IF x = 0 THEN Nil ELSE now + x

\* bookkeeping of outputs after a Store step, derived from `out'`
Owes ==
  CASE out'.ev = "ret" /\ out'.call = "newstore" ->
         /\ rets' = rets \cup {<<"newstore", "", out'.res>>}
         /\ owed' = IF "flushed" \in DOMAIN out' /\ out'.flushed THEN [doc |-> cache'.doc, ok |-> ~cache.wfail] ELSE owed
    [] out'.ev = "resp" /\ out'.ret = "err" ->            \* construction gave up: the caller's context ended
         /\ rets' = rets \cup {<<"newstore", "", "err">>} /\ UNCHANGED owed
    [] out'.ev = "pollend" ->
         /\ rets' = rets \cup {<<"refresh", c, out'.res>> : c \in out'.waiters}
         /\ owed' = IF out'.flushed THEN [doc |-> (IF cache.wfail THEN Nil ELSE cache'.doc), ok |-> ~cache.wfail] ELSE owed
    [] out'.ev = "lookupend" ->
         /\ rets' = rets \cup {<<"lookup", k, (IF out'.res = "val" THEN "ok" ELSE "err")>> : k \in out'.returned}
         /\ owed' = IF out'.res = "val" /\ out'.installed /\ cache.kind # "none" THEN [doc |-> (IF cache.wfail THEN Nil ELSE cache'.doc), ok |-> ~cache.wfail] ELSE owed
    [] out'.ev = "ret" /\ out'.call = "refresh" ->
         /\ rets' = rets \cup {<<"refresh", out'.caller, out'.res>>} /\ UNCHANGED owed
    [] out'.ev = "ret" /\ out'.call = "lookup" ->
         /\ rets' = rets \cup {<<"lookup", out'.caller, out'.res>>} /\ UNCHANGED owed
    [] out'.ev = "close" ->
         /\ rets' = rets \cup {<<"close", "", "ok">>}
         /\ owed' = IF out'.flushed THEN [doc |-> (IF cache.wfail THEN Nil ELSE cache'.doc), ok |-> ~cache.wfail] ELSE owed
    [] OTHER -> UNCHANGED <<rets, owed>>

(* --- environment lines (only when nothing is owed) --------------------------------------------------- *)
TNewStore ==
  /\ Line("newstore") /\ Quiet
  /\ S!NewStore([declared |-> ToSet(E.declared), allowLookup |-> E.allowlookup, expiry |-> E.expiry,
                 hasCache |-> E.cache.kind # "none", fileClient |-> E.fileclient, auto |-> E.auto, structs |-> E.structs],
                E.bad, Dl(E.deadline), CacheOf(E.cache))
  /\ Owes /\ Adv

TSvc     == Line("svc") /\ Quiet /\ S!SvcActivate(E.name, E.ver) /\ Adv /\ UNCHANGED <<rets, owed>>
TSvcMode == Line("svcmode") /\ Quiet /\ S!SvcMode(E.name, E.mode) /\ Adv /\ UNCHANGED <<rets, owed>>
\* the clock moves to the time of the next line -- if the specification lets it: nothing owed, no code
\* step due, no timer slept through (so back-off delays and prompt returns are checked exactly)
TTime    == l <= Len(Trace) /\ Trace[l].t > now /\ Trace[l].ev # "reset" /\ Quiet /\ S!Advance(Trace[l].t) /\ UNCHANGED <<l, rets, owed>>
TAdv     == Line("adv") /\ Quiet /\ Adv /\ UNCHANGED <<svars, rets, owed>>
TRefresh == Line("refresh") /\ Quiet /\ S!Refresh(E.caller, Dl(E.deadline)) /\ Adv /\ UNCHANGED <<rets, owed>>
TTick    == Line("tick") /\ Quiet /\ S!Refresh("poller", Nil) /\ Adv /\ UNCHANGED <<rets, owed>>
THandle  == Line("handle") /\ Quiet /\ S!Handle(E.name) /\ out'.res = E.res /\ Adv /\ UNCHANGED <<rets, owed>>
\* a read is legal at any moment, also while outputs are owed or requests are in flight: it never waits
TRead    == Line("read") /\ S!Read(E.name) /\ out'.ver = E.ver /\ Adv /\ UNCHANGED <<rets, owed>>
TLookup  == Line("lookup") /\ Quiet /\ S!Lookup(E.caller, E.name, Dl(E.deadline)) /\ Owes /\ Adv
TCancel  == Line("cancel") /\ Quiet /\ S!Cancel(E.caller) /\ Adv /\ UNCHANGED <<rets, owed>>
TClose   == Line("close") /\ Quiet /\ S!Close /\ Owes /\ Adv
TCacheFault == Line("cachefault") /\ Quiet /\ S!CacheFault(E.wfail) /\ Adv /\ UNCHANGED <<rets, owed>>

(* --- lines produced by the store ------------------------------------------------------------------------ *)
TReq ==
  /\ Line("req") /\ owed = Nil
  /\ \/ S!InitReq(E.name)
     \/ S!PollStep(E.name)
     \/ S!FlightSend(E.name)
  /\ out'.ev = "req" /\ out'.name = E.name /\ out'.kind = E.kind /\ out'.old = E.old
  /\ Adv /\ UNCHANGED <<rets, owed>>

TResp ==
  /\ Line("resp") /\ owed = Nil
  /\ \E f \in BOOLEAN : \/ (E.kind = "gic" /\ S!PollResp(E.name, f))
                         \/ (E.kind = "get" /\ (S!InitResp(E.name, f) \/ S!LookupResp(E.name, f) \/ (~f /\ S!InitStray(E.name))))
  /\ (IF out'.ev = "lookupend" THEN out'.res = E.res ELSE out'.ev = "resp" /\ (out'.res = E.res \/ out'.res = "stray")) /\ (out'.ver = E.ver \/ out'.res = "stray")
  /\ Owes /\ Adv

\* The document is the store's state at the moment the store takes it, which lies between the step that owes the write
\* and the write itself; only handle calls happen in between (nothing else moves while a write is owed), and they move
\* access stamps forward: names and versions are those of the owing step, every stamp lies between the one the owing
\* step saw and the present one.  What was written is what the cache holds from now on.
TCacheW ==
  /\ Line("cachew") /\ owed # Nil
  /\ E.ok = owed.ok
  /\ IF owed.ok
     THEN LET d == DocOf(E.doc)
              hi == S!Proj(m)
          IN  /\ \A n \in NameSet :
                   /\ (d[n] = Nil) = (owed.doc[n] = Nil)
                   /\ d[n] # Nil => /\ d[n].ver = owed.doc[n].ver
                                    /\ d[n].la >= owed.doc[n].la
                                    /\ d[n].la <= (IF hi[n] # Nil /\ hi[n].la > owed.doc[n].la THEN hi[n].la ELSE owed.doc[n].la)
              /\ cache' = [cache EXCEPT !.doc = d]
     ELSE UNCHANGED cache
  /\ owed' = Nil /\ Adv
  /\ UNCHANGED <<cfg, svc, m, handles, phase, closed, ini, poll, lk, rq, call, now, hist, out, rets>>

\* a cache write nobody owes: allowed at any moment, as one complete document of the store's state at that moment
TCacheWExtra ==
  /\ Line("cachew") /\ owed = Nil
  /\ S!ExtraFlush
  /\ E.ok = ~cache.wfail
  /\ (E.ok => DocOf(E.doc) = cache'.doc)
  /\ Adv /\ UNCHANGED <<rets, owed>>

\* (the poller's own Refresh result is only logged by the store, so its line carries res "any")
TRet ==
  /\ Line("ret") /\ owed = Nil
  /\ \E r \in (IF E.res = "any" THEN {"ok", "err", "ctx"} ELSE {E.res}) :
       /\ <<E.call, E.caller, r>> \in rets
       /\ rets' = rets \ {<<E.call, E.caller, r>>}
  /\ Adv /\ UNCHANGED <<svars, owed>>

(* --- concurrent readers: the call happens somewhere between its begin line and its end line ------------------- *)
TRBegin == Line("rbegin") /\ rd[E.reader] = Nil /\ rd' = [rd EXCEPT ![E.reader] = [name |-> E.name, got |-> Nil]]
           /\ Adv /\ UNCHANGED <<svars, rets, owed>>
SRead   == \E r \in ReaderSet : /\ rd[r] # Nil /\ rd[r].got = Nil
                                /\ S!Read(rd[r].name) /\ rd' = [rd EXCEPT ![r].got = out'.ver]
                                /\ UNCHANGED <<l, rets, owed>>
TREnd   == Line("rend") /\ rd[E.reader] # Nil /\ rd[E.reader].got = E.ver /\ rd' = [rd EXCEPT ![E.reader] = Nil]
           /\ Adv /\ UNCHANGED <<svars, rets, owed>>

(* --- steps without a line ----------------------------------------------------------------------------------- *)
Silent ==
  /\ owed = Nil
  /\ \/ S!InitRoundEnd \/ S!InitWake \/ S!InitGiveUp \/ S!PollFinish \/ S!PollerGiveUp \/ S!PollerExit
     \/ \E n \in NameSet : S!FlightSkip(n)
     \/ \E n \in NameSet : (S!PollStep(n) /\ out'.ev = "expire")
     \/ \E k \in CallerSet : (S!LookupEnter(k) \/ S!LookupGiveUp(k) \/ S!CtxExpire(k) \/ S!RefreshGiveUp(k))
     \/ (cfg.fileClient /\ \E n \in NameSet : (S!InitReq(n) \/ S!InitResp(n, FALSE)))    \* a file-backed client is not scripted
  /\ Owes /\ UNCHANGED l

\* a new history: everything starts over (a fresh process)
TReset ==
  /\ l <= Len(Trace) /\ Trace[l].ev = "reset" /\ Quiet
  /\ cfg' = S!NoCfg /\ m' = [n \in NameSet |-> Nil] /\ handles' = {} /\ phase' = "config" /\ closed' = "open"
  /\ ini' = S!NoIni /\ poll' = Nil /\ lk' = [n \in NameSet |-> Nil] /\ rq' = S!NoReqs
  /\ call' = [k \in CallerSet |-> Nil] /\ now' = 0
  /\ hist' = [served |-> [n \in NameSet |-> {}], inst |-> [n \in NameSet |-> <<>>], supplied |-> {}, polls |-> 0, pollErrs |-> 0, fetches |-> 0]
  /\ svc' = [n \in NameSet |-> [ver |-> 1, mode |-> "ok"]]
  /\ cache' = [kind |-> "none", doc |-> S!NoDoc, wfail |-> FALSE]
  /\ out' = [ev |-> "init"] /\ rets' = {} /\ owed' = Nil /\ rd' = [r \in ReaderSet |-> Nil] /\ Adv

\* end of a history: nothing may be left owed or in flight that the specification says must have happened
\* (the line carries the metrics the running store exports, when there is one: they are functions of the history)
MetricsOK == (E.metrics.known = "t" /\ phase = "running") =>
               /\ E.metrics.polls = hist.polls /\ E.metrics.pollerrs = hist.pollErrs /\ E.metrics.fetches = hist.fetches
\* (no listed property speaks about the metrics: a difference is reported as a note in the evidence, it never rejects a history)
TEnd == Line("end") /\ Quiet /\ ~S!Urgent /\ (\A r \in ReaderSet : rd[r] = Nil) /\ (MetricsOK \/ PrintT(<<"METRICS-DIFF", l>>))
        /\ Adv /\ UNCHANGED <<svars, rets, owed>>

Init ==
  /\ S!Init /\ svc = [n \in NameSet |-> [ver |-> 1, mode |-> "ok"]]
  /\ cache = [kind |-> "none", doc |-> S!NoDoc, wfail |-> FALSE]
  /\ l = 1 /\ rets = {} /\ owed = Nil /\ rd = [r \in ReaderSet |-> Nil]

Main == TNewStore \/ TSvc \/ TSvcMode \/ TTime \/ TAdv \/ TRefresh \/ TTick \/ THandle \/ TRead \/ TLookup \/ TCancel \/ TClose
        \/ TCacheFault \/ TReq \/ TResp \/ TCacheW \/ TCacheWExtra \/ TRet \/ Silent \/ TEnd
Next == (Main /\ UNCHANGED rd) \/ TRBegin \/ SRead \/ TREnd \/ TReset

(* --- the specification's properties, evaluated on every state of every accepted history ------------------------ *)
InitOK == S!InitOK
HandleNeverDangles == S!HandleNeverDangles
InstalledServed == S!InstalledServed
InstLast == S!InstLast
PollConverges == S!PollConverges
Coalesce == S!Coalesce
LookupGate == S!LookupGate
Bounded == S!Bounded
NeverDropDeclared == S!NeverDropDeclared
StepProps == [][out'.ev = "init" \/ (S!DropRule /\ S!ReadServed' /\ S!NotCollateral' /\ S!CacheVersions')]_svars

ASSUME TLCSet(1, 0)
HW == TLCGet(1) >= l \/ TLCSet(1, l)
NotDone == l <= Len(Trace)
Report == PrintT(<<"HW", TLCGet(1)>>)
=============================================================================
