------------------------------- MODULE GlobMC -------------------------------
(***************************************************************************)
(* Bounded self-check of the Glob / ACL definitions, and generator of the  *)
(* complete expected match table that the harness replays against          *)
(* acl.Secret.Match (C07, direction A).                                    *)
(*                                                                         *)
(* One TLC state per pattern of the domain; the "invariant" checks the two *)
(* definitions agree on every name of the domain, checks the no-star and   *)
(* anchoring lemmas, and prints the row of matching names as JSON.         *)
(***************************************************************************)
EXTENDS Naturals, Sequences, FiniteSets, TLC, Json
CONSTANTS Sigma,      \* alphabet: set of code points, contains 42
          MaxP, MaxN, \* length bounds for patterns / names
          Shard, NShards, \* this process handles patterns with hash = Shard (mod NShards)
          Emit        \* TRUE: print ROW lines

G == INSTANCE Glob

SeqsUpTo(S, k) == UNION {[1..m -> S] : m \in 0..k}
Pats  == SeqsUpTo(Sigma, MaxP)
Names == SeqsUpTo(Sigma, MaxN)

RECURSIVE SumSeq(_, _)
SumSeq(s, i) == IF i > Len(s) THEN 0 ELSE s[i] * i + SumSeq(s, i + 1)
Mine(p) == (SumSeq(p, 1) + Len(p)) % NShards = Shard

VARIABLE pat
\* Patterns are built symbol by symbol so that TLC's workers share the domain.
Init == pat = <<>>
Next == Len(pat) < MaxP /\ \E c \in Sigma : pat' = Append(pat, c)

Row(p) == {n \in Names : G!Match(p, n)}

RowOK ==
  ~Mine(pat) \/
  LET row == Row(pat) IN
  /\ \A n \in Names : (n \in row) = G!MatchP(pat, n)                   \* the two definitions agree
  /\ ~G!HasStar(pat) => row = (IF Len(pat) <= MaxN THEN {pat} ELSE {})  \* no star: identity only
  /\ (Emit => PrintT(<<"ROW", ToJson([p |-> pat, m |-> row])>>))

=============================================================================
