----------------------------- MODULE VaultTrace -----------------------------
(***************************************************************************)
(* Trace validation of the real db.DB / HTTP handlers against Vault        *)
(* (direction B).  trace.ndjson holds many recorded histories separated by *)
(* "reset" events; every "op" event carries the call, the caller's rule    *)
(* set (patterns as code points), everything the real code answered, the   *)
(* audit records it wrote, whether it saved, how often it used the KEK and *)
(* the full projected state observed afterwards.  A line is consumed only  *)
(* by the Vault action it names, with the reply / audit / state the        *)
(* specification prescribes; a history the specification cannot follow     *)
(* leaves the trace partly unconsumed and Accepted fails.                  *)
(***************************************************************************)
EXTENDS Naturals, Sequences, FiniteSets, TLC, Json

CONSTANT Nil

Trace == ndJsonDeserialize("trace.ndjson")
Dict  == ndJsonDeserialize("dict.ndjson")[1]   \* [names: seq of [name, cps], vals: seq of tokens, maxver]

ToSet(s) == {s[i] : i \in DOMAIN s}
NameSet == {Dict.names[i].name : i \in DOMAIN Dict.names}
CpTab == [n \in NameSet |-> (CHOOSE i \in DOMAIN Dict.names : Dict.names[i].name = n)]
CpImpl(n) == Dict.names[CpTab[n]].cps
InternalPrefix == <<95, 105, 110, 116, 101, 114, 110, 97, 108, 47>>
ReservedImpl(n) == LET c == CpImpl(n) IN Len(c) >= 10 /\ SubSeq(c, 1, 10) = InternalPrefix
Vals == ToSet(Dict.vals)
MaxVer == Dict.maxver

VARIABLES sec, disk, auditOK, last, l
V == INSTANCE Vault WITH Names <- NameSet, Cp <- CpImpl, Reserved <- ReservedImpl

vars == <<sec, disk, auditOK, last, l>>

M == INSTANCE TraceMatch

StepF(e, f) ==
  CASE e.op = "info"     -> V!Info(e.who, e.rules, e.name, f)
    [] e.op = "get"      -> V!Get(e.who, e.rules, e.name, f)
    [] e.op = "getver"   -> V!GetVersion(e.who, e.rules, e.name, e.ver, f)
    [] e.op = "getcond"  -> V!GetCond(e.who, e.rules, e.name, e.ver, f)
    [] e.op = "put"      -> V!Put(e.who, e.rules, e.name, e.val, f)
    [] e.op = "activate" -> V!Activate(e.who, e.rules, e.name, e.ver, f)
    [] e.op = "delver"   -> V!DeleteVersion(e.who, e.rules, e.name, e.ver, f)
    [] e.op = "delete"   -> V!Delete(e.who, e.rules, e.name, f)
    [] e.op = "list"     -> V!List(e.who, e.rules, f)
    [] OTHER -> FALSE
\* the recorded fault is what the driver injected into this call; after an earlier failed audit write the writer may
\* still be latched (the pinned encoder is) or may have recovered -- both are behaviours of the specification
\* (a latched writer fails the call whatever else the driver injects into it)
Step(e) == StepF(e, e.fault) \/ (~auditOK /\ StepF(e, "latched"))

TraceOp ==
  /\ l <= Len(Trace) /\ Trace[l].ev = "op"
  /\ LET e == Trace[l] IN
     /\ Step(e)
     /\ M!ReplyMatches(last'.reply, e.reply, e.op = "put")
     /\ M!AuditMatches(last'.audit, e.audit)
     /\ last'.saved = e.saved /\ last'.kek = e.kek
     /\ M!StateMatches(sec', NameSet, e.state)
  /\ l' = l + 1

TraceReopen ==
  /\ l <= Len(Trace) /\ Trace[l].ev = "reopen"
  /\ V!Reopen
  /\ Trace[l].kek = 1 /\ Trace[l].filesame
  /\ M!StateMatches(sec', NameSet, Trace[l].state)
  /\ l' = l + 1

TraceReset ==             \* a new history on a freshly created database
  /\ l <= Len(Trace) /\ Trace[l].ev = "reset"
  /\ sec' = V!NoSecret /\ disk' = V!NoSecret /\ auditOK' = TRUE
  /\ last' = V!Out("create", "", "", Nil, 0, "none", V!Plain("ok"), <<>>, TRUE, 1)
  /\ Trace[l].kek = 1
  /\ l' = l + 1

Init == V!Init /\ l = 1
Next == TraceOp \/ TraceReopen \/ TraceReset

\* every invariant of the specification is evaluated at every step of every history
TypeOK == V!TypeOK
Durable == V!Durable
StepOK == [][last'.op = "create" \/ (V!StepLemmas /\ V!AuditFirst' /\ V!CondGet' /\ V!ValuesOnlyFromGets' /\ V!KekOnlyAtOpen')]_<<sec, disk, auditOK, last>>

Accepted == LET d == TLCGet("stats").diameter IN PrintT(<<"HW", d>>) /\ d = Len(Trace) + 1
=============================================================================
