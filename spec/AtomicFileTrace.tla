--------------------------- MODULE AtomicFileTrace ---------------------------
(***************************************************************************)
(* Conformance of what the kernel saw to the AtomicFile protocol (C04,     *)
(* C13).  trace.ndjson holds, per mutating call, the system calls that     *)
(* touched the state directory as recorded by strace (run by run,          *)
(* separated by "begin" events): create, write, chmod, fsync, close,       *)
(* rename, unlink, and any open of the live file for writing.  A "fail"    *)
(* event marks the call strace made fail (injected I/O error).  TLC        *)
(* accepts a run only if it is a behaviour of AtomicFile, so "new contents *)
(* go to a separate file in the same directory, are completely written and *)
(* fsynced before the rename, the live file is never opened for writing,   *)
(* errors clean up and leave the old file" is checked on the real calls.   *)
(***************************************************************************)
EXTENDS Naturals, Sequences, TLC, Json

Trace == ndJsonDeserialize("trace.ndjson")

VARIABLES pc, w, tmpDur, tmpMode, liveVis, liveDur, tmpEntry, oldW, result, l, n
A == INSTANCE AtomicFile WITH N <- 1, Protocol <- "atomic"

Ev(e) == l <= Len(Trace) /\ Trace[l].ev = e
Adv == l' = l + 1

Begin ==                     \* a new call: fresh protocol state, content size of this call
  /\ Ev("begin")
  /\ pc' = "start" /\ w' = 0 /\ tmpDur' = 0 /\ tmpMode' = 0 /\ liveVis' = "old" /\ liveDur' = "old"
  /\ tmpEntry' = FALSE /\ oldW' = 0 /\ result' = "none" /\ n' = Trace[l].size /\ Adv

Create == Ev("create") /\ Trace[l].samedir /\ Trace[l].excl /\ Trace[l].mode = 384 /\ A!CreateTemp /\ Adv
Write  == Ev("write") /\ A!Write(Trace[l].bytes) /\ Adv
Chmod  == Ev("chmod") /\ Trace[l].mode = 384 /\ A!Chmod /\ Adv
Fsync  == Ev("fsync") /\ A!Fsync /\ Adv
Close  == Ev("close") /\ pc # "failed" /\ A!Close /\ Adv
Rename == Ev("rename") /\ Trace[l].fromtmp /\ Trace[l].tolive /\ A!Rename /\ Adv
Fail   == Ev("fail") /\ A!IoError /\ Adv          \* the injected error hits the step about to be taken
\* cleanup after a failure: close (if the file was open) and unlink of the temporary file, then the error is reported
CloseAfterFail == Ev("close") /\ pc = "failed" /\ Adv /\ UNCHANGED <<pc, w, tmpDur, tmpMode, liveVis, liveDur, tmpEntry, oldW, result, n>>
Unlink == Ev("unlink") /\ Trace[l].tmp /\ A!Cleanup /\ Adv
\* a failed create leaves nothing to unlink
CleanupNoTemp == Ev("end") /\ pc = "failed" /\ ~tmpEntry /\ A!Cleanup /\ UNCHANGED l
End ==
  /\ Ev("end") /\ pc \in {"done", "cleaned"} /\ Trace[l].result = result
  /\ Adv /\ UNCHANGED <<pc, w, tmpDur, tmpMode, liveVis, liveDur, tmpEntry, oldW, result, n>>

Init == A!Init /\ l = 1 /\ n = 1
Next == Begin \/ Create \/ Write \/ Chmod \/ Fsync \/ Close \/ Rename \/ Fail \/ CloseAfterFail \/ Unlink \/ CleanupNoTemp \/ End

AllOrNothingKill  == A!AllOrNothingKill
AllOrNothingPower == A!AllOrNothingPower
ErrorMeansOld     == A!ErrorMeansOld
OkMeansNew        == A!OkMeansNew
OwnerOnly         == A!OwnerOnly
FlushedBeforeReplace == A!FlushedBeforeReplace

ASSUME TLCSet(1, 0)
HW == TLCGet(1) >= l \/ TLCSet(1, l)
Accepted == PrintT(<<"HW", TLCGet(1)>>) /\ TLCGet(1) = Len(Trace) + 1
=============================================================================
