------------------------------- MODULE HttpMC -------------------------------
(***************************************************************************)
(* Bounded instance of Http: every request class combination against a    *)
(* small vault, with EDGE emission for the replay on the real mux.         *)
(***************************************************************************)
EXTENDS Naturals, Sequences, FiniteSets, TLC, Json

CONSTANTS Nil, MaxVer, Vals, EmitEdges,
          Methods, CTypes, Hdrs, BodyClasses, Paths   \* the request classes to enumerate

NameSet == {"A", ""}
CpImpl(n) == IF n = "A" THEN <<65>> ELSE <<>>
ReservedImpl(n) == FALSE
\* the tailnet's grants: the plain capability allows reading A; the legacy one allows everything
PlainRulesDef == <<[action |-> <<"get", "info">>, secret |-> <<<<65>>>>]>>
HttpsRulesDef == <<[action |-> <<"get", "info", "put", "activate", "delete">>, secret |-> <<<<42>>>>]>>

VARIABLES sec, disk, auditOK, last, http, req
H == INSTANCE Http WITH Names <- NameSet, Cp <- CpImpl, Reserved <- ReservedImpl,
                        PlainRules <- PlainRulesDef, HttpsRules <- HttpsRulesDef

GrantStates == {"none", "empty", "good", "bad"}
Whois == {[kind |-> "err", plain |-> "none", https |-> "none"], [kind |-> "anon", plain |-> "good", https |-> "good"]}
         \cup {[kind |-> k, plain |-> p, https |-> h] : k \in {"tagged", "user"}, p \in GrantStates, h \in GrantStates}

A(n, ver, uic, val) == [name |-> n, ver |-> ver, uic |-> uic, val |-> val]
ArgMenu(path) ==
  CASE path = "get" -> {A("A", 0, FALSE, "E"), A("A", 1, FALSE, "E"), A("A", 1, TRUE, "E"), A("A", 2, TRUE, "E"), A("A", 0, TRUE, "E")}
    [] path = "put" -> {A("A", 0, FALSE, v) : v \in Vals}
    [] path \in {"activate", "delete-version"} -> {A("A", 1, FALSE, "E"), A("A", 2, FALSE, "E")}
    [] OTHER -> {A("A", 0, FALSE, "E")}
Bodies(path) ==
  UNION {IF c \in {"valid"} THEN {[class |-> c, args |-> a] : a \in ArgMenu(path)}
         ELSE {[class |-> c, args |-> CHOOSE a \in ArgMenu(path) : TRUE]} : c \in BodyClasses}

BodiesTab == [p \in Paths \ {"dash"} |-> Bodies(p)]

\* The gate does not look at the store, so refused requests are enumerated in two
\* store states only (empty; two versions); accepted requests in every state.
RefusedHere == IF sec["A"] = Nil THEN TRUE ELSE (sec["A"].latest = 2 /\ sec["A"].active = 1 /\ sec["A"].vers[2] # Nil)

Init == H!Init /\ req = [path |-> "none"]
Next ==
  \/ \E m \in Methods, c \in CTypes, h \in Hdrs, w \in Whois, p \in Paths \ {"dash"} :
       \E b \in BodiesTab[p] :
         LET r == [method |-> m, ctype |-> c, hdr |-> h, path |-> p, whois |-> w, body |-> b] IN
         (H!Gate(r, TRUE) = "pass" \/ RefusedHere) /\ H!Serve(r) /\ req' = r
  \/ ("dash" \in Paths /\ \E m \in Methods, w \in Whois :
       LET r == [method |-> m, ctype |-> "none", hdr |-> "none", path |-> "dash", whois |-> w,
                 body |-> [class |-> "empty", args |-> A("", 0, FALSE, "E")]] IN
       H!Serve(r) /\ req' = r)

vars == <<sec, disk, auditOK, last, http, req>>
View == <<sec, auditOK>>

Proj(s) == {[name |-> n, active |-> s[n].active, latest |-> s[n].latest,
             vers |-> {[v |-> v, val |-> s[n].vers[v]] : v \in H!V!VersionsOf(s[n])}]
            : n \in {m \in NameSet : s[m] # Nil}}
Emit == EmitEdges =>
  PrintT(<<"EDGE", ToJson([from |-> Proj(sec), fa |-> auditOK, req |-> req', http |-> http', op |-> last',
                           to |-> Proj(sec'), ta |-> auditOK'])>>)

TypeOK == H!V!TypeOK /\ H!V!Durable
StepOK == [][H!GateNoEffect /\ H!StatusExact /\ H!PrincipalExact(req') /\ H!V!ValuesOnlyFromGets'
             /\ (http'.gate = "pass" => H!V!AuditFirst')]_vars
=============================================================================
