----------------------------- MODULE AtomicFile -----------------------------
(***************************************************************************)
(* How setec replaces its database file (and its client cache file), and   *)
(* what a crash or an I/O error can leave behind (C04, C13).               *)
(*                                                                         *)
(* The writer protocol (tailscale.com/atomicfile.WriteFile as db.kv.save   *)
(* and FileCache.Write use it):                                            *)
(*   CreateTemp (same directory, O_EXCL, mode 0600) ; Write+ ; Chmod 0600 ; *)
(*   Fsync ; Close ; Rename temp -> live                                    *)
(* and on any failing step: Close ; Unlink temp ; report the error.        *)
(*                                                                         *)
(* File-system model.  Two inodes matter: the one the live name points to  *)
(* before the call (content Old, durable) and the temporary one.  An inode *)
(* has data in the page cache (`w` chunks of the N-chunk new content) and  *)
(* a durable part; unsynced data may reach the disk in any prefix.  A      *)
(* rename is atomic in the visible directory; it becomes durable at the    *)
(* rename or at any later moment, as a whole (old binding or new binding,  *)
(* never a half-written inode under the live name unless the inode itself  *)
(* was not flushed).  These are the stated assumptions of C04; a directory *)
(* fsync is not part of the code and is not claimed.                       *)
(*                                                                         *)
(* Environment: Kill (process dies, page cache survives), PowerLoss (only  *)
(* durable state survives), IoError at any step.                           *)
(***************************************************************************)
EXTENDS Naturals, FiniteSets, TLC

CONSTANTS N,         \* number of chunks of the new content (writes may be split)
          Protocol   \* "atomic" (the real one) | "renameBeforeFsync" | "inPlace" (negative controls)

VARIABLES pc,        \* writer: "start","created","writing","chmodded","synced","closed","renamed","failed","cleaned","dead"
          w,         \* chunks of new content written to the temporary inode (page cache)
          tmpDur,    \* chunks of it guaranteed durable (after fsync: = w)
          tmpMode,   \* mode of the temporary inode
          liveVis,   \* visible binding of the live name: "old" | "tmp"
          liveDur,   \* durable binding of the live name: "old" | "tmp"
          tmpEntry,  \* the temporary name exists in the visible directory
          oldW,      \* inPlace control only: chunks overwritten in the old inode
          result,    \* what the call reported: "none" | "ok" | "error"
          n          \* number of chunks (bytes, in trace validation) of the new content of this call

vars == <<pc, w, tmpDur, tmpMode, liveVis, liveDur, tmpEntry, oldW, result, n>>

Init ==
  /\ pc = "start" /\ w = 0 /\ tmpDur = 0 /\ tmpMode = 0 /\ liveVis = "old" /\ liveDur = "old"
  /\ tmpEntry = FALSE /\ oldW = 0 /\ result = "none" /\ n = N

(* --- the writer ------------------------------------------------------------ *)
CreateTemp ==
  /\ pc = "start" /\ Protocol # "inPlace"
  /\ pc' = "created" /\ tmpEntry' = TRUE /\ tmpMode' = 384      \* 0600 at creation already
  /\ UNCHANGED <<w, tmpDur, liveVis, liveDur, oldW, result, n>>

Write(k) ==                                                     \* k chunks in one call (any split)
  /\ pc \in {"created", "writing"} /\ w + k <= n /\ k >= 1
  /\ w' = w + k /\ pc' = "writing"
  /\ UNCHANGED <<tmpDur, tmpMode, liveVis, liveDur, tmpEntry, oldW, result, n>>

Chmod ==
  /\ pc = "writing" /\ w = n
  /\ pc' = "chmodded" /\ tmpMode' = 384
  /\ UNCHANGED <<w, tmpDur, liveVis, liveDur, tmpEntry, oldW, result, n>>

Fsync ==
  /\ \/ (Protocol = "atomic" /\ pc = "chmodded")
     \/ (Protocol = "renameBeforeFsync" /\ pc = "renamed")
  /\ tmpDur' = w
  /\ pc' = IF Protocol = "atomic" THEN "synced" ELSE "done"
  /\ result' = IF Protocol = "atomic" THEN result ELSE "ok"
  /\ UNCHANGED <<w, tmpMode, liveVis, liveDur, tmpEntry, oldW, n>>

Close ==
  /\ pc = "synced"
  /\ pc' = "closed"
  /\ UNCHANGED <<w, tmpDur, tmpMode, liveVis, liveDur, tmpEntry, oldW, result, n>>

Rename ==
  /\ \/ (Protocol = "atomic" /\ pc = "closed")
     \/ (Protocol = "renameBeforeFsync" /\ pc = "chmodded")
  /\ liveVis' = "tmp" /\ tmpEntry' = FALSE
  /\ \/ liveDur' = "tmp"                       \* durable at once ...
     \/ UNCHANGED liveDur                      \* ... or later (DirFlush)
  /\ pc' = IF Protocol = "atomic" THEN "done" ELSE "renamed"
  /\ result' = IF Protocol = "atomic" THEN "ok" ELSE result
  /\ UNCHANGED <<w, tmpDur, tmpMode, oldW, n>>

DirFlush ==                                    \* the directory update reaches the disk
  /\ liveVis = "tmp" /\ liveDur = "old"
  /\ liveDur' = "tmp"
  /\ UNCHANGED <<pc, w, tmpDur, tmpMode, liveVis, tmpEntry, oldW, result, n>>

DataFlush ==                                   \* the kernel writes back some unsynced data by itself
  /\ tmpDur < w
  /\ \E d \in (tmpDur + 1)..w : tmpDur' = d
  /\ UNCHANGED <<pc, w, tmpMode, liveVis, liveDur, tmpEntry, oldW, result, n>>

\* negative control: truncate the live file and write the new content in place
WriteInPlace ==
  /\ Protocol = "inPlace" /\ pc \in {"start", "writing"} /\ oldW < n
  /\ oldW' = oldW + 1 /\ pc' = IF oldW + 1 = n THEN "done" ELSE "writing"
  /\ result' = IF oldW + 1 = n THEN "ok" ELSE result
  /\ UNCHANGED <<w, tmpDur, tmpMode, liveVis, liveDur, tmpEntry, n>>

(* --- environment -------------------------------------------------------------- *)
\* An I/O error at the step the writer is about to take: it cleans up and reports.
IoError ==
  /\ pc \in {"start", "created", "writing", "chmodded", "synced", "closed"} /\ Protocol = "atomic"
  /\ pc' = "failed"
  /\ UNCHANGED <<w, tmpDur, tmpMode, liveVis, liveDur, tmpEntry, oldW, result, n>>
Cleanup ==
  /\ pc = "failed"
  /\ pc' = "cleaned" /\ tmpEntry' = FALSE /\ result' = "error"
  /\ UNCHANGED <<w, tmpDur, tmpMode, liveVis, liveDur, oldW, n>>

Kill ==                                        \* SIGKILL at any instant: nothing more happens, the cache survives
  /\ pc \notin {"dead", "cleaned"}
  /\ pc' = "dead"
  /\ UNCHANGED <<w, tmpDur, tmpMode, liveVis, liveDur, tmpEntry, oldW, result, n>>

Next == CreateTemp \/ (\E k \in 1..N : Write(k)) \/ Chmod \/ Fsync \/ Close \/ Rename \/ DirFlush \/ DataFlush
        \/ WriteInPlace \/ IoError \/ Cleanup \/ Kill
Spec == Init /\ [][Next]_vars

(* --- what a reader finds -------------------------------------------------------- *)
\* after the process is gone but the machine stayed up
VisibleContent ==
  IF Protocol = "inPlace" THEN (IF oldW = 0 THEN "Old" ELSE IF oldW = n THEN "New" ELSE "Partial")
  ELSE IF liveVis = "old" THEN "Old" ELSE (IF w = n THEN "New" ELSE "Partial")
\* after power loss at this instant: every durable image the model allows
DurableContents ==
  IF Protocol = "inPlace" THEN (IF oldW = 0 THEN {"Old"} ELSE IF oldW = n THEN {"New", "Partial"} ELSE {"Partial"})
  ELSE IF liveDur = "old" THEN {"Old"} ELSE {IF tmpDur = n THEN "New" ELSE "Partial"}

(* --- properties (C04) ------------------------------------------------------------ *)
AllOrNothingKill  == VisibleContent \in {"Old", "New"}
AllOrNothingPower == DurableContents \subseteq {"Old", "New"}
ErrorMeansOld     == result = "error" => VisibleContent = "Old" /\ DurableContents = {"Old"} /\ ~tmpEntry
OkMeansNew        == result = "ok" => VisibleContent = "New"
LiveNeverWrittenInPlace == oldW = 0
OwnerOnly         == tmpEntry => tmpMode = 384
\* the new content is complete and flushed before it takes the live name
FlushedBeforeReplace == [][liveVis' = "tmp" /\ liveVis = "old" => tmpDur = n /\ w = n]_vars
=============================================================================
