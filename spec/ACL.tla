-------------------------------- MODULE ACL --------------------------------
(***************************************************************************)
(* Rule evaluation (C01, C07).  A rule set is a sequence of rules; a rule  *)
(* is a record [action |-> sequence of action names, secret |-> sequence   *)
(* of patterns (code-point sequences)].  Sequences, not sets, because that *)
(* is what the policy JSON carries (duplicates are harmless).              *)
(*                                                                         *)
(* Allow holds iff ONE SINGLE rule both lists the action and has a         *)
(* matching pattern.                                                       *)
(***************************************************************************)
EXTENDS Naturals, Sequences, FiniteSets
LOCAL G == INSTANCE Glob

Actions == {"get", "info", "put", "activate", "delete"}

D == INSTANCE ACLDefs WITH Match <- LAMBDA p, n : G!Match(p, n)
RuleAllows(r, a, ncp) == D!RuleAllows(r, a, ncp)
Allow(rules, a, ncp) == D!Allow(rules, a, ncp)

\* The wrong reading the property excludes: action from one rule, pattern from another.
AllowSplit(rules, a, ncp) ==
  /\ \E i \in DOMAIN rules : \E k \in DOMAIN rules[i].action : rules[i].action[k] = a
  /\ \E i \in DOMAIN rules : \E j \in DOMAIN rules[i].secret : G!Match(rules[i].secret[j], ncp)
=============================================================================
