------------------------------- MODULE Glob -------------------------------
(***************************************************************************)
(* Whole-name glob matching, as setec's ACL patterns are documented to     *)
(* behave (C07).  Patterns and names are sequences of Unicode code points. *)
(* The only special pattern symbol is '*' (42): zero or more arbitrary     *)
(* code points.  Everything else -- '/', newline, regexp metacharacters -- *)
(* is a literal.  The match is anchored at both ends.                      *)
(*                                                                         *)
(* Two independent definitions are given and TLC checks that they agree    *)
(* on a bounded domain (GlobMC):                                           *)
(*   Match   -- position-set automaton (the textbook NFA simulation)       *)
(*   MatchP  -- "the literal pieces occur in order, first piece is a       *)
(*              prefix, last piece is a suffix" (the property's wording)   *)
(* Neither is a regular expression; acl.go's implementation is.            *)
(***************************************************************************)
EXTENDS Naturals, Sequences, FiniteSets

Star == 42

(* --- definition 1: position-set automaton ------------------------------ *)
\* A position i \in 0..Len(p) means "the first i pattern symbols are consumed".
RECURSIVE Close(_, _)
Close(p, S) ==
  LET T == S \cup {i + 1 : i \in {j \in S : j < Len(p) /\ p[j + 1] = Star}}
  IN  IF T = S THEN S ELSE Close(p, T)

Step(p, S, c) ==
  Close(p, {i \in S : i < Len(p) /\ p[i + 1] = Star}
           \cup {i + 1 : i \in {j \in S : j < Len(p) /\ p[j + 1] # Star /\ p[j + 1] = c}})

RECURSIVE Run(_, _, _, _)
Run(p, S, n, k) == IF k > Len(n) \/ S = {} THEN S ELSE Run(p, Step(p, S, n[k]), n, k + 1)

Match(p, n) == Len(p) \in Run(p, Close(p, {0}), n, 1)

(* --- definition 2: literal pieces in order, anchored -------------------- *)
HasStar(p) == \E i \in 1..Len(p) : p[i] = Star

\* Pieces(p): the maximal star-free runs of p, in order (may be empty runs).
RECURSIVE PiecesFrom(_, _, _)
PiecesFrom(p, i, cur) ==
  IF i > Len(p) THEN <<cur>>
  ELSE IF p[i] = Star THEN <<cur>> \o PiecesFrom(p, i + 1, <<>>)
  ELSE PiecesFrom(p, i + 1, Append(cur, p[i]))
Pieces(p) == PiecesFrom(p, 1, <<>>)

OccursAt(piece, n, at) ==   \* piece occupies n[at+1 .. at+Len(piece)]
  /\ at + Len(piece) <= Len(n)
  /\ \A k \in 1..Len(piece) : n[at + k] = piece[k]

\* Leftmost placement of pieces 2..m-1 after the prefix; classic greedy argument.
RECURSIVE Place(_, _, _, _)
Place(ps, k, n, from) ==     \* least end offset after placing pieces k..Len(ps)-1 from 'from', or Len(n)+1 if impossible
  IF k >= Len(ps) THEN from
  ELSE LET cands == {a \in from..Len(n) : OccursAt(ps[k], n, a)}
       IN  IF cands = {} THEN Len(n) + 1
           ELSE LET a == CHOOSE x \in cands : \A y \in cands : x <= y
                IN  Place(ps, k + 1, n, a + Len(ps[k]))

MatchP(p, n) ==
  IF ~HasStar(p) THEN p = n
  ELSE LET ps == Pieces(p)
           m  == Len(ps)
           first == ps[1]
           last  == ps[m]
       IN /\ OccursAt(first, n, 0)
          /\ LET e == Place(ps, 2, n, Len(first))
             IN  /\ e <= Len(n)
                 /\ e + Len(last) <= Len(n)
                 /\ OccursAt(last, n, Len(n) - Len(last))

=============================================================================
