-------------------------------- MODULE Vault --------------------------------
(***************************************************************************)
(* The setec server store (db.DB) as a sequential state machine: the       *)
(* versioned secret map, the ACL gate, the audit record each call leaves,  *)
(* persistence (what a reopen would load) and fault outcomes.              *)
(*                                                                         *)
(* One action per public method of db.DB, each the composition the code    *)
(* performs: argument pre-check -> ACL decision + audit record ->          *)
(* data step -> save (or roll back).  Deliberate behaviours of the code    *)
(* that an idealised model would smooth over are modelled as they are:     *)
(*   - a conditional get that finds the caller's version current writes    *)
(*     no audit record; one that finds no such secret writes none either;  *)
(*   - the audit encoder latches its first write error, so after one       *)
(*     failed audit write every later call of the pinned code fails closed *)
(*     (fault "latched"); a writer that recovers is equally allowed;       *)
(*   - deleting an absent secret succeeds; re-putting the bytes of the     *)
(*     newest version returns its number without saving;                   *)
(*   - names with the reserved prefix can be read (never found) but never  *)
(*     written.                                                            *)
(* Where the property's wording and the pinned code differed (re-put after *)
(* deleting the newest version, defect D1) the property's wording is the   *)
(* specification.                                                          *)
(*                                                                         *)
(* Properties decided here: C01 (AclGate, DenialBlind, ListExact),         *)
(* C02 (the data step itself + SeqSpec lemmas), C03 (Durable, Reopen),     *)
(* C06 (AuditFirst), C09 (CondGet), parts of C04/C05 (SaveFault, kek).     *)
(***************************************************************************)
EXTENDS Naturals, Sequences, FiniteSets, TLC

CONSTANTS Names,       \* secret names (opaque strings; Cp gives their code points)
          Vals,        \* secret values (opaque tokens)
          MaxVer,      \* bound on version numbers, enforced inside Next
          Nil,
          Cp(_),       \* name -> sequence of code points
          Reserved(_)  \* name -> BOOLEAN: has the "_internal/" prefix

ACL == INSTANCE ACL

Vers == 1..MaxVer

VARIABLES sec,      \* [Names -> Nil | [vers: [Vers -> Vals \cup {Nil}], active: Vers, latest: Vers]]
          disk,     \* what db.Open would load: same shape
          auditOK,  \* FALSE once an audit write has failed (the encoder's sticky error)
          last      \* output only: the call just made, its reply, its audit record, whether it saved

vars == <<sec, disk, auditOK, last>>

NoSecret == [n \in Names |-> Nil]
EmptyVers == [v \in Vers |-> Nil]

Exists(n) == sec[n] # Nil
VersionsOf(s) == {v \in Vers : s.vers[v] # Nil}
InfoOf(n) == [name |-> n, active |-> sec[n].active, versions |-> VersionsOf(sec[n])]

Allowed(rules, action, n) == ACL!Allow(rules, action, Cp(n))

(* --- replies ------------------------------------------------------------ *)
\* class: "ok" | "notchanged" | "denied" | "notfound" | "error" | "fail"
\*   "fail" = the property leaves open whether this failure is reported as
\*   not-found or as another error (version 0 arguments, reserved names).
Reply(class, ver, val, info, list) == [class |-> class, ver |-> ver, val |-> val, info |-> info, list |-> list]
Plain(class) == Reply(class, 0, Nil, Nil, Nil)

Entry(who, action, n, ver, ok) == [who |-> who, action |-> action, name |-> n, ver |-> ver, authorized |-> ok]

Out(op, who, n, val, ver, fault, reply, audit, saved, kek) ==
  [op |-> op, who |-> who, name |-> n, val |-> val, ver |-> ver, fault |-> fault,
   reply |-> reply, audit |-> audit, saved |-> saved, kek |-> kek]

(* --- the audit step ------------------------------------------------------ *)
\* fault \in {"none", "auditWrite", "auditSync", "save", "latched"}.
\* auditOK = FALSE records that an audit write has failed at some point.  Whether the writer recovers is the
\* implementation's business (C06 only says that a request whose record cannot be written fails): the pinned writer
\* latches its first error (json.Encoder) and every later call fails closed -- fault "latched", possible only after
\* a failed write -- while a writer that starts afresh on the next record behaves as with fault "none".
FaultPossible(fault) == fault = "latched" => ~auditOK
\* AuditFails: this call's record cannot be written (or synced).
AuditFails(fault) == fault \in {"auditWrite", "auditSync", "latched"}
\* What reaches the log: a failed write leaves nothing; a failed sync leaves the line.
AuditSeen(fault, e) == IF fault \in {"auditWrite", "latched"} THEN <<>> ELSE <<e>>
AuditOKNext(fault) == auditOK /\ fault # "auditWrite"

(* --- the data step (C02) -------------------------------------------------- *)
NewSecret(v) == [vers |-> [EmptyVers EXCEPT ![1] = v], active |-> 1, latest |-> 1]

\* Commit: the new map is saved, or the save fails and everything is rolled back.
Commit(op, who, n, val, ver, fault, newsec, okReply, e) ==
  IF fault = "save"
  THEN /\ UNCHANGED <<sec, disk>>
       /\ last' = Out(op, who, n, val, ver, fault, Plain("error"), <<e>>, FALSE, 0)
  ELSE /\ sec' = newsec /\ disk' = newsec
       /\ last' = Out(op, who, n, val, ver, fault, okReply, <<e>>, TRUE, 0)

NoChange(op, who, n, val, ver, fault, reply, audit) ==
  /\ UNCHANGED <<sec, disk>>
  /\ last' = Out(op, who, n, val, ver, fault, reply, audit, FALSE, 0)

\* Common prefix of Info/Get/GetVersion/Put/Activate/DeleteVersion/Delete:
\* decide, write the audit record, fail closed.  Body(e) is the data step.
Gate(op, action, who, rules, n, val, ver, fault, Body(_)) ==
  LET ok == Allowed(rules, action, n)
      e  == Entry(who, action, n, ver, ok)
  IN  /\ FaultPossible(fault)
      /\ auditOK' = AuditOKNext(fault)
      /\ IF ~ok
         THEN NoChange(op, who, n, val, ver, fault, Plain("denied"), AuditSeen(fault, e))
         ELSE IF AuditFails(fault)
         THEN NoChange(op, who, n, val, ver, fault, Plain("error"), AuditSeen(fault, e))
         ELSE Body(e)

Info(who, rules, n, fault) ==
  LET Body(e) == IF ~Exists(n) THEN NoChange("info", who, n, Nil, 0, fault, Plain("notfound"), <<e>>)
                 ELSE NoChange("info", who, n, Nil, 0, fault, Reply("ok", 0, Nil, InfoOf(n), Nil), <<e>>)
  IN  fault # "save" /\ Gate("info", "info", who, rules, n, Nil, 0, fault, Body)

Get(who, rules, n, fault) ==
  LET Body(e) == IF ~Exists(n) THEN NoChange("get", who, n, Nil, 0, fault, Plain("notfound"), <<e>>)
                 ELSE NoChange("get", who, n, Nil, 0, fault,
                               Reply("ok", sec[n].active, sec[n].vers[sec[n].active], Nil, Nil), <<e>>)
  IN  fault # "save" /\ Gate("get", "get", who, rules, n, Nil, 0, fault, Body)

GetVersion(who, rules, n, ver, fault) ==
  LET Body(e) == IF ver = 0 THEN NoChange("getver", who, n, Nil, ver, fault, Plain("fail"), <<e>>)
                 ELSE IF ~Exists(n) \/ ver \notin Vers \/ sec[n].vers[ver] = Nil
                 THEN NoChange("getver", who, n, Nil, ver, fault, Plain("notfound"), <<e>>)
                 ELSE NoChange("getver", who, n, Nil, ver, fault, Reply("ok", ver, sec[n].vers[ver], Nil, Nil), <<e>>)
  IN  fault # "save" /\ Gate("getver", "get", who, rules, n, Nil, ver, fault, Body)

\* Conditional get: permission first (a denial is logged); then, under the lock,
\* absent -> not found (no record), current -> not changed (no record), else record + value.
GetCond(who, rules, n, ver, fault) ==
  LET ok == Allowed(rules, "get", n)
      e(auth) == Entry(who, "get", n, 0, auth)
  IN  /\ fault # "save" /\ FaultPossible(fault)
      /\ IF ~ok
         THEN /\ auditOK' = AuditOKNext(fault)
              /\ NoChange("getcond", who, n, Nil, ver, fault, Plain("denied"), AuditSeen(fault, e(FALSE)))
         ELSE IF ~Exists(n)
         THEN /\ UNCHANGED auditOK
              /\ NoChange("getcond", who, n, Nil, ver, fault, Plain("notfound"), <<>>)
         ELSE IF sec[n].active = ver
         THEN /\ UNCHANGED auditOK
              /\ NoChange("getcond", who, n, Nil, ver, fault, Plain("notchanged"), <<>>)
         ELSE /\ auditOK' = AuditOKNext(fault)
              /\ IF AuditFails(fault)
                 THEN NoChange("getcond", who, n, Nil, ver, fault, Plain("error"), AuditSeen(fault, e(TRUE)))
                 ELSE NoChange("getcond", who, n, Nil, ver, fault,
                               Reply("ok", sec[n].active, sec[n].vers[sec[n].active], Nil, Nil), <<e(TRUE)>>)

\* An empty name is refused.  The pinned code refuses it before the permission check (nothing recorded); checking the
\* permission first is just as good (C01: "refused, as access-denied whenever the request is otherwise well-formed"): then
\* the call is recorded like any other, a caller without the grant is denied, one with it gets the validation error.
Put(who, rules, n, v, fault) ==
  IF Cp(n) = <<>>
  THEN \/ /\ FaultPossible(fault) /\ UNCHANGED auditOK
          /\ NoChange("put", who, n, v, 0, fault, Plain("error"), <<>>)
       \/ LET Invalid(e) == NoChange("put", who, n, v, 0, fault, Plain("error"), <<e>>)
          IN  Gate("put", "put", who, rules, n, v, 0, fault, Invalid)
  ELSE
  LET Body(e) ==
        IF Reserved(n) THEN NoChange("put", who, n, v, 0, fault, Plain("error"), <<e>>)
        ELSE IF ~Exists(n)
        THEN Commit("put", who, n, v, 0, fault, [sec EXCEPT ![n] = NewSecret(v)], Reply("ok", 1, Nil, Nil, Nil), e)
        ELSE LET s == sec[n] IN
             IF s.vers[s.latest] # Nil /\ s.vers[s.latest] = v      \* "while that version still exists"
             THEN NoChange("put", who, n, v, 0, fault, Reply("ok", s.latest, Nil, Nil, Nil), <<e>>)
             ELSE /\ s.latest < MaxVer                               \* bound
                  /\ Commit("put", who, n, v, 0, fault,
                            [sec EXCEPT ![n].latest = s.latest + 1, ![n].vers[s.latest + 1] = v],
                            Reply("ok", s.latest + 1, Nil, Nil, Nil), e)
  IN  Gate("put", "put", who, rules, n, v, 0, fault, Body)

Activate(who, rules, n, ver, fault) ==
  IF Cp(n) = <<>>
  THEN \/ /\ FaultPossible(fault) /\ UNCHANGED auditOK
          /\ NoChange("activate", who, n, Nil, ver, fault, Plain("error"), <<>>)
       \/ LET Invalid(e) == NoChange("activate", who, n, Nil, ver, fault, Plain("error"), <<e>>)
          IN  Gate("activate", "activate", who, rules, n, Nil, ver, fault, Invalid)
  ELSE
  LET Body(e) ==
        IF Reserved(n) THEN NoChange("activate", who, n, Nil, ver, fault, Plain("error"), <<e>>)
        ELSE IF ver = 0 THEN NoChange("activate", who, n, Nil, ver, fault, Plain("fail"), <<e>>)
        ELSE IF ~Exists(n) \/ ver \notin Vers \/ sec[n].vers[ver] = Nil
        THEN NoChange("activate", who, n, Nil, ver, fault, Plain("notfound"), <<e>>)
        ELSE IF sec[n].active = ver
        THEN NoChange("activate", who, n, Nil, ver, fault, Plain("ok"), <<e>>)
        ELSE Commit("activate", who, n, Nil, ver, fault, [sec EXCEPT ![n].active = ver], Plain("ok"), e)
  IN  Gate("activate", "activate", who, rules, n, Nil, ver, fault, Body)

DeleteVersion(who, rules, n, ver, fault) ==
  LET Body(e) ==
        IF Reserved(n) THEN NoChange("delver", who, n, Nil, ver, fault, Plain("fail"), <<e>>)
        ELSE IF ver = 0 THEN NoChange("delver", who, n, Nil, ver, fault, Plain("fail"), <<e>>)
        ELSE IF ~Exists(n) THEN NoChange("delver", who, n, Nil, ver, fault, Plain("notfound"), <<e>>)
        ELSE IF sec[n].active = ver THEN NoChange("delver", who, n, Nil, ver, fault, Plain("error"), <<e>>)
        ELSE IF ver \notin Vers \/ sec[n].vers[ver] = Nil
        THEN NoChange("delver", who, n, Nil, ver, fault, Plain("notfound"), <<e>>)
        ELSE Commit("delver", who, n, Nil, ver, fault, [sec EXCEPT ![n].vers[ver] = Nil], Plain("ok"), e)
  IN  Gate("delver", "delete", who, rules, n, Nil, ver, fault, Body)

Delete(who, rules, n, fault) ==
  LET Body(e) ==
        IF Reserved(n) THEN NoChange("delete", who, n, Nil, 0, fault, Plain("fail"), <<e>>)
        ELSE IF ~Exists(n) THEN NoChange("delete", who, n, Nil, 0, fault, Plain("ok"), <<e>>)   \* absent: succeeds
        ELSE Commit("delete", who, n, Nil, 0, fault, [sec EXCEPT ![n] = Nil], Plain("ok"), e)
  IN  Gate("delete", "delete", who, rules, n, Nil, 0, fault, Body)

\* List: one record (action info, empty name, authorized) whoever asks, then the
\* infos of exactly the secrets the caller holds info on.  Never a value.
ListNames(rules) == {n \in Names : Exists(n) /\ Allowed(rules, "info", n)}
List(who, rules, fault) ==
  LET e == Entry(who, "info", "", 0, TRUE) IN
  /\ fault # "save" /\ FaultPossible(fault)
  /\ auditOK' = AuditOKNext(fault)
  /\ IF AuditFails(fault)
     THEN NoChange("list", who, "", Nil, 0, fault, Plain("error"), AuditSeen(fault, e))
     ELSE NoChange("list", who, "", Nil, 0, fault,
                   Reply("ok", 0, Nil, Nil, {InfoOf(n) : n \in ListNames(rules)}), <<e>>)

\* db.Open on the existing file: the served state becomes what is on disk, the
\* key-encryption key is used exactly once, a fresh audit writer is installed.
Reopen ==
  /\ sec' = disk /\ UNCHANGED disk /\ auditOK' = TRUE
  /\ last' = Out("reopen", "", "", Nil, 0, "none", Plain("ok"), <<>>, FALSE, 1)

Init ==
  /\ sec = NoSecret /\ disk = NoSecret /\ auditOK = TRUE
  /\ last = Out("create", "", "", Nil, 0, "none", Plain("ok"), <<>>, TRUE, 1)

(* --- invariants ----------------------------------------------------------- *)
SecretOK(s) ==
  /\ s.active \in Vers /\ s.latest \in Vers /\ s.active <= s.latest
  /\ s.vers[s.active] # Nil                               \* the active version always exists
  /\ \A v \in Vers : v > s.latest => s.vers[v] = Nil      \* nothing beyond the counter

TypeOK ==
  /\ \A n \in Names : sec[n] = Nil \/ SecretOK(sec[n])
  /\ \A n \in Names : (Reserved(n) \/ Cp(n) = <<>>) => sec[n] = Nil
  /\ auditOK \in BOOLEAN

Durable == disk = sec                                       \* C03: every acknowledged change is on disk

\* C05: the key-encryption key is consulted only when the database is opened or created (kek = 1: consulted, however often).
KekOnlyAtOpen == last.kek = (IF last.op \in {"reopen", "create"} THEN 1 ELSE 0)

\* C06 (state part): a call that returned a value or reported success of a mutation
\* has its complete record in the log.
ActionOf(op) == CASE op \in {"get", "getver", "getcond"} -> "get"
                  [] op \in {"info", "list"} -> "info"
                  [] op = "put" -> "put"
                  [] op = "activate" -> "activate"
                  [] op \in {"delver", "delete"} -> "delete"
                  [] OTHER -> "none"
IsCall == last.op \notin {"reopen", "create"}
AuditFirst ==
  IsCall =>
    /\ (last.reply.val # Nil \/ last.saved \/ (last.reply.class = "denied" /\ last.fault \notin {"auditWrite", "latched"})) =>
          /\ Len(last.audit) = 1
          /\ last.audit[1].action = ActionOf(last.op)
          /\ last.audit[1].name = last.name
          /\ last.audit[1].who = last.who
          /\ last.audit[1].authorized = (last.reply.class # "denied")
    /\ last.fault \in {"auditWrite", "auditSync", "latched"} => last.reply.val = Nil /\ ~last.saved
    /\ last.reply.class = "notchanged" => last.audit = <<>>
    /\ Len(last.audit) <= 1

\* C09: not-modified exactly when the active version is the caller's.
CondGet ==
  last.op = "getcond" /\ last.reply.class \in {"ok", "notchanged"} =>
    /\ Exists(last.name)
    /\ (last.reply.class = "notchanged") = (sec[last.name].active = last.ver)
    /\ last.reply.class = "ok" => /\ last.reply.ver = sec[last.name].active
                                  /\ last.reply.val = sec[last.name].vers[sec[last.name].active]

\* No reply other than a successful get variant carries a value; list never does.
ValuesOnlyFromGets ==
  last.reply.val # Nil => last.op \in {"get", "getver", "getcond"} /\ last.reply.class = "ok"

(* --- action properties ---------------------------------------------------- *)
\* C02 lemmas over single steps.
StepLemmas ==
  /\ \A n \in Names :
       /\ n # last'.name => sec'[n] = sec[n]                                   \* non-interference
       /\ (sec[n] # Nil /\ sec'[n] # Nil) =>
            /\ sec'[n].latest >= sec[n].latest                                 \* counters never go back
            /\ \A v \in Vers : (sec[n].vers[v] # Nil /\ sec'[n].vers[v] # Nil)
                                  => sec'[n].vers[v] = sec[n].vers[v]          \* bound bytes never change
            /\ \A v \in Vers : (sec[n].vers[v] = Nil /\ sec'[n].vers[v] # Nil)
                                  => v > sec[n].latest                         \* numbers are never reused
  /\ last'.reply.class # "ok" => sec' = sec                                    \* failed calls change nothing
  /\ (last'.op = "put" /\ last'.reply.class = "ok") =>
        sec'[last'.name].vers[last'.reply.ver] = last'.val                    \* retrievable at once
  /\ (sec' # sec) = (last'.saved /\ last'.op # "create")                       \* state changes iff a save happened
  /\ last'.op # "activate" => \A n \in Names : (sec[n] # Nil /\ sec'[n] # Nil) => sec'[n].active = sec[n].active

=============================================================================
