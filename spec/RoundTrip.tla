------------------------------ MODULE RoundTrip ------------------------------
(***************************************************************************)
(* The journey of one secret value through every retrieval path (C18):     *)
(*                                                                         *)
(*   put -> get, get-version (HTTP API) -> server restart -> get,          *)
(*   get-version -> client Store (construction, handle) -> the Store's     *)
(*   cache document -> a successor Store started from that cache with the  *)
(*   service unreachable -> a file-backed client reading the cache.        *)
(*                                                                         *)
(* A name has a future, too: a journey may be followed by                  *)
(*                                                                         *)
(*   "newver"    other (shorter) bytes put as the next version and         *)
(*               activated while a Store started from the cache file is    *)
(*               running: get, get-version -> the running Store after a    *)
(*               poll -> its cache document (rewritten with a shorter      *)
(*               document) -> a successor Store from the cache -> the      *)
(*               file-backed client;                                       *)
(*   "recreate"  the secret deleted and put again with other bytes (its    *)
(*               version numbers start over): get, get-version -> restart  *)
(*               -> get -> a new Store with a new cache file, after a poll *)
(*               -> cache document -> file client.  (A Store that still    *)
(*               held the deleted secret under the same version number     *)
(*               could not notice the change: polls compare version        *)
(*               numbers, C09/C11.  No listed property forbids that.)      *)
(*                                                                         *)
(* State: the value put (identified by length and digest) and the hop      *)
(* reached.  Every hop must deliver exactly the value put last; the only   *)
(* exception the property makes is the file-backed client, which omits     *)
(* empty values.  trace.ndjson: one "put" line per journey followed by one *)
(* "obs" line per hop in the journey's order.                              *)
(***************************************************************************)
EXTENDS Integers, Sequences, TLC, Json

HopsOf(j) ==
  CASE j = "newver"   -> <<"get", "getver", "store-poll", "cache", "store-from-cache", "fileclient">>
    [] j = "recreate" -> <<"get", "getver", "restart-get", "store-poll", "cache", "fileclient">>
    [] OTHER          -> <<"get", "getver", "restart-get", "restart-getver", "store", "cache", "store-from-cache", "fileclient">>
Trace == ndJsonDeserialize("trace.ndjson")
JourneyOf(e) == IF "journey" \in DOMAIN e THEN e.journey ELSE "first"

VARIABLES l, val, hop, Hops
Init == l = 1 /\ val = [len |-> -1, sum |-> ""] /\ hop = 0 /\ Hops = <<>>

Put ==
  /\ l <= Len(Trace) /\ Trace[l].ev = "put"
  /\ hop = Len(Hops)                                   \* the previous journey was complete
  /\ Trace[l].ok = "t"                                 \* the service accepts every byte string
  /\ val' = [len |-> Trace[l].len, sum |-> Trace[l].sum] /\ hop' = 0 /\ l' = l + 1
  /\ Hops' = HopsOf(JourneyOf(Trace[l]))

Obs ==
  /\ l <= Len(Trace) /\ Trace[l].ev = "obs"
  /\ hop < Len(Hops) /\ Trace[l].hop = Hops[hop + 1]
  /\ LET e == Trace[l] IN
     IF e.hop = "fileclient" /\ val.len = 0
     THEN e.found = "f" \/ (e.len = 0)                 \* "when non-empty": an empty secret may be absent there
     ELSE e.found = "t" /\ e.len = val.len /\ e.sum = val.sum
  /\ hop' = hop + 1 /\ l' = l + 1 /\ UNCHANGED <<val, Hops>>

Next == Put \/ Obs
Accepted == PrintT(<<"HW", TLCGet("stats").diameter>>) /\ TLCGet("stats").diameter = Len(Trace) + 1
=============================================================================
