------------------------------ MODULE RoundTrip ------------------------------
(***************************************************************************)
(* The journey of one secret value through every retrieval path (C18):     *)
(*                                                                         *)
(*   put -> get, get-version (HTTP API) -> server restart -> get,          *)
(*   get-version -> client Store (construction, handle) -> the Store's     *)
(*   cache document -> a successor Store started from that cache with the  *)
(*   service unreachable -> a file-backed client reading the cache.        *)
(*                                                                         *)
(* State: the value put (identified by length and digest) and the hop      *)
(* reached.  Every hop must deliver exactly the value put; the only        *)
(* exception the property makes is the file-backed client, which omits     *)
(* empty values.  trace.ndjson: one "put" line per value followed by one   *)
(* "obs" line per hop in the order above.                                  *)
(***************************************************************************)
EXTENDS Integers, Sequences, TLC, Json

Hops == <<"get", "getver", "restart-get", "restart-getver", "store", "cache", "store-from-cache", "fileclient">>
Trace == ndJsonDeserialize("trace.ndjson")

VARIABLES l, val, hop
Init == l = 1 /\ val = [len |-> -1, sum |-> ""] /\ hop = Len(Hops)

Put ==
  /\ l <= Len(Trace) /\ Trace[l].ev = "put"
  /\ hop = Len(Hops)                                   \* the previous journey was complete
  /\ Trace[l].ok = "t"                                 \* the service accepts every byte string
  /\ val' = [len |-> Trace[l].len, sum |-> Trace[l].sum] /\ hop' = 0 /\ l' = l + 1

Obs ==
  /\ l <= Len(Trace) /\ Trace[l].ev = "obs"
  /\ hop < Len(Hops) /\ Trace[l].hop = Hops[hop + 1]
  /\ LET e == Trace[l] IN
     IF e.hop = "fileclient" /\ val.len = 0
     THEN e.found = "f" \/ (e.len = 0)                 \* "when non-empty": an empty secret may be absent there
     ELSE e.found = "t" /\ e.len = val.len /\ e.sum = val.sum
  /\ hop' = hop + 1 /\ l' = l + 1 /\ UNCHANGED val

Next == Put \/ Obs
Accepted == PrintT(<<"HW", TLCGet("stats").diameter>>) /\ TLCGet("stats").diameter = Len(Trace) + 1
=============================================================================
