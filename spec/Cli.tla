--------------------------------- MODULE Cli ---------------------------------
(***************************************************************************)
(* The `setec` command-line client as a state machine on top of Vault:     *)
(* every command parses its arguments, sends at most one API request and   *)
(* reports the outcome through its exit status and standard output.        *)
(*                                                                         *)
(*   list                         one request; a table of (name, active,   *)
(*                                versions) rows, never a value            *)
(*   info N                       one request; name, active, versions      *)
(*   get [--version V [--if-changed]] N                                    *)
(*                                V = 0: plain get; V # 0: that version,   *)
(*                                or with --if-changed the conditional get *)
(*                                (an unchanged answer is a failure with   *)
(*                                nothing on standard output); when        *)
(*                                standard output is not a terminal        *)
(*                                exactly the value's bytes are written    *)
(*   put N                        (whitespace / empty policy: PutCli.tla)  *)
(*                                on success prints the version assigned   *)
(*   activate N V                 V must be a decimal number, else refused *)
(*                                without a request                        *)
(*   delete-version N V [TOKEN]   two-step confirmation: without TOKEN, or *)
(*   delete-secret  N   [TOKEN]   with a TOKEN that was not issued for     *)
(*                                exactly this request in the current time *)
(*                                window, nothing is sent and the token to *)
(*                                use is printed; with it the request goes *)
(*                                out                                      *)
(*                                                                         *)
(* A token is [req, win]: the request it was issued for and the time       *)
(* window of issue (the code: minute-granular window number and a digest   *)
(* of the request text).  Tick moves the window on; tokens of an earlier   *)
(* window stop working ("about one minute").                               *)
(*                                                                         *)
(* No listed property speaks about these commands except `put` (C18); the  *)
(* module extends the specification's coverage of the system.  Its safety  *)
(* properties: a delete reaches the service only under a token issued for  *)
(* that very request in the current window (ConfirmedDeletes); a refused   *)
(* command sends nothing (RefusedSendsNothing); only get writes a value    *)
(* (ValuesOnlyFromGet); get writes the value the service holds             *)
(* (GetPrintsServed).                                                      *)
(***************************************************************************)
EXTENDS Naturals, Sequences, FiniteSets, TLC

CONSTANTS Names, Vals, MaxVer, Nil, Cp(_), Reserved(_),
          MaxWin       \* bound on the window counter (inside Next)

VARIABLES sec, disk, auditOK, last,     \* the service (Vault)
          win,                          \* current confirmation window
          issued,                       \* tokens printed so far
          out                           \* output only: the command just run

V == INSTANCE Vault

vaultVars == <<sec, disk, auditOK, last>>
vars == <<sec, disk, auditOK, last, win, issued, out>>

\* the CLI user is whoever the tailnet says; here: granted everything
Su == <<[action |-> <<"get", "info", "put", "activate", "delete">>, secret |-> <<<<42>>>>]>>
Who == "cli"

ReqDelVer(n, k) == [kind |-> "delete-version", name |-> n, ver |-> k]
ReqDelete(n)    == [kind |-> "delete-secret", name |-> n, ver |-> 0]
Token(req, w)   == [req |-> req, win |-> w]

\* what a command leaves behind: exit status class, number of API requests, standard output
Out(cmd, n, ver, flag, tok, exit, reqs, stdout, printed) ==
  [cmd |-> cmd, name |-> n, ver |-> ver, flag |-> flag, tok |-> tok, exit |-> exit, reqs |-> reqs,
   stdout |-> stdout, printed |-> printed]

ExitOf(reply) == IF reply.class = "ok" THEN "ok" ELSE "fail"

\* a command that is refused before anything is sent
Refuse(cmd, n, ver, flag, tok, printed) ==
  /\ UNCHANGED vaultVars
  /\ out' = Out(cmd, n, ver, flag, tok, "fail", 0, Nil, printed)

(* --- commands --------------------------------------------------------------- *)
CmdList ==
  /\ V!List(Who, Su, "none")
  /\ out' = Out("list", "", 0, FALSE, Nil, ExitOf(last'.reply), 1,
                [kind |-> "rows", rows |-> last'.reply.list], Nil)
  /\ UNCHANGED <<win, issued>>

CmdInfo(n) ==
  /\ V!Info(Who, Su, n, "none")
  /\ out' = Out("info", n, 0, FALSE, Nil, ExitOf(last'.reply), 1,
                IF last'.reply.class = "ok" THEN [kind |-> "info", info |-> last'.reply.info] ELSE Nil, Nil)
  /\ UNCHANGED <<win, issued>>

\* --if-changed without --version (k = 0) is a plain get: the flag is ignored
CmdGet(n, k, ifChanged) ==
  /\ IF k = 0 THEN V!Get(Who, Su, n, "none")
     ELSE IF ifChanged THEN V!GetCond(Who, Su, n, k, "none")
     ELSE V!GetVersion(Who, Su, n, k, "none")
  /\ out' = Out("get", n, k, ifChanged, Nil, ExitOf(last'.reply), 1,
                IF last'.reply.class = "ok" THEN [kind |-> "value", val |-> last'.reply.val] ELSE Nil, Nil)
  /\ UNCHANGED <<win, issued>>

\* the value has passed the whitespace / empty policy of PutCli already
CmdPut(n, v) ==
  /\ V!Put(Who, Su, n, v, "none")
  /\ out' = Out("put", n, 0, FALSE, Nil, ExitOf(last'.reply), 1,
                IF last'.reply.class = "ok" THEN [kind |-> "saved", ver |-> last'.reply.ver] ELSE Nil, Nil)
  /\ UNCHANGED <<win, issued>>

\* the version argument must be a decimal number that fits 32 bits; anything else is refused at once
CmdActivateBad(n) == Refuse("activate", n, 0, TRUE, Nil, Nil) /\ UNCHANGED <<win, issued>>
CmdActivate(n, vs) ==
  /\ V!Activate(Who, Su, n, vs, "none")
  /\ out' = Out("activate", n, vs, FALSE, Nil, ExitOf(last'.reply), 1, Nil, Nil)
  /\ UNCHANGED <<win, issued>>

\* the confirmation step shared by the two deletes: TRUE iff the command may go out
Confirmed(req, tok) == tok = Token(req, win)
Issue(req) == issued' = issued \cup {Token(req, win)}

\* a malformed version argument is refused before the confirmation step: no token is printed
CmdDeleteVersionBad(n, tok) == Refuse("delete-version", n, 0, TRUE, tok, Nil) /\ UNCHANGED <<win, issued>>
CmdDeleteVersion(n, vs, tok) ==
  LET req == ReqDelVer(n, vs) IN
  IF ~Confirmed(req, tok)
  THEN Refuse("delete-version", n, vs, FALSE, tok, Token(req, win)) /\ Issue(req) /\ UNCHANGED win
  ELSE /\ V!DeleteVersion(Who, Su, n, vs, "none")
       /\ out' = Out("delete-version", n, vs, FALSE, tok, ExitOf(last'.reply), 1, Nil, Nil)
       /\ UNCHANGED <<win, issued>>

CmdDeleteSecret(n, tok) ==
  LET req == ReqDelete(n) IN
  IF ~Confirmed(req, tok)
  THEN Refuse("delete-secret", n, 0, FALSE, tok, Token(req, win)) /\ Issue(req) /\ UNCHANGED win
  ELSE /\ V!Delete(Who, Su, n, "none")
       /\ out' = Out("delete-secret", n, 0, FALSE, tok, ExitOf(last'.reply), 1, Nil, Nil)
       /\ UNCHANGED <<win, issued>>

\* the clock moves into the next confirmation window
Tick ==
  /\ win < MaxWin /\ win' = win + 1
  /\ UNCHANGED <<sec, disk, auditOK, last, issued>>
  /\ out' = Out("tick", "", 0, FALSE, Nil, "ok", 0, Nil, Nil)

Init ==
  /\ V!Init /\ win = 1 /\ issued = {}
  /\ out = Out("start", "", 0, FALSE, Nil, "ok", 0, Nil, Nil)

(* --- properties ---------------------------------------------------------------- *)
IsDelete(o) == o.cmd \in {"delete-version", "delete-secret"}
ReqOf(o) == IF o.cmd = "delete-version" THEN ReqDelVer(o.name, o.ver) ELSE ReqDelete(o.name)

\* a delete goes out only under a token that was printed, for this very request, in this window
ConfirmedDeletes ==
  (IsDelete(out') /\ out'.reqs > 0) =>
     /\ out'.tok \in issued
     /\ out'.tok = Token(ReqOf(out'), win)
\* ... hence nothing is ever deleted by a delete command that carried no, a stale or a foreign token
UnconfirmedChangesNothing ==
  (IsDelete(out') /\ (out'.tok = Nil \/ out'.tok.win # win \/ out'.tok.req # ReqOf(out'))) => UNCHANGED <<sec, disk>>
RefusedSendsNothing == out'.reqs = 0 => UNCHANGED <<sec, disk, auditOK, last>>
OneRequestAtMost == out'.reqs \in {0, 1}
\* only `get` writes a value, and it is the value the service holds for the version asked
ValuesOnlyFromGet == (out'.stdout # Nil /\ out'.stdout.kind = "value") => out'.cmd = "get" /\ out'.exit = "ok"
GetPrintsServed ==
  (out'.cmd = "get" /\ out'.exit = "ok") =>
     LET s == sec[out'.name]
         k == IF out'.ver = 0 \/ out'.flag THEN s.active ELSE out'.ver
     IN  s # Nil /\ out'.stdout = [kind |-> "value", val |-> s.vers[k]]
\* an unchanged conditional get is reported as a failure and writes nothing
UnchangedIsFailure == (out'.cmd = "get" /\ last'.reply.class = "notchanged" /\ out'.reqs = 1) => out'.exit = "fail" /\ out'.stdout = Nil
\* a successful put names the version under which the value can be retrieved at once
PutNamesVersion ==
  (out'.cmd = "put" /\ out'.exit = "ok") => sec'[out'.name].vers[out'.stdout.ver] = last'.val

StepProps == /\ ConfirmedDeletes /\ UnconfirmedChangesNothing /\ RefusedSendsNothing /\ OneRequestAtMost
              /\ ValuesOnlyFromGet /\ GetPrintsServed /\ UnchangedIsFailure /\ PutNamesVersion
             /\ (out'.reqs = 1 => V!StepLemmas)
StepOK == [][StepProps]_vars
=============================================================================
