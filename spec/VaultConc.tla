------------------------------ MODULE VaultConc ------------------------------
(***************************************************************************)
(* The server store at the atomicity of the code (C14, C06).               *)
(*                                                                         *)
(* db.DB serialises its data step with one mutex, but for most methods the *)
(* ACL decision and the audit record are made BEFORE the mutex is taken:   *)
(*                                                                         *)
(*   Info/Get/GetVersion/Put/Activate/DeleteVersion/Delete:                *)
(*        Begin ; Log (decide + append audit record, no lock)              *)
(*              ; Apply (data step + save, under the lock) ; End           *)
(*   GetConditional/List:                                                  *)
(*        Begin ; LogApply (under the lock: read, then append the record)  *)
(*              ; End                                                      *)
(*                                                                         *)
(* The abstract store is exactly Vault's variables; Apply IS the Vault     *)
(* action, so a behaviour of this module is by construction one in which   *)
(* every call takes effect atomically at its Apply step, between its Begin *)
(* and its End: linearizability.  What TLC decides is whether a RECORDED   *)
(* concurrent history of the real server (VaultConcTrace) is a behaviour   *)
(* of this module -- TLC searches for the Apply points.                    *)
(*                                                                         *)
(* AuditBeforeEffect (C06 under concurrency): whenever a call has taken    *)
(* effect or produced a value, its record is already in the log.           *)
(***************************************************************************)
EXTENDS Naturals, Sequences, FiniteSets, TLC

CONSTANTS Names, Vals, MaxVer, Nil, Cp(_), Reserved(_),
          Clients          \* client ids; each has one call in flight at most

VARIABLES sec, disk, auditOK, last,    \* the linearized store: Vault's variables
          pc,      \* [Clients -> "idle" | "begun" | "logged" | "applied" | "done"]
          req,     \* [Clients -> request record]
          resp,    \* [Clients -> reply of the call in flight, valid when pc = "done"]
          alog     \* the audit log: sequence of entries, in the order written

V == INSTANCE Vault

cvars == <<pc, req, resp, alog>>
vvars == <<sec, disk, auditOK, last>>

NoReq == [op |-> "none", who |-> "", rules |-> <<>>, name |-> "", val |-> Nil, ver |-> 0]

GatedOps == {"info", "get", "getver", "put", "activate", "delver", "delete"}   \* audit outside the lock
LockedOps == {"getcond", "list"}                                                \* audit inside the lock

\* The Vault action a request stands for (always without faults here).
Act(r) ==
  CASE r.op = "info"     -> V!Info(r.who, r.rules, r.name, "none")
    [] r.op = "get"      -> V!Get(r.who, r.rules, r.name, "none")
    [] r.op = "getver"   -> V!GetVersion(r.who, r.rules, r.name, r.ver, "none")
    [] r.op = "getcond"  -> V!GetCond(r.who, r.rules, r.name, r.ver, "none")
    [] r.op = "put"      -> V!Put(r.who, r.rules, r.name, r.val, "none")
    [] r.op = "activate" -> V!Activate(r.who, r.rules, r.name, r.ver, "none")
    [] r.op = "delver"   -> V!DeleteVersion(r.who, r.rules, r.name, r.ver, "none")
    [] r.op = "delete"   -> V!Delete(r.who, r.rules, r.name, "none")
    [] r.op = "list"     -> V!List(r.who, r.rules, "none")
    [] OTHER -> FALSE

PreRefused(r) == r.op \in {"put", "activate"} /\ Cp(r.name) = <<>>   \* refused before the ACL, nothing logged

Begin(c, r) ==
  /\ pc[c] = "idle"
  /\ pc' = [pc EXCEPT ![c] = "begun"] /\ req' = [req EXCEPT ![c] = r]
  /\ UNCHANGED <<resp, alog>> /\ UNCHANGED vvars

\* Log: decide and append the record, outside the lock.  A denied call ends here.
Log(c) ==
  LET r == req[c]
      ok == V!Allowed(r.rules, V!ActionOf(r.op), r.name)
      e == V!Entry(r.who, V!ActionOf(r.op), r.name, r.ver, ok)
  IN  /\ pc[c] = "begun" /\ r.op \in GatedOps        \* (an empty name may be refused before or after the permission check)
      /\ alog' = Append(alog, e)
      /\ IF ok
         THEN /\ pc' = [pc EXCEPT ![c] = "logged"]
              /\ UNCHANGED resp /\ UNCHANGED vvars
         ELSE /\ Act(r)                                   \* the Vault step of a denied call: nothing changes
              /\ resp' = [resp EXCEPT ![c] = last'.reply]
              /\ pc' = [pc EXCEPT ![c] = "done"]
      /\ UNCHANGED req

\* Apply: the data step (and save) under the lock -- the linearization point.
Apply(c) ==
  /\ pc[c] = "logged"
  /\ Act(req[c])
  /\ resp' = [resp EXCEPT ![c] = last'.reply]
  /\ pc' = [pc EXCEPT ![c] = "done"]
  /\ UNCHANGED <<req, alog>>

\* Calls refused before the ACL (empty name on put/activate): one step, no record.
Refuse(c) ==
  /\ pc[c] = "begun" /\ PreRefused(req[c])
  /\ Act(req[c])
  /\ resp' = [resp EXCEPT ![c] = last'.reply]
  /\ pc' = [pc EXCEPT ![c] = "done"]
  /\ UNCHANGED <<req, alog>>

\* The same two calls may also be written the way the others are -- the property (C14: linearizable; C06: the record is
\* complete before a value is returned) does not ask for one critical section:
\*   list:  record first, outside the lock, then the read (LogList ; Apply)
\*   conditional get:  the check-and-read under the lock, then -- only if a value is going to be returned -- its record,
\*   before the call returns (ApplyCond ; LogAfter).  A denial is recorded and returned as for every other call (Log).
LogList(c) ==
  LET r == req[c] IN
  /\ pc[c] = "begun" /\ r.op = "list"
  /\ alog' = Append(alog, V!Entry(r.who, "info", "", 0, TRUE))
  /\ pc' = [pc EXCEPT ![c] = "logged"]
  /\ UNCHANGED <<req, resp>> /\ UNCHANGED vvars

LogDeniedCond(c) ==
  LET r == req[c] IN
  /\ pc[c] = "begun" /\ r.op = "getcond" /\ ~V!Allowed(r.rules, "get", r.name)
  /\ Act(r)
  /\ alog' = alog \o last'.audit
  /\ resp' = [resp EXCEPT ![c] = last'.reply]
  /\ pc' = [pc EXCEPT ![c] = "done"]
  /\ UNCHANGED req

ApplyCond(c) ==
  /\ pc[c] = "begun" /\ req[c].op = "getcond" /\ V!Allowed(req[c].rules, "get", req[c].name)
  /\ Act(req[c])
  /\ resp' = [resp EXCEPT ![c] = last'.reply]
  /\ pc' = [pc EXCEPT ![c] = IF last'.audit = <<>> THEN "done" ELSE "applied"]
  /\ UNCHANGED <<req, alog>>

LogAfter(c) ==
  LET r == req[c] IN
  /\ pc[c] = "applied"
  /\ alog' = Append(alog, V!Entry(r.who, "get", r.name, 0, TRUE))
  /\ pc' = [pc EXCEPT ![c] = "done"]
  /\ UNCHANGED <<req, resp>> /\ UNCHANGED vvars

\* Conditional get and list: read and record in one critical section (the pinned code).
LogApply(c) ==
  /\ pc[c] = "begun" /\ req[c].op \in LockedOps
  /\ Act(req[c])
  /\ alog' = alog \o last'.audit
  /\ resp' = [resp EXCEPT ![c] = last'.reply]
  /\ pc' = [pc EXCEPT ![c] = "done"]
  /\ UNCHANGED req

End(c) ==
  /\ pc[c] = "done"
  /\ pc' = [pc EXCEPT ![c] = "idle"] /\ req' = [req EXCEPT ![c] = NoReq]
  /\ UNCHANGED <<resp, alog>> /\ UNCHANGED vvars

Init ==
  /\ V!Init
  /\ pc = [c \in Clients |-> "idle"] /\ req = [c \in Clients |-> NoReq]
  /\ resp = [c \in Clients |-> V!Plain("ok")] /\ alog = <<>>

(* --- properties ----------------------------------------------------------- *)
TypeOK == V!TypeOK /\ V!Durable

\* Every completed call that disclosed a value, changed the store or was denied has
\* its record in the log already (the record precedes the effect).
HasEntry(r, authorized) ==
  \E i \in DOMAIN alog : /\ alog[i].who = r.who /\ alog[i].name = r.name
                         /\ alog[i].action = V!ActionOf(r.op) /\ alog[i].authorized = authorized
AuditBeforeEffect ==
  \A c \in Clients :
    pc[c] = "done" =>
      /\ resp[c].val # Nil => HasEntry(req[c], TRUE)
      /\ resp[c].class = "denied" => HasEntry(req[c], FALSE)
      /\ (resp[c].class = "ok" /\ req[c].op \in {"put", "activate", "delver", "delete"}) => HasEntry(req[c], TRUE)
=============================================================================
