------------------------------ MODULE Updater ------------------------------
(***************************************************************************)
(* Watchers and updaters of the client store (client/setec/watcher.go,     *)
(* store.go: applyUpdates, NewUpdater, Updater.Get) at the grain of the    *)
(* code's critical sections.                                               *)
(*                                                                         *)
(* The store is abstracted to what matters here: cur[n], the number of     *)
(* versions of n installed so far (the installed version stands for the    *)
(* bytes), changed only by Install(S) -- the end of a successful poll,     *)
(* which installs new values for a set of names and notifies their         *)
(* watchers, all under the store lock.                                     *)
(*                                                                         *)
(*   NewUpdater = Register (watcher appended under the store lock, one-slot *)
(*                notification channel, empty)                             *)
(*              ; InitRead (the secret is read, store lock)                *)
(*              ; InitBuild (the caller's builder runs, outside any lock)  *)
(*   Get        = GetLock (u.mu taken; the notification is drained -- or   *)
(*                there is none and the current value is returned)         *)
(*              ; GetRead (the secret is read, store lock)                 *)
(*              ; GetBuild (the builder runs; on failure the old value     *)
(*                stays and err is set; on success the value is swapped)   *)
(*              ; CloseOld (the replaced value is closed)                  *)
(*              ; GetEnd (u.mu released, value returned)                   *)
(*                                                                         *)
(* Install may happen between any two of these steps: that is the race     *)
(* "updater created / Get running while updates are in flight".            *)
(*                                                                         *)
(* Properties (C15): WakeNotLost, ReturnFresh, NoSpuriousBuild, CloseOnce, *)
(* FailKeeps.                                                              *)
(***************************************************************************)
EXTENDS Integers, Sequences, FiniteSets, TLC

CONSTANTS Names, Upds, Getters, Nil

VARIABLES cur,      \* [Names -> Nat]   installs so far (the installed version is cur[n] + 1)
          w,        \* [Upds -> Nil | [name, ready]]        the watcher: one-slot notification
          u,        \* [Upds -> Nil | [pc, read, val, err, builds, base, holder]]
          failing,  \* [Upds -> BOOLEAN]   the caller's builder fails
          g,        \* [Getters -> Nil | [upd, stage, seen, read, ret, old]]
          closed,   \* sequence of value ids closed so far
          nextId,   \* ids of built values are unique
          out       \* output only

vars == <<cur, w, u, failing, g, closed, nextId, out>>

Val(from, id) == [from |-> from, id |-> id]
Live(x) == u[x] # Nil /\ u[x].pc = "live"
NameOf(x) == w[x].name

Event(kind, rec) == [ev |-> kind] @@ rec

Init ==
  /\ cur = [n \in Names |-> 0]
  /\ w = [x \in Upds |-> Nil] /\ u = [x \in Upds |-> Nil]
  /\ failing = [x \in Upds |-> FALSE]
  /\ g = [t \in Getters |-> Nil]
  /\ closed = <<>> /\ nextId = 1 /\ out = [ev |-> "init"]

\* the end of a successful poll: new versions of the names in S, watchers of exactly those names notified
Install(S) ==
  /\ S # {}
  /\ cur' = [n \in Names |-> IF n \in S THEN cur[n] + 1 ELSE cur[n]]
  /\ w' = [x \in Upds |-> IF w[x] # Nil /\ w[x].name \in S THEN [w[x] EXCEPT !.ready = TRUE] ELSE w[x]]
  /\ out' = Event("install", [names |-> S])
  /\ UNCHANGED <<u, failing, g, closed, nextId>>

Register(x, n) ==
  /\ w[x] = Nil /\ u[x] = Nil
  /\ w' = [w EXCEPT ![x] = [name |-> n, ready |-> FALSE]]
  /\ u' = [u EXCEPT ![x] = [pc |-> "reg", read |-> 0, val |-> Nil, err |-> FALSE, builds |-> 0, base |-> cur[n], holder |-> Nil]]
  /\ out' = Event("register", [u |-> x, name |-> n])
  /\ UNCHANGED <<cur, failing, g, closed, nextId>>

InitRead(x) ==
  /\ u[x] # Nil /\ u[x].pc = "reg"
  /\ u' = [u EXCEPT ![x].pc = "initread", ![x].read = cur[NameOf(x)]]
  /\ out' = Event("initread", [u |-> x])
  /\ UNCHANGED <<cur, w, failing, g, closed, nextId>>

\* the first build: NewUpdater fails (no updater) if the builder fails
InitBuild(x) ==
  /\ u[x] # Nil /\ u[x].pc = "initread"
  /\ IF failing[x]
     THEN /\ u' = [u EXCEPT ![x].pc = "dead"] /\ UNCHANGED nextId
          /\ out' = Event("build", [u |-> x, from |-> u[x].read, id |-> 0, ok |-> FALSE, init |-> TRUE])
     ELSE /\ u' = [u EXCEPT ![x].pc = "live", ![x].val = Val(u[x].read, nextId), ![x].builds = 1]
          /\ nextId' = nextId + 1
          /\ out' = Event("build", [u |-> x, from |-> u[x].read, id |-> nextId, ok |-> TRUE, init |-> TRUE])
  /\ UNCHANGED <<cur, w, failing, g, closed>>

GetBegin(t, x) ==
  /\ g[t] = Nil /\ Live(x)
  /\ g' = [g EXCEPT ![t] = [upd |-> x, stage |-> "wait", seen |-> cur[NameOf(x)], read |-> 0, ret |-> Nil, old |-> Nil]]
  /\ out' = Event("getbegin", [t |-> t, u |-> x])
  /\ UNCHANGED <<cur, w, u, failing, closed, nextId>>

\* u.mu is taken; a pending notification is drained, otherwise the value is returned as it is
GetLock(t) ==
  /\ g[t] # Nil /\ g[t].stage = "wait"
  /\ LET x == g[t].upd IN
     /\ u[x].holder = Nil
     /\ IF w[x].ready
        THEN /\ w' = [w EXCEPT ![x].ready = FALSE]
             /\ u' = [u EXCEPT ![x].holder = t]
             /\ g' = [g EXCEPT ![t].stage = "drained"]
        ELSE /\ g' = [g EXCEPT ![t].stage = "done", ![t].ret = [val |-> u[x].val, err |-> u[x].err]]
             /\ UNCHANGED <<w, u>>
  /\ out' = Event("getlock", [t |-> t])
  /\ UNCHANGED <<cur, failing, closed, nextId>>

GetRead(t) ==
  /\ g[t] # Nil /\ g[t].stage = "drained"
  /\ g' = [g EXCEPT ![t].stage = "read", ![t].read = cur[NameOf(g[t].upd)]]
  /\ out' = Event("getread", [t |-> t])
  /\ UNCHANGED <<cur, w, u, failing, closed, nextId>>

GetBuild(t) ==
  /\ g[t] # Nil /\ g[t].stage = "read"
  /\ LET x == g[t].upd IN
     IF failing[x]
     THEN /\ u' = [u EXCEPT ![x].err = TRUE, ![x].holder = Nil]
          /\ g' = [g EXCEPT ![t].stage = "done", ![t].ret = [val |-> u[x].val, err |-> TRUE]]
          /\ out' = Event("build", [u |-> x, from |-> g[t].read, id |-> 0, ok |-> FALSE, init |-> FALSE])
          /\ UNCHANGED nextId
     ELSE /\ u' = [u EXCEPT ![x].val = Val(g[t].read, nextId), ![x].err = FALSE, ![x].builds = @ + 1]
          /\ g' = [g EXCEPT ![t].stage = "built", ![t].old = u[x].val.id]
          /\ nextId' = nextId + 1
          /\ out' = Event("build", [u |-> x, from |-> g[t].read, id |-> nextId, ok |-> TRUE, init |-> FALSE])
  /\ UNCHANGED <<cur, w, failing, closed>>

\* the replaced value is closed, once, before Get returns
CloseOld(t) ==
  /\ g[t] # Nil /\ g[t].stage = "built"
  /\ LET x == g[t].upd IN
     /\ closed' = Append(closed, g[t].old)
     /\ u' = [u EXCEPT ![x].holder = Nil]
     /\ g' = [g EXCEPT ![t].stage = "done", ![t].old = Nil, ![t].ret = [val |-> u[x].val, err |-> FALSE]]
     /\ out' = Event("vclose", [id |-> g[t].old])
  /\ UNCHANGED <<cur, w, failing, nextId>>

GetEnd(t) ==
  /\ g[t] # Nil /\ g[t].stage = "done"
  /\ g' = [g EXCEPT ![t] = Nil]
  /\ out' = Event("getend", [t |-> t, u |-> g[t].upd, id |-> g[t].ret.val.id, from |-> g[t].ret.val.from, err |-> g[t].ret.err,
                            seen |-> g[t].seen])
  /\ UNCHANGED <<cur, w, u, failing, closed, nextId>>

SetFailing(x, b) ==
  /\ failing[x] # b
  /\ failing' = [failing EXCEPT ![x] = b]
  /\ out' = Event("setfail", [u |-> x, fail |-> b])
  /\ UNCHANGED <<cur, w, u, g, closed, nextId>>

(* --- properties --------------------------------------------------------------------------- *)
Busy(x) == u[x].holder # Nil        \* a Get holds u.mu past the drain

\* no update is lost: whenever no Get is in the middle of rebuilding, the value is built from the newest
\* installed version, or a notification is pending (the next Get rebuilds), or the last attempt failed and
\* says so -- however many installs arrived in between
WakeNotLost ==
  \A x \in Upds : (Live(x) /\ ~Busy(x)) =>
     \/ u[x].val.from = cur[NameOf(x)]
     \/ w[x].ready
     \/ u[x].err

\* what a Get returns is built from a version at least as new as the one installed when the call began --
\* unless the builder failed, in which case the previous value is returned and the error is reported
ReturnFresh ==
  \A t \in Getters : (g[t] # Nil /\ g[t].stage = "done") =>
     \/ g[t].ret.val.from >= g[t].seen
     \/ g[t].ret.err

\* the value is rebuilt only if an install happened since the previous build (or since the updater was created)
NoSpuriousBuild ==
  \A x \in Upds : (u[x] # Nil /\ u[x].pc = "live") => u[x].builds <= 1 + (cur[NameOf(x)] - u[x].base)

\* a replaced value is closed exactly once; the current value is never closed
CloseOnce ==
  /\ \A i, j \in DOMAIN closed : closed[i] = closed[j] => i = j
  /\ \A x \in Upds : Live(x) => \A i \in DOMAIN closed : closed[i] # u[x].val.id

\* every replaced value does get closed: ids handed out = current values + closed ones + the one being closed
AllClosed ==
  (\A t \in Getters : g[t] = Nil \/ g[t].stage # "built") =>
     Cardinality({closed[i] : i \in DOMAIN closed}) + Cardinality({x \in Upds : Live(x)}) = nextId - 1

\* a failing build keeps the previous value and reports the failure
FailKeeps ==
  [][\A x \in Upds : (Live(x) /\ out'.ev = "build" /\ out'.u = x /\ ~out'.ok) => (u'[x].val = u[x].val /\ u'[x].err)]_vars

TypeOK ==
  /\ \A n \in Names : cur[n] \in Nat
  /\ \A x \in Upds : w[x] = Nil \/ w[x].ready \in BOOLEAN
=============================================================================
