------------------------------ MODULE UpdaterInd ------------------------------
(***************************************************************************)
(* Typed twin of Updater.tla (value ids and the close log left out) with   *)
(* an inductive invariant, for Apalache: WakeNotLost and ReturnFresh hold  *)
(* after ANY number of installs and steps, for three updaters and three    *)
(* concurrent Get callers over two names (TLC checks Updater.tla itself    *)
(* exhaustively only up to two installs per name).                         *)
(***************************************************************************)
EXTENDS Integers

CONSTANTS
  \* @type: Set(Str);
  Names,
  \* @type: Set(Str);
  Upds,
  \* @type: Set(Str);
  Getters

\* the instance Apalache proves the invariant inductive for (any number of installs and steps)
CInit == Names = {"a", "b"} /\ Upds = {"u1", "u2", "u3"} /\ Getters = {"t1", "t2", "t3"}

VARIABLES
  \* @type: Str -> Int;
  cur,
  \* @type: Str -> Str;
  wname,      \* the name an updater watches ("" = not registered)
  \* @type: Str -> Bool;
  ready,      \* the one-slot notification
  \* @type: Str -> Str;
  upc,        \* "none" | "reg" | "initread" | "live" | "dead"
  \* @type: Str -> Int;
  uread,
  \* @type: Str -> Int;
  ufrom,      \* what the current value was built from
  \* @type: Str -> Bool;
  uerr,
  \* @type: Str -> Str;
  holder,     \* the Get caller past the drain ("" = none)
  \* @type: Str -> Bool;
  failing,
  \* @type: Str -> Str;
  gupd,
  \* @type: Str -> Str;
  gstage,     \* "idle" | "wait" | "drained" | "read" | "built" | "done"
  \* @type: Str -> Int;
  gread,
  \* @type: Str -> Int;
  gseen,
  \* @type: Str -> Int;
  gretfrom,
  \* @type: Str -> Bool;
  greterr

vars == <<cur, wname, ready, upc, uread, ufrom, uerr, holder, failing, gupd, gstage, gread, gseen, gretfrom, greterr>>

Init ==
  /\ cur = [n \in Names |-> 0]
  /\ wname = [x \in Upds |-> ""] /\ ready = [x \in Upds |-> FALSE] /\ upc = [x \in Upds |-> "none"]
  /\ uread = [x \in Upds |-> 0] /\ ufrom = [x \in Upds |-> 0] /\ uerr = [x \in Upds |-> FALSE]
  /\ holder = [x \in Upds |-> ""] /\ failing = [x \in Upds |-> FALSE]
  /\ gupd = [t \in Getters |-> ""] /\ gstage = [t \in Getters |-> "idle"] /\ gread = [t \in Getters |-> 0]
  /\ gseen = [t \in Getters |-> 0] /\ gretfrom = [t \in Getters |-> 0] /\ greterr = [t \in Getters |-> FALSE]

Install(S) ==
  /\ S # {}
  /\ cur' = [n \in Names |-> IF n \in S THEN cur[n] + 1 ELSE cur[n]]
  /\ ready' = [x \in Upds |-> IF wname[x] \in S THEN TRUE ELSE ready[x]]
  /\ UNCHANGED <<wname, upc, uread, ufrom, uerr, holder, failing, gupd, gstage, gread, gseen, gretfrom, greterr>>

Register(x, n) ==
  /\ upc[x] = "none"
  /\ wname' = [wname EXCEPT ![x] = n] /\ ready' = [ready EXCEPT ![x] = FALSE] /\ upc' = [upc EXCEPT ![x] = "reg"]
  /\ UNCHANGED <<cur, uread, ufrom, uerr, holder, failing, gupd, gstage, gread, gseen, gretfrom, greterr>>

InitRead(x) ==
  /\ upc[x] = "reg"
  /\ upc' = [upc EXCEPT ![x] = "initread"] /\ uread' = [uread EXCEPT ![x] = cur[wname[x]]]
  /\ UNCHANGED <<cur, wname, ready, ufrom, uerr, holder, failing, gupd, gstage, gread, gseen, gretfrom, greterr>>

InitBuild(x) ==
  /\ upc[x] = "initread"
  /\ IF failing[x]
     THEN upc' = [upc EXCEPT ![x] = "dead"] /\ UNCHANGED ufrom
     ELSE upc' = [upc EXCEPT ![x] = "live"] /\ ufrom' = [ufrom EXCEPT ![x] = uread[x]]
  /\ UNCHANGED <<cur, wname, ready, uread, uerr, holder, failing, gupd, gstage, gread, gseen, gretfrom, greterr>>

GetBegin(t, x) ==
  /\ gstage[t] = "idle" /\ upc[x] = "live"
  /\ gupd' = [gupd EXCEPT ![t] = x] /\ gstage' = [gstage EXCEPT ![t] = "wait"] /\ gseen' = [gseen EXCEPT ![t] = cur[wname[x]]]
  /\ UNCHANGED <<cur, wname, ready, upc, uread, ufrom, uerr, holder, failing, gread, gretfrom, greterr>>

GetLock(t) ==
  /\ gstage[t] = "wait"
  /\ LET x == gupd[t] IN
     /\ holder[x] = ""
     /\ IF ready[x]
        THEN /\ ready' = [ready EXCEPT ![x] = FALSE] /\ holder' = [holder EXCEPT ![x] = t]
             /\ gstage' = [gstage EXCEPT ![t] = "drained"] /\ UNCHANGED <<gretfrom, greterr>>
        ELSE /\ gstage' = [gstage EXCEPT ![t] = "done"]
             /\ gretfrom' = [gretfrom EXCEPT ![t] = ufrom[x]] /\ greterr' = [greterr EXCEPT ![t] = uerr[x]]
             /\ UNCHANGED <<ready, holder>>
  /\ UNCHANGED <<cur, wname, upc, uread, ufrom, uerr, failing, gupd, gread, gseen>>

GetRead(t) ==
  /\ gstage[t] = "drained"
  /\ gstage' = [gstage EXCEPT ![t] = "read"] /\ gread' = [gread EXCEPT ![t] = cur[wname[gupd[t]]]]
  /\ UNCHANGED <<cur, wname, ready, upc, uread, ufrom, uerr, holder, failing, gupd, gseen, gretfrom, greterr>>

GetBuild(t) ==
  /\ gstage[t] = "read"
  /\ LET x == gupd[t] IN
     IF failing[x]
     THEN /\ uerr' = [uerr EXCEPT ![x] = TRUE] /\ holder' = [holder EXCEPT ![x] = ""]
          /\ gstage' = [gstage EXCEPT ![t] = "done"]
          /\ gretfrom' = [gretfrom EXCEPT ![t] = ufrom[x]] /\ greterr' = [greterr EXCEPT ![t] = TRUE]
          /\ UNCHANGED ufrom
     ELSE /\ ufrom' = [ufrom EXCEPT ![x] = gread[t]] /\ uerr' = [uerr EXCEPT ![x] = FALSE]
          /\ gstage' = [gstage EXCEPT ![t] = "built"]
          /\ UNCHANGED <<holder, gretfrom, greterr>>
  /\ UNCHANGED <<cur, wname, ready, upc, uread, failing, gupd, gread, gseen>>

CloseOld(t) ==
  /\ gstage[t] = "built"
  /\ LET x == gupd[t] IN
     /\ holder' = [holder EXCEPT ![x] = ""] /\ gstage' = [gstage EXCEPT ![t] = "done"]
     /\ gretfrom' = [gretfrom EXCEPT ![t] = ufrom[x]] /\ greterr' = [greterr EXCEPT ![t] = FALSE]
  /\ UNCHANGED <<cur, wname, ready, upc, uread, ufrom, uerr, failing, gupd, gread, gseen>>

GetEnd(t) ==
  /\ gstage[t] = "done"
  /\ gstage' = [gstage EXCEPT ![t] = "idle"] /\ gupd' = [gupd EXCEPT ![t] = ""]
  /\ gread' = [gread EXCEPT ![t] = 0] /\ gseen' = [gseen EXCEPT ![t] = 0]
  /\ gretfrom' = [gretfrom EXCEPT ![t] = 0] /\ greterr' = [greterr EXCEPT ![t] = FALSE]
  /\ UNCHANGED <<cur, wname, ready, upc, uread, ufrom, uerr, holder, failing>>

SetFailing(x) ==
  /\ failing' = [failing EXCEPT ![x] = ~failing[x]]
  /\ UNCHANGED <<cur, wname, ready, upc, uread, ufrom, uerr, holder, gupd, gstage, gread, gseen, gretfrom, greterr>>

Next ==
  \/ \E S \in SUBSET Names : Install(S)
  \/ \E x \in Upds, n \in Names : Register(x, n)
  \/ \E x \in Upds : InitRead(x) \/ InitBuild(x) \/ SetFailing(x)
  \/ \E t \in Getters, x \in Upds : GetBegin(t, x)
  \/ \E t \in Getters : GetLock(t) \/ GetRead(t) \/ GetBuild(t) \/ CloseOld(t) \/ GetEnd(t)

(* --- the properties of Updater.tla ---------------------------------------------------------- *)
WakeNotLost ==
  \A x \in Upds : (upc[x] = "live" /\ holder[x] = "") => (ufrom[x] = cur[wname[x]] \/ ready[x] \/ uerr[x])
ReturnFresh ==
  \A t \in Getters : gstage[t] = "done" => (gretfrom[t] >= gseen[t] \/ greterr[t])

(* --- the inductive invariant ------------------------------------------------------------------ *)
Busy(t) == gstage[t] \in {"drained", "read", "built"}
TypeOK ==
  /\ cur \in [Names -> Int] /\ wname \in [Upds -> Names \cup {""}] /\ ready \in [Upds -> BOOLEAN]
  /\ upc \in [Upds -> {"none", "reg", "initread", "live", "dead"}] /\ uread \in [Upds -> Int] /\ ufrom \in [Upds -> Int]
  /\ uerr \in [Upds -> BOOLEAN] /\ holder \in [Upds -> Getters \cup {""}] /\ failing \in [Upds -> BOOLEAN]
  /\ gupd \in [Getters -> Upds \cup {""}] /\ gstage \in [Getters -> {"idle", "wait", "drained", "read", "built", "done"}]
  /\ gread \in [Getters -> Int] /\ gseen \in [Getters -> Int] /\ gretfrom \in [Getters -> Int] /\ greterr \in [Getters -> BOOLEAN]

IndInv ==
  /\ TypeOK
  /\ \A n \in Names : cur[n] >= 0
  /\ \A x \in Upds : (upc[x] = "none") = (wname[x] = "")
  /\ \A x \in Upds : upc[x] \in {"none", "reg"} => ~ready[x] \/ upc[x] = "reg"
  /\ \A x \in Upds : upc[x] = "none" => ~ready[x]
  /\ \A t \in Getters : (gstage[t] = "idle") = (gupd[t] = "")
  /\ \A t \in Getters : gstage[t] # "idle" => upc[gupd[t]] = "live"
  /\ \A x \in Upds : holder[x] # "" => (gupd[holder[x]] = x /\ Busy(holder[x]))
  /\ \A t \in Getters : Busy(t) => holder[gupd[t]] = t
  /\ WakeNotLost
  /\ \A x \in Upds : upc[x] = "initread" => (uread[x] = cur[wname[x]] \/ ready[x])
  /\ \A x \in Upds : upc[x] = "live" => ufrom[x] <= cur[wname[x]]
  /\ \A x \in Upds : upc[x] = "initread" => uread[x] <= cur[wname[x]]
  /\ \A t \in Getters : gstage[t] = "read" => gread[t] <= cur[wname[gupd[t]]]
  /\ \A t \in Getters : gstage[t] = "read" => (gread[t] = cur[wname[gupd[t]]] \/ ready[gupd[t]])
  /\ \A t \in Getters : gstage[t] = "built" => (ufrom[gupd[t]] = cur[wname[gupd[t]]] \/ ready[gupd[t]])
  /\ \A t \in Getters : gstage[t] # "idle" => gseen[t] <= cur[wname[gupd[t]]]
  /\ \A t \in Getters : gstage[t] = "read" => gread[t] >= gseen[t]
  /\ \A t \in Getters : gstage[t] = "built" => ufrom[gupd[t]] >= gseen[t]
  /\ ReturnFresh

IndInit == TypeOK /\ IndInv
=============================================================================
