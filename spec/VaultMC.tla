------------------------------- MODULE VaultMC -------------------------------
(***************************************************************************)
(* Bounded instances of Vault for TLC: concrete names, values, callers     *)
(* (rule sets), fault alphabet; the Next relation that offers every        *)
(* operation with every argument in every state; and the emission of the   *)
(* labelled transition graph (EDGE lines) that the Go harness replays on   *)
(* the real db.DB / HTTP handlers.                                         *)
(***************************************************************************)
EXTENDS Naturals, Sequences, FiniteSets, TLC, Json

CONSTANTS NameSet,     \* subset of {"A", "B", "_internal/X", ""}
          Vals, MaxVer, Nil,
          CallerMode,  \* "su": one all-access caller; "few": four callers; "acl": the whole rule-set family below
          Faults,      \* subset of {"none", "auditWrite", "auditSync", "save"}
          WithReopen,  \* offer Reopen from every state
          EmitEdges    \* print EDGE lines

Star == 42
Str(s) == CASE s = "A" -> <<65>> [] s = "B" -> <<66>> [] s = "Z" -> <<90>> [] s = "" -> <<>>
            [] s = "*" -> <<42>> [] s = "A*" -> <<65, 42>> [] s = "*A" -> <<42, 65>> [] s = "A*A" -> <<65, 42, 65>>
            [] s = "_internal/X" -> <<95, 105, 110, 116, 101, 114, 110, 97, 108, 47, 88>>
            [] s = "_internal/*" -> <<95, 105, 110, 116, 101, 114, 110, 97, 108, 47, 42>>
            [] s = "_*" -> <<95, 42>>
CpImpl(n) == Str(n)
InternalPrefix == <<95, 105, 110, 116, 101, 114, 110, 97, 108, 47>>
ReservedImpl(n) == LET c == Str(n) IN Len(c) >= 10 /\ SubSeq(c, 1, 10) = InternalPrefix

VARIABLES sec, disk, auditOK, last
V == INSTANCE Vault WITH Names <- NameSet, Cp <- CpImpl, Reserved <- ReservedImpl

(* --- callers -------------------------------------------------------------- *)
AllActs == <<"get", "info", "put", "activate", "delete">>
ActSet == {"get", "info", "put", "activate", "delete"}
PatIds == {"*", "A", "A*", "*A", "B", "_internal/*"}
Others(a) == SelectSeq(AllActs, LAMBDA x : x # a)
CallerPairs ==
  {<<"su", <<[action |-> AllActs, secret |-> <<Str("*")>>]>>>>, <<"none", <<>>>>}
  \cup {<<a \o ":" \o p, <<[action |-> <<a>>, secret |-> <<Str(p)>>]>>>> : a \in ActSet, p \in PatIds}
  \* split: action a only on a pattern matching nothing here, every other action on everything
  \cup {<<"split:" \o a, <<[action |-> <<a>>, secret |-> <<Str("Z")>>],
                           [action |-> Others(a), secret |-> <<Str("*")>>]>>>> : a \in ActSet}
  \* several rules, several patterns, several actions
  \cup {<<"multi", <<[action |-> <<"get", "info">>, secret |-> <<Str("B"), Str("A*")>>],
                     [action |-> <<"put">>, secret |-> <<Str("*A")>>],
                     [action |-> <<>>, secret |-> <<Str("*")>>],
                     [action |-> <<"delete", "activate">>, secret |-> <<>>]>>>>}
  \* a pattern whose literal head and tail overlap in an existing name: "A*A" must not match "A"
  \cup {<<"overlap", <<[action |-> AllActs, secret |-> <<Str("A*A")>>]>>>>}
CallerTab == [c \in {x[1] : x \in CallerPairs} |-> (CHOOSE x \in CallerPairs : x[1] = c)[2]]
Callers == CASE CallerMode = "su" -> {"su"}
             [] CallerMode = "few" -> {"su", "none", "get:A*", "split:put"}
             [] OTHER -> DOMAIN CallerTab
RulesOf(c) == CallerTab[c]

(* --- behaviour -------------------------------------------------------------- *)
VerArgs == 0..(MaxVer + 1)
Init == V!Init
Next ==
  \/ \E c \in Callers, f \in Faults :
       \/ V!List(c, RulesOf(c), f)
       \/ \E n \in NameSet :
            \/ V!Info(c, RulesOf(c), n, f)
            \/ V!Get(c, RulesOf(c), n, f)
            \/ V!Delete(c, RulesOf(c), n, f)
            \/ \E v \in Vals : V!Put(c, RulesOf(c), n, v, f)
            \/ \E k \in VerArgs :
                 \/ V!GetVersion(c, RulesOf(c), n, k, f)
                 \/ V!GetCond(c, RulesOf(c), n, k, f)
                 \/ V!Activate(c, RulesOf(c), n, k, f)
                 \/ V!DeleteVersion(c, RulesOf(c), n, k, f)
  \/ WithReopen /\ V!Reopen

vars == <<sec, disk, auditOK, last>>
Spec == Init /\ [][Next]_vars

View == <<sec, auditOK>>        \* disk = sec (Durable); last is output only

(* --- what the harness sees --------------------------------------------------- *)
Proj(s) == {[name |-> n, active |-> s[n].active, latest |-> s[n].latest,
             vers |-> {[v |-> v, val |-> s[n].vers[v]] : v \in V!VersionsOf(s[n])}]
            : n \in {m \in NameSet : s[m] # Nil}}

Emit == EmitEdges =>
  PrintT(<<"EDGE", ToJson([from |-> Proj(sec), fa |-> auditOK, op |-> last', to |-> Proj(sec'), ta |-> auditOK'])>>)

EmitCallers == PrintT(<<"CALLERS", ToJson([c \in Callers |-> RulesOf(c)])>>)
ASSUME EmitEdges => EmitCallers

(* --- properties ------------------------------------------------------------ *)
TypeOK == V!TypeOK
Durable == V!Durable

\* C01: a call without a matching grant is refused, reveals nothing, changes nothing,
\* and its reply does not depend on whether the secret exists.
GateOps == {"info", "get", "getver", "getcond", "put", "activate", "delver", "delete"}
AclGate ==
  (last'.op \in GateOps /\ ~V!Allowed(RulesOf(last'.who), V!ActionOf(last'.op), last'.name)) =>
     /\ last'.reply \in {V!Plain("denied"), V!Plain("error")}
     /\ (last'.reply = V!Plain("error") => CpImpl(last'.name) = <<>> /\ last'.op \in {"put", "activate"})
     /\ UNCHANGED <<sec, disk>> /\ ~last'.saved
ListExact ==
  (last'.op = "list" /\ last'.reply.class = "ok") =>
     last'.reply.list = {V!InfoOf(n) : n \in {m \in NameSet : sec[m] # Nil /\ V!Allowed(RulesOf(last'.who), "info", m)}}
\* any effect or disclosure implies a grant
EffectImpliesGrant ==
  (last'.op \in GateOps /\ (sec' # sec \/ last'.reply.val # Nil \/ last'.reply.info # Nil \/ last'.reply.class \in {"ok", "notchanged", "notfound"}))
     => V!Allowed(RulesOf(last'.who), V!ActionOf(last'.op), last'.name)

StepOK == [][ /\ V!StepLemmas /\ AclGate /\ ListExact /\ EffectImpliesGrant
              /\ V!AuditFirst' /\ V!CondGet' /\ V!ValuesOnlyFromGets' /\ V!KekOnlyAtOpen' ]_vars
=============================================================================
