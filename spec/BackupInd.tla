------------------------------ MODULE BackupInd ------------------------------
(***************************************************************************)
(* Inductive invariant of Backup for Apalache (unbounded clock, unbounded  *)
(* number of writes): IndInv holds initially and is preserved by every     *)
(* step, and it implies Consistent, RateLimit and "success never covers    *)
(* more than was read".  The upload history `ups` is abstracted to its     *)
(* last element (lastAt), which is all RateLimit needs inductively.        *)
(***************************************************************************)
EXTENDS Integers, Sequences

VARIABLES
  \* @type: Int;
  gen,
  \* @type: Int;
  last,
  \* @type: Str;
  pc,
  \* @type: { g: Int, body: Int, since: Int };
  cur,
  \* @type: Int;
  until,
  \* @type: Str;
  s3,
  \* @type: Bool;
  cancelled,
  \* @type: Int;
  now,
  \* @type: Int;
  nups,
  \* @type: Int;
  lastAt,
  \* @type: Int;
  lastBody

vars == <<gen, last, pc, cur, until, s3, cancelled, now, nups, lastAt, lastBody>>

Minute == 60000
MaxWait == 900000       \* any value >= Minute; the invariant does not depend on it
UploadTimeout == 300000
NoCur == [g |-> 0, body |-> 0, since |-> 0]

Init ==
  /\ gen = 1 /\ last = 0 /\ pc = "check" /\ cur = NoCur /\ until = 0 /\ s3 = "ok" /\ cancelled = FALSE
  /\ now = 0 /\ nups = 0 /\ lastAt = 0 /\ lastBody = 0

Check ==
  /\ pc = "check"
  /\ IF gen # last
     THEN pc' = "read" /\ cur' = [NoCur EXCEPT !.g = gen] /\ UNCHANGED until
     ELSE pc' = "wait" /\ until' = now + Minute /\ UNCHANGED cur
  /\ UNCHANGED <<gen, last, s3, cancelled, now, nups, lastAt, lastBody>>
Read ==
  /\ pc = "read" /\ cur' = [cur EXCEPT !.body = gen] /\ pc' = "ubegin"
  /\ UNCHANGED <<gen, last, until, s3, cancelled, now, nups, lastAt, lastBody>>
UBegin ==
  /\ pc = "ubegin"
  /\ IF cancelled
     THEN pc' = "wait" /\ until' = now + Minute /\ UNCHANGED <<cur, nups, lastAt, lastBody>>
     ELSE /\ pc' = "upload" /\ cur' = [cur EXCEPT !.since = now]
          /\ nups' = nups + 1 /\ lastAt' = now /\ lastBody' = cur.body /\ UNCHANGED until
  /\ UNCHANGED <<gen, last, s3, cancelled, now>>
MustFail == cancelled
UEnd(ok) ==
  /\ pc = "upload"
  /\ (ok => (s3 = "ok" /\ ~MustFail)) /\ (~ok => (s3 = "fail" \/ s3 = "hold" \/ MustFail))
  /\ IF ok THEN (last' \in Int /\ last' >= cur.g /\ last' <= cur.body) ELSE last' = last
  /\ pc' = "wait" /\ until' = now + Minute
  /\ UNCHANGED <<gen, cur, s3, cancelled, now, nups, lastAt, lastBody>>
WaitOver ==
  /\ pc = "wait" /\ ~cancelled /\ now >= until /\ pc' = "check"
  /\ UNCHANGED <<gen, last, cur, until, s3, cancelled, now, nups, lastAt, lastBody>>
Exit ==
  /\ pc = "wait" /\ cancelled /\ pc' = "exited"
  /\ UNCHANGED <<gen, last, cur, until, s3, cancelled, now, nups, lastAt, lastBody>>
DbWrite == gen' = gen + 1 /\ UNCHANGED <<last, pc, cur, until, s3, cancelled, now, nups, lastAt, lastBody>>
S3Mode == s3' \in {"ok", "fail", "hold"} /\ UNCHANGED <<gen, last, pc, cur, until, cancelled, now, nups, lastAt, lastBody>>
Cancel == cancelled' = TRUE /\ UNCHANGED <<gen, last, pc, cur, until, s3, now, nups, lastAt, lastBody>>
Urgent ==
  \/ pc \in {"check", "read", "ubegin"}
  \/ (pc = "wait" /\ (cancelled \/ now >= until + (MaxWait - Minute)))
  \/ (pc = "upload" /\ (s3 # "hold" \/ MustFail))
Advance ==
  /\ ~Urgent
  /\ now' \in Int /\ now' > now
  /\ (pc = "wait" => now' <= until + (MaxWait - Minute))
  /\ UNCHANGED <<gen, last, pc, cur, until, s3, cancelled, nups, lastAt, lastBody>>
Next == Check \/ Read \/ UBegin \/ UEnd(TRUE) \/ UEnd(FALSE) \/ WaitOver \/ Exit \/ DbWrite \/ S3Mode \/ Cancel \/ Advance

\* the next upload can begin no earlier than a minute after the last one began
IndInv ==
  /\ pc \in {"check", "read", "ubegin", "upload", "wait", "exited"} /\ s3 \in {"ok", "fail", "hold"}
  /\ gen >= 1 /\ last >= 0 /\ last <= gen /\ now >= 0 /\ nups >= 0
  /\ (nups > 0 => (lastBody >= 1 /\ lastBody <= gen /\ lastAt <= now))                  \* Consistent
  /\ (pc \in {"read", "ubegin", "upload"} => (cur.g >= 1 /\ cur.g <= gen /\ cur.g # last))
  /\ (pc \in {"ubegin", "upload"} => (cur.body >= cur.g /\ cur.body <= gen))            \* success covers no more than was read
  /\ (pc = "upload" => (cur.since = lastAt /\ nups > 0))
  /\ (pc = "wait" => until <= now + Minute)
  /\ ((nups > 0 /\ pc \in {"check", "read", "ubegin"}) => now >= lastAt + Minute)       \* RateLimit, inductively
  /\ ((nups > 0 /\ pc = "wait") => until >= lastAt + Minute)

\* an arbitrary state satisfying the invariant (the induction hypothesis)
IndInit ==
  /\ gen \in Int /\ last \in Int /\ pc \in {"check", "read", "ubegin", "upload", "wait", "exited"}
  /\ cur \in [g : Int, body : Int, since : Int] /\ until \in Int /\ s3 \in {"ok", "fail", "hold"}
  /\ cancelled \in BOOLEAN /\ now \in Int /\ nups \in Int /\ lastAt \in Int /\ lastBody \in Int
  /\ IndInv

\* what a step adds to the history keeps the rate limit: a new upload begins at least a minute after the previous
RateLimitStep == (nups' = nups + 1 /\ nups > 0) => lastAt' >= lastAt + Minute
=============================================================================
