-------------------------------- MODULE CliMC --------------------------------
(***************************************************************************)
(* Bounded instance of Cli for TLC: every command with every argument,     *)
(* every token ever printed (plus none and a made-up one) offered to both  *)
(* deletes, the confirmation window moving on at any moment.               *)
(***************************************************************************)
EXTENDS Naturals, Sequences, FiniteSets, TLC

CONSTANTS NameSet, Vals, MaxVer, Nil, MaxWin

Str(s) == CASE s = "A" -> <<65>> [] s = "B" -> <<66>> [] s = "" -> <<>>
            [] s = "_internal/X" -> <<95, 105, 110, 116, 101, 114, 110, 97, 108, 47, 88>>
CpImpl(n) == Str(n)
InternalPrefix == <<95, 105, 110, 116, 101, 114, 110, 97, 108, 47>>
ReservedImpl(n) == LET c == Str(n) IN Len(c) >= 10 /\ SubSeq(c, 1, 10) = InternalPrefix

VARIABLES sec, disk, auditOK, last, win, issued, out
C == INSTANCE Cli WITH Names <- NameSet, Cp <- CpImpl, Reserved <- ReservedImpl

VerArgs == 0..(MaxVer + 1)
Garbage == C!Token([kind |-> "none", name |-> "", ver |-> 0], 0)
Offered == {Nil, Garbage} \cup issued

Init == C!Init
Next ==
  \/ C!CmdList
  \/ C!Tick
  \/ \E n \in NameSet :
       \/ C!CmdInfo(n)
       \/ \E v \in Vals : C!CmdPut(n, v)
       \/ \E k \in VerArgs, f \in BOOLEAN : C!CmdGet(n, k, f)
       \/ \E vs \in VerArgs : C!CmdActivate(n, vs)
       \/ C!CmdActivateBad(n)
       \/ \E vs \in VerArgs, t \in Offered : C!CmdDeleteVersion(n, vs, t)
       \/ \E t \in Offered : C!CmdDeleteVersionBad(n, t)
       \/ \E t \in Offered : C!CmdDeleteSecret(n, t)

vars == <<sec, disk, auditOK, last, win, issued, out>>
Spec == Init /\ [][Next]_vars

\* issued only grows and only matters through its current-window part; keep the view small
View == <<sec, win, {t \in issued : t.win = win}>>

TypeOK == C!V!TypeOK /\ win \in 1..MaxWin
Durable == C!V!Durable
StepOK == C!StepOK

\* the two-step protocol is usable: whatever was refused for want of a token can be done with the token printed
TokenWorks ==
  \A t \in issued : t.win = win =>
     (t.req.kind = "delete-secret" => ENABLED C!CmdDeleteSecret(t.req.name, t))
=============================================================================
