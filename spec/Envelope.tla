------------------------------ MODULE Envelope ------------------------------
(***************************************************************************)
(* The at-rest envelope of the database file (C05), with symbolic          *)
(* cryptography.  A file is                                                *)
(*    [version, dek: Wrap(kek, dekId, ad), db: Seal(dekId, content, ad)]   *)
(* where Wrap/Seal are authenticated encryptions: they open only under     *)
(* the same key, with the same associated data, if not a bit was changed.  *)
(* Open succeeds iff version = 1, the wrapped key opens under the supplied *)
(* key-encryption key with associated data "setec DEK v1", and the sealed  *)
(* database opens under that data-encryption key with associated data      *)
(* "setec database v1".                                                    *)
(*                                                                         *)
(* The adversary edits the stored bytes: flips inside any of the three     *)
(* fields, truncates, splices a field of ANOTHER valid database (same or   *)
(* different KEK) in, or the wrong KEK is supplied.  TamperEvident: the    *)
(* result is an error or exactly the original contents -- never different  *)
(* contents.  (Replacing the whole file by another complete valid file of  *)
(* the same KEK is rollback/substitution, undetectable by design and       *)
(* excluded, as the property says.)                                        *)
(***************************************************************************)
EXTENDS Naturals, FiniteSets, TLC

CONSTANTS KEKs, Deks, Contents

Wrap(k, d, ad)  == [key |-> k, dek |-> d, ad |-> ad, intact |-> TRUE]
Seal(d, c, ad)  == [dek |-> d, content |-> c, ad |-> ad, intact |-> TRUE]
File(k, d, c)   == [version |-> 1, parses |-> TRUE, dek |-> Wrap(k, d, "setec DEK v1"), db |-> Seal(d, c, "setec database v1")]

Err == "error"
Open(f, k) ==
  IF ~f.parses THEN Err
  ELSE IF f.version # 1 THEN Err
  ELSE IF ~f.dek.intact \/ f.dek.key # k \/ f.dek.ad # "setec DEK v1" THEN Err
  ELSE IF ~f.db.intact \/ f.db.dek # f.dek.dek \/ f.db.ad # "setec database v1" THEN Err
  ELSE f.db.content

\* every valid file that can exist: distinct databases have distinct DEKs
Valid == {File(k, d, c) : k \in KEKs, d \in Deks, c \in Contents}

VARIABLES orig, origKek, cur, useKek
vars == <<orig, origKek, cur, useKek>>

Init == /\ orig \in Valid /\ origKek = orig.dek.key /\ cur = orig /\ useKek = orig.dek.key

FlipVersion == cur' = [cur EXCEPT !.version = 2] /\ UNCHANGED <<orig, origKek, useKek>>
FlipInDek   == cur' = [cur EXCEPT !.dek.intact = FALSE] /\ UNCHANGED <<orig, origKek, useKek>>
FlipInDb    == cur' = [cur EXCEPT !.db.intact = FALSE] /\ UNCHANGED <<orig, origKek, useKek>>
Truncate    == cur' = [cur EXCEPT !.parses = FALSE] /\ UNCHANGED <<orig, origKek, useKek>>
\* a flip that only changes the spelling of a field name in a way the decoder tolerates (case) or hits nothing
Harmless    == UNCHANGED vars
\* a PART of another database: one field at a time (both fields together is wholesale substitution)
SpliceDek   == cur.db.dek = orig.dek.dek /\ \E o \in Valid : o.dek.dek # orig.dek.dek /\ cur' = [cur EXCEPT !.dek = o.dek] /\ UNCHANGED <<orig, origKek, useKek>>
SpliceDb    == cur.dek.dek = orig.dek.dek /\ \E o \in Valid : o.dek.dek # orig.dek.dek /\ cur' = [cur EXCEPT !.db = o.db] /\ UNCHANGED <<orig, origKek, useKek>>
\* context confusion: a sealed blob moved into the other field keeps its own associated data
CrossField  == cur' = [cur EXCEPT !.db = [dek |-> cur.dek.dek, content |-> cur.db.content, ad |-> "setec DEK v1", intact |-> TRUE]]
               /\ UNCHANGED <<orig, origKek, useKek>>
WrongKek    == \E k \in KEKs : useKek' = k /\ UNCHANGED <<orig, origKek, cur>>

Next == FlipVersion \/ FlipInDek \/ FlipInDb \/ Truncate \/ Harmless \/ SpliceDek \/ SpliceDb \/ CrossField \/ WrongKek
Spec == Init /\ [][Next]_vars

TamperEvident == Open(cur, useKek) \in {Err, orig.db.content}
OnlyOwnKek    == useKek # origKek => Open(cur, useKek) = Err
Untouched     == (cur = orig /\ useKek = origKek) => Open(cur, useKek) = orig.db.content
=============================================================================
