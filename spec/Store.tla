-------------------------------- MODULE Store --------------------------------
(***************************************************************************)
(* The setec client store (client/setec/store.go) as a state machine at    *)
(* the grain of its critical sections: construction (cache load, stubs,    *)
(* init rounds with back-off), polls (snapshot / one request at a time /   *)
(* apply-or-abort / cache flush), lookups of undeclared names (single      *)
(* flight per name, per-caller deadlines, retry after somebody else's      *)
(* cancellation), handles and reads (last-access stamps), expiry, Close    *)
(* and restart from the cache -- together with the service it polls and a  *)
(* virtual clock.                                                          *)
(*                                                                         *)
(* Time is in milliseconds since the store's clock started; last-access    *)
(* stamps are whole seconds, as in the cache document.                     *)
(*                                                                         *)
(* The service: svc[n].ver is the active version of n (0: no such secret); *)
(* the value of (n, v) is a function of n and v, so versions stand for     *)
(* values.  A request is answered when the environment releases it         *)
(* (Respond), by the service state at that moment, or fails.               *)
(*                                                                         *)
(* Properties: C10 (InitOK, NoRefetch, Backoff via wake times, CtxPrompt), *)
(* C11 (PollConverges, PollAbortKeeps, Coalesce), C12 (HandleNeverDangles, *)
(* ReadServed, ReadOrder), C13 (CacheVersions, restart), C16 (LookupGate,  *)
(* SingleFlight, Bounded, NotCollateral), C19 (DropRule).                  *)
(***************************************************************************)
EXTENDS Integers, Sequences, FiniteSets, TLC

CONSTANTS Names,      \* secret names known to the service
          MaxVer,
          Nil,
          Callers,    \* identities of API callers (each has at most one call in flight)
          ZeroStamp   \* a last-access stamp of 0 in the cache document, relative to the clock start (very negative)

VARIABLES cfg,      \* configuration of the running store
          svc,      \* [Names -> [ver, mode]]
          m,        \* the active set: [Names -> Nil | Stub | [ver, la, declared]]
          handles,  \* names for which a Secret handle has been handed out
          cache,    \* [kind: "none"|"empty"|"readerr"|"garbage"|"doc", doc: [Names -> Nil | [ver, la]], wfail: BOOLEAN]
          phase,    \* "config" | "init" | "running" | "failed"       (Close does not end the store's usefulness)
          closed,   \* "open" | "closing" (Close called, the poller is on its way out) | "closed" (the poller is gone)
          ini,      \* construction in progress: [tried, missing, wait, wake, deadline, flush]
          poll,     \* Nil | [snap, todo, upd (Nil | Del | version), failed, waiters, leader, act]
          lk,       \* [Names -> Nil | [leader, members, dead, sent]] lookup flights (dead: the leader's context has ended; sent: its one request is out)
          rq,       \* [Origins -> [Names -> Nil | [kind, old]]]     requests in flight at the service client, by who sent them
          call,     \* [Callers -> Nil | [kind, name, own, cancelled, start]]
          now,
          hist,     \* history: [served, inst, supplied] and the store's metrics [polls, pollErrs, fetches]
          out       \* output only: what just became observable

vars == <<cfg, svc, m, handles, cache, phase, closed, ini, poll, lk, rq, call, now, hist, out>>

Stub == [stub |-> TRUE]                      \* a declared name without a value yet (construction only)
Known(mm) == {n \in Names : mm[n] # Nil /\ mm[n] # Stub}
Stubs(mm) == {n \in Names : mm[n] = Stub}
IsRec(x) == x # Nil /\ x # Stub
Del == -1                                    \* poll update: "delete me"

Sec(t) == t \div 1000
NoDoc == [n \in Names |-> Nil]
Proj(mm) == [n \in Names |-> IF IsRec(mm[n]) THEN [ver |-> mm[n].ver, la |-> mm[n].la] ELSE Nil]

\* requests in flight, by origin ("init" | "poll" | "lookup")
Origins == {"init", "poll", "lookup"}       \* a poll and a lookup may each have a request for the same name in flight
NoReqs == [b \in Origins |-> [n \in Names |-> Nil]]
ReqsBy(b) == {k \in Names : rq[b][k] # Nil}

\* (structs: the names declared through tagged struct fields, one per field, in any order; they are part of `declared`)
NoCfg == [declared |-> {}, allowLookup |-> FALSE, expiry |-> 0, hasCache |-> FALSE, fileClient |-> FALSE, auto |-> FALSE, structs |-> <<>>]
StructNames == {cfg.structs[i] : i \in DOMAIN cfg.structs}
NoIni == [tried |-> {}, missing |-> 0, from |-> 0, wake |-> Nil, deadline |-> Nil, flush |-> FALSE, got |-> {}]
\* Between rounds of construction the store pauses: for a positive time and "at most a few seconds" (the code doubles
\* from 1 ms to 4096 ms; the property fixes only the bound, so does the specification).
MaxPause == 5000

Event(kind, rec) == [ev |-> kind] @@ rec

(* --- the cache -------------------------------------------------------------- *)
\* A flush rewrites the whole document (or fails, leaving the old one).
Flush(mm) ==
  IF cache.kind = "none" THEN cache
  ELSE IF cache.wfail THEN cache
  ELSE [cache EXCEPT !.kind = "doc", !.doc = Proj(mm)]
Flushes == cache.kind # "none"

(* --- the service ------------------------------------------------------------- *)
\* outcome of releasing request r for name n now: [k |-> "err" | "same" | "ctx" | "val", v]
Ans(k, v) == [k |-> k, v |-> v]
Answer(n, r, forceErr) ==
  IF forceErr \/ svc[n].mode = "fail" \/ svc[n].ver = 0 THEN Ans("err", 0)
  ELSE IF r.kind = "gic" /\ r.old = svc[n].ver THEN Ans("same", 0)
  ELSE Ans("val", svc[n].ver)

SvcActivate(n, v) ==
  /\ svc' = [svc EXCEPT ![n].ver = v]
  /\ poll' = IF poll = Nil THEN Nil ELSE [poll EXCEPT !.act[n] = @ \cup {v}]   \* history: active during the poll
  /\ out' = Event("svc", [name |-> n, ver |-> v])
  /\ UNCHANGED <<cfg, m, handles, cache, phase, closed, ini, lk, rq, call, now, hist>>

SvcMode(n, mode) ==
  /\ svc' = [svc EXCEPT ![n].mode = mode]
  /\ out' = Event("svcmode", [name |-> n, mode |-> mode])
  /\ UNCHANGED <<cfg, m, handles, cache, phase, closed, ini, poll, lk, rq, call, now, hist>>

Served(n, v) == [hist EXCEPT !.served[n] = @ \cup {v}]
Installed(h, n, v) == [h EXCEPT !.inst[n] = Append(@, v)]

(* --- construction (C10) --------------------------------------------------------- *)
\* c: configuration; bad: a misconfiguration (no client, nothing declared without lookups, an empty name);
\* deadline: absolute time at which the caller's context ends, or Nil.
NewStore(c, bad, deadline, cc) ==      \* cc: the cache as the new store finds it
  /\ phase \in {"config", "running", "failed"} /\ poll = Nil /\ rq = NoReqs /\ \A n \in Names : lk[n] = Nil
  /\ closed # "closing"
  /\ \A k \in Callers : call[k] = Nil
  /\ cfg' = c /\ handles' = {} /\ closed' = "open"
  /\ IF bad
     THEN /\ phase' = "failed" /\ m' = [n \in Names |-> Nil] /\ ini' = NoIni
          /\ out' = Event("ret", [call |-> "newstore", res |-> "err"])
          /\ cache' = cc /\ UNCHANGED hist
     ELSE LET usable == c.hasCache /\ cc.kind = "doc"          \* a well-formed document of the documented shape
              doc == IF usable THEN cc.doc ELSE NoDoc
              mm == [n \in Names |->
                       IF doc[n] # Nil THEN [ver |-> doc[n].ver, la |-> doc[n].la, declared |-> n \in c.declared]
                       ELSE IF n \in c.declared THEN Stub ELSE Nil]
          IN  /\ m' = mm /\ phase' = "init"
              /\ ini' = [NoIni EXCEPT !.deadline = deadline, !.flush = (Stubs(mm) # {})]
              /\ cache' = IF c.hasCache THEN cc ELSE [kind |-> "none", doc |-> NoDoc, wfail |-> FALSE]
              /\ hist' = [served |-> [n \in Names |-> IF doc[n] # Nil THEN {doc[n].ver} ELSE {}],
                          inst |-> [n \in Names |-> IF doc[n] # Nil THEN <<doc[n].ver>> ELSE <<>>],
                          supplied |-> {n \in Names : doc[n] # Nil},
                          polls |-> 0, pollErrs |-> 0, fetches |-> 0]
              /\ out' = Event("newstore", [stubs |-> Stubs(mm)])
  /\ UNCHANGED <<svc, poll, lk, rq, call, now>>

InitCtxDone == ini.deadline # Nil /\ now >= ini.deadline

\* one Get per stub per round, in any order (map iteration), one at a time
\* the fetches of one round may be issued one after the other (the pinned code) or several at a time: the round is over
\* when every missing secret has been tried and every request has come back
InitReq(n) ==
  /\ phase = "init" /\ m[n] = Stub /\ n \notin ini.tried /\ ini.wake = Nil
  /\ rq' = [rq EXCEPT !["init"][n] = [kind |-> "get", old |-> 0]]
  /\ ini' = [ini EXCEPT !.tried = @ \cup {n}]
  /\ out' = Event("req", [name |-> n, kind |-> "get", old |-> 0])
  /\ UNCHANGED <<cfg, svc, m, handles, cache, phase, closed, poll, lk, call, now, hist>>

InitFail ==      \* the caller's context ended: give up at once
  /\ phase' = "failed" /\ ini' = NoIni
  /\ UNCHANGED <<m, cache, hist>>

InitResp(n, forceErr) ==
  /\ phase = "init" /\ rq["init"][n] # Nil
  /\ rq' = [rq EXCEPT !["init"][n] = Nil]
  /\ LET a == IF InitCtxDone THEN Ans("ctx", 0) ELSE Answer(n, rq["init"][n], forceErr) IN
     IF a.k = "ctx"
     THEN /\ InitFail /\ out' = Event("resp", [name |-> n, res |-> "ctx", ver |-> 0, ret |-> "err", force |-> forceErr])
     ELSE IF a.k = "err"
     THEN /\ ini' = [ini EXCEPT !.missing = @ + 1]
          /\ out' = Event("resp", [name |-> n, res |-> "err", ver |-> 0, ret |-> "none", force |-> forceErr])
          /\ UNCHANGED <<m, phase, cache, hist>>
     ELSE /\ m' = [m EXCEPT ![n] = [ver |-> a.v, la |-> Sec(now), declared |-> TRUE]]
          /\ hist' = Installed(Served(n, a.v), n, a.v)
          /\ ini' = [ini EXCEPT !.got = @ \cup {n}]
          /\ out' = Event("resp", [name |-> n, res |-> "val", ver |-> a.v, ret |-> "none", force |-> forceErr])
          /\ UNCHANGED <<phase, cache>>
  /\ UNCHANGED <<cfg, svc, handles, closed, poll, lk, call, now>>

\* the caller's context has ended and nothing is in flight (after a pause, say): construction may give up at once instead of
\* starting another round of requests that are doomed anyway
InitGiveUp ==
  /\ phase = "init" /\ InitCtxDone /\ ReqsBy("init") = {}
  /\ InitFail
  /\ out' = Event("ret", [call |-> "newstore", res |-> "err", flushed |-> FALSE])
  /\ UNCHANGED <<cfg, svc, handles, closed, poll, lk, rq, call, now>>

\* a request of a construction that has already given up comes back: nothing happens
InitStray(n) ==
  /\ phase = "failed" /\ rq["init"][n] # Nil
  /\ rq' = [rq EXCEPT !["init"][n] = Nil]
  /\ out' = Event("resp", [name |-> n, res |-> "stray", ver |-> 0, ret |-> "none", force |-> FALSE])
  /\ UNCHANGED <<cfg, svc, m, handles, cache, phase, closed, ini, poll, lk, call, now, hist>>

\* end of a round: done, or (file client) fail, or pause (a positive time, at most MaxPause, never past the caller's deadline)
\* rs: the values obtained in this round are put into the store when they arrive (the pinned code; rs = FALSE) or together
\* when the round is over (rs = TRUE) -- their first access stamp is the moment they were put in, either is fine
InitRoundEndR(rs) ==
  /\ phase = "init" /\ ini.wake = Nil /\ Stubs(m) \subseteq ini.tried
  /\ ReqsBy("init") = {}
  /\ (rs => ini.got # {})
  /\ LET mr == [n \in Names |-> IF rs /\ n \in ini.got /\ IsRec(m[n]) THEN [m[n] EXCEPT !.la = Sec(now)] ELSE m[n]] IN
     IF Stubs(m) = {}
     THEN /\ phase' = "running" /\ ini' = NoIni
          /\ cache' = IF ini.flush THEN Flush(mr) ELSE cache
          \* after the flush the tagged struct fields are filled: one read of the secret per field (stamp, metric)
          /\ m' = [n \in Names |-> IF n \in StructNames /\ IsRec(mr[n]) THEN [mr[n] EXCEPT !.la = Sec(now)] ELSE mr[n]]
          /\ hist' = [hist EXCEPT !.fetches = @ + Len(cfg.structs)]
          /\ out' = Event("ret", [call |-> "newstore", res |-> "ok", flushed |-> (ini.flush /\ Flushes)])
     ELSE IF cfg.fileClient
     THEN /\ phase' = "failed" /\ ini' = NoIni /\ UNCHANGED <<cache, m, hist>>
          /\ out' = Event("ret", [call |-> "newstore", res |-> "err", flushed |-> FALSE])
     ELSE /\ ini' = [ini EXCEPT !.tried = {}, !.missing = 0, !.got = {},
                                !.from = now,
                                !.wake = IF InitCtxDone THEN now ELSE       \* the LATEST moment the pause may end
                                         (IF ini.deadline # Nil /\ ini.deadline < now + MaxPause THEN ini.deadline ELSE now + MaxPause)]
          /\ m' = mr
          /\ out' = Event("sleep", [until |-> ini'.wake])
          /\ UNCHANGED <<phase, cache, hist>>
  /\ UNCHANGED <<cfg, svc, handles, closed, poll, lk, rq, call, now>>
InitRoundEnd == \E rs \in BOOLEAN : InitRoundEndR(rs)

InitWake ==
  /\ phase = "init" /\ ini.wake # Nil /\ (now >= ini.wake \/ now > ini.from)     \* after a positive pause, at the latest at ini.wake
  /\ ini' = [ini EXCEPT !.wake = Nil]
  /\ out' = Event("wake", [at |-> now])
  /\ UNCHANGED <<cfg, svc, m, handles, cache, phase, closed, poll, lk, rq, call, now, hist>>

(* --- polls (C11, C19) --------------------------------------------------------------- *)
Expired(n) ==
  /\ ~m[n].declared /\ cfg.expiry > 0 /\ n \notin handles
  /\ now - m[n].la * 1000 > cfg.expiry

\* Refresh / a tick of the poller: start a round (snapshot under the lock) or join the one in flight
\* (deadline: when the caller's context ends, or Nil; the poller's context ends at Close)
Refresh(c, deadline) ==
  /\ phase = "running"
  /\ (c \in Callers => call[c] = Nil) /\ (c = "poller" => cfg.auto /\ closed = "open")
  /\ IF poll = Nil
     THEN poll' = [snap |-> [n \in Names |-> IF IsRec(m[n]) THEN [ver |-> m[n].ver, expired |-> Expired(n)] ELSE Nil],
                   todo |-> Known(m), upd |-> [n \in Names |-> Nil], failed |-> FALSE,
                   waiters |-> {c}, leader |-> c, dead |-> FALSE, act |-> [n \in Names |-> {svc[n].ver}]]
     ELSE poll' = [poll EXCEPT !.waiters = @ \cup {c}]
  /\ call' = IF c \in Callers THEN [call EXCEPT ![c] = [kind |-> "refresh", name |-> "", own |-> deadline, cancelled |-> FALSE, expired |-> FALSE, start |-> now, tries |-> 0, fallback |-> FALSE]] ELSE call
  /\ out' = Event("refresh", [caller |-> c, started |-> (poll = Nil)])
  /\ hist' = IF poll = Nil THEN [hist EXCEPT !.polls = @ + 1] ELSE hist        \* metric: polls initiated
  /\ UNCHANGED <<cfg, svc, m, handles, cache, phase, closed, ini, lk, rq, now>>

NoPollReq == ReqsBy("poll") = {}

\* next name of the round: expired ones are marked for deletion without a request
\* (the requests of a round may be in flight one at a time, as in the pinned code, or several at once)
PollStep(n) ==
  /\ poll # Nil /\ n \in poll.todo /\ rq["poll"][n] = Nil
  /\ IF poll.snap[n].expired
     THEN /\ poll' = [poll EXCEPT !.todo = @ \ {n}, !.upd[n] = Del]
          /\ out' = Event("expire", [name |-> n])
          /\ UNCHANGED rq
     ELSE /\ rq' = [rq EXCEPT !["poll"][n] = [kind |-> "gic", old |-> poll.snap[n].ver]]
          /\ out' = Event("req", [name |-> n, kind |-> "gic", old |-> poll.snap[n].ver])
          /\ UNCHANGED poll
  /\ UNCHANGED <<cfg, svc, m, handles, cache, phase, closed, ini, lk, call, now, hist>>

\* a round runs under the context of the caller that started it: the poller's ends at Close, an API
\* caller's when it is cancelled or its deadline passes -- the requests of the round then fail, so the round
\* fails as a whole and nothing is applied; callers that joined it get that error
PollCtxDone == (poll.leader = "poller" /\ closed # "open") \/ poll.dead

\* a Refresh caller whose own context has ended stops waiting at once; the round goes on without it
RefreshGiveUp(c) ==
  /\ c \in Callers /\ call[c] # Nil /\ call[c].kind = "refresh" /\ (call[c].cancelled \/ call[c].expired)
  /\ call' = [call EXCEPT ![c] = Nil]
  /\ poll' = IF poll = Nil THEN Nil ELSE [poll EXCEPT !.waiters = @ \ {c}]
  /\ out' = Event("ret", [call |-> "refresh", caller |-> c, res |-> "ctx"])
  /\ UNCHANGED <<cfg, svc, m, handles, cache, phase, closed, ini, lk, rq, now, hist>>

PollResp(n, forceErr) ==
  /\ poll # Nil /\ rq["poll"][n] # Nil
  /\ rq' = [rq EXCEPT !["poll"][n] = Nil]
  /\ LET a == IF PollCtxDone THEN Ans("err", 0) ELSE Answer(n, rq["poll"][n], forceErr) IN
     /\ poll' = [poll EXCEPT !.todo = @ \ {n},
                             !.failed = @ \/ (a.k = "err"),
                             !.upd[n] = IF a.k = "val" /\ a.v # poll.snap[n].ver THEN a.v ELSE @]
     /\ hist' = IF a.k = "val" THEN Served(n, a.v) ELSE hist
     /\ out' = Event("resp", [name |-> n, res |-> a.k, ver |-> a.v, ret |-> "none", force |-> forceErr, kind |-> "gic"])
  /\ UNCHANGED <<cfg, svc, m, handles, cache, phase, closed, ini, lk, call, now>>

HasUpd == \E n \in Names : poll.upd[n] # Nil
ApplyTo(mm) ==
  [n \in Names |->
     IF poll.upd[n] = Nil THEN mm[n]
     ELSE IF poll.upd[n] = Del THEN (IF n \in handles THEN mm[n] ELSE Nil)    \* a referenced secret is never dropped
     ELSE IF IsRec(mm[n]) THEN [mm[n] EXCEPT !.ver = poll.upd[n]] ELSE mm[n]]
\* The staleness of a secret may be judged when the poll takes its snapshot (the pinned code) or again when the poll is applied:
\* a secret that has become stale in between (C19: undeclared, an age set, not read for longer than it, no handle) may then go too.
LateStale == {n \in Names : IsRec(m[n]) /\ poll.upd[n] # Del /\ Expired(n)}
ApplyLate(mm, ld) == [n \in Names |-> IF ld /\ n \in LateStale THEN Nil ELSE ApplyTo(mm)[n]]

\* end of the round: nothing applied if any request failed; otherwise install, drop, flush; all waiters return.
\* xf: the cache is rewritten although the round installed nothing (allowed, see ExtraFlush); a failing cache write is then
\* reported just as it is after an installing round
\* (a round in which a request has failed is lost anyway: it may end without asking for the remaining secrets)
PollFinishR(xf, ld, fd) ==
  /\ poll # Nil /\ (poll.todo = {} \/ poll.failed) /\ NoPollReq
  /\ (ld => ~poll.failed /\ LateStale # {})
  /\ (fd => poll.failed /\ \E n \in Names : poll.upd[n] = Del /\ n \notin handles)
  /\ LET mn == ApplyLate(m, ld)
         must == mn # m                        \* something was installed or dropped: the cache has to follow (C13)
     IN
     /\ (xf => ~poll.failed /\ ~must /\ Flushes)
     /\ IF poll.failed
        THEN \* nothing fetched is installed; the secrets found stale may still go (fd), and the cache follows them
             LET md == [n \in Names |-> IF fd /\ poll.upd[n] = Del /\ n \notin handles THEN Nil ELSE m[n]] IN
             /\ m' = md
             /\ cache' = IF md # m THEN Flush(md) ELSE cache
             /\ hist' = [hist EXCEPT !.pollErrs = @ + 1]                             \* metric: polls that failed
             /\ out' = Event("pollend", [res |-> "err", flushed |-> (md # m /\ Flushes), waiters |-> poll.waiters])
        ELSE /\ m' = mn
             /\ cache' = IF must \/ xf THEN Flush(mn) ELSE cache
             /\ hist' = [hist EXCEPT !.inst = [n \in Names |->
                            IF poll.upd[n] \notin {Nil, Del} /\ IsRec(mn[n]) THEN Append(hist.inst[n], poll.upd[n]) ELSE hist.inst[n]]]
             /\ out' = Event("pollend", [res |-> (IF (must \/ xf) /\ Flushes /\ cache.wfail THEN "err" ELSE "ok"),
                                         flushed |-> ((must \/ xf) /\ Flushes), waiters |-> poll.waiters])
  /\ poll' = Nil
  /\ call' = [c \in Callers |-> IF c \in poll.waiters THEN Nil ELSE call[c]]
  /\ UNCHANGED <<cfg, svc, handles, phase, closed, ini, lk, rq, now>>
PollFinish == \E xf, ld, fd \in BOOLEAN : PollFinishR(xf, ld, fd)

\* C13 says when the cache MUST be rewritten (after the initial fetch, a lookup, a poll that installed something, at
\* shutdown); an implementation may also rewrite it at other moments -- always as one complete document of its current state
ExtraFlush ==
  /\ phase \in {"init", "running"} /\ Flushes
  /\ cache' = Flush(m)
  /\ out' = Event("flush", [ok |-> ~cache.wfail])
  /\ UNCHANGED <<cfg, svc, m, handles, phase, closed, ini, poll, lk, rq, call, now, hist>>

(* --- handles and reads (C12, C19) ----------------------------------------------------------- *)
\* Store.Secret(n): a handle for a known name; nil (or a panic without lookups) otherwise
Handle(n) ==
  /\ phase = "running"
  /\ IF IsRec(m[n])
     THEN handles' = handles \cup {n} /\ out' = Event("handle", [name |-> n, res |-> "ok"])
     ELSE UNCHANGED handles /\ out' = Event("handle", [name |-> n, res |-> (IF cfg.allowLookup THEN "nil" ELSE "panic")])
  /\ UNCHANGED <<cfg, svc, m, cache, phase, closed, ini, poll, lk, rq, call, now, hist>>

\* calling a handle: never blocks, whatever else is in flight; stamps the access time
Read(n) ==
  /\ n \in handles
  /\ m' = [m EXCEPT ![n].la = Sec(now)]
  /\ out' = Event("read", [name |-> n, ver |-> m[n].ver])
  /\ hist' = [hist EXCEPT !.fetches = @ + 1]                                      \* metric: secret value fetches
  /\ UNCHANGED <<cfg, svc, handles, cache, phase, closed, ini, poll, lk, rq, call, now>>

(* --- lookups (C16) ----------------------------------------------------------------------------- *)
\* A context ends when its deadline timer fires (CtxExpire) or it is cancelled; timers due at the same instant
\* fire in any order, so "the deadline has been reached" and "the context is done" are different moments.
CtxAlive(k) == ~call[k].cancelled /\ ~call[k].expired

\* LookupSecret(ctx, n) by caller k; deadline: the caller's own, or Nil (then the five-minute fallback applies)
Lookup(k, n, deadline) ==
  /\ phase = "running" /\ call[k] = Nil
  /\ IF IsRec(m[n])
     THEN /\ handles' = handles \cup {n}
          /\ out' = Event("ret", [call |-> "lookup", caller |-> k, res |-> "ok", name |-> n])
          /\ UNCHANGED <<call, lk, rq>>
     ELSE IF ~cfg.allowLookup
     THEN /\ out' = Event("ret", [call |-> "lookup", caller |-> k, res |-> "err", name |-> n])
          /\ UNCHANGED <<handles, call, lk, rq>>
     ELSE /\ call' = [call EXCEPT ![k] = [kind |-> "lookup", name |-> n, cancelled |-> FALSE, expired |-> FALSE, start |-> now, tries |-> 0,
                                          fallback |-> (deadline = Nil),
                                          own |-> IF deadline = Nil THEN now + 300000 ELSE deadline]]
          /\ out' = Event("lookup", [caller |-> k, name |-> n])
          /\ UNCHANGED <<handles, lk, rq>>
  /\ UNCHANGED <<cfg, svc, m, cache, phase, closed, ini, poll, now, hist>>

InFlight(k) == \E n \in {x \in Names : lk[x] # Nil} : k \in lk[n].members
Waiting(k) == call[k] # Nil /\ call[k].kind = "lookup" /\ ~InFlight(k)

\* enter the flight for the name: lead it (one request, governed by the leader's context) or join it
\* (the first entry does not look at the caller's context -- a caller cancelled before it got here still
\*  enters, and a request it leads is doomed; re-entries after somebody else's cancellation do look)
NewFlight(k) == [leader |-> k, members |-> {k}, dead |-> ~CtxAlive(k), sent |-> FALSE]
LookupEnter(k) ==
  /\ Waiting(k) /\ (call[k].tries = 0 \/ CtxAlive(k))
  /\ LET n == call[k].name IN
     IF lk[n] = Nil
     THEN /\ lk' = [lk EXCEPT ![n] = NewFlight(k)]
          /\ out' = Event("lead", [caller |-> k, name |-> n])
     ELSE /\ lk' = [lk EXCEPT ![n].members = @ \cup {k}]
          /\ out' = Event("join", [caller |-> k, name |-> n])
  /\ call' = [call EXCEPT ![k].tries = 1]
  /\ UNCHANGED <<cfg, svc, m, handles, cache, phase, closed, ini, poll, rq, now, hist>>

\* the flight's own goroutine sends the one request of the flight (the leader may already have given up)
FlightSend(n) ==
  /\ lk[n] # Nil /\ ~lk[n].sent
  /\ lk' = [lk EXCEPT ![n].sent = TRUE]
  /\ rq' = [rq EXCEPT !["lookup"][n] = [kind |-> "get", old |-> 0]]
  /\ out' = Event("req", [name |-> n, kind |-> "get", old |-> 0])
  /\ UNCHANGED <<cfg, svc, m, handles, cache, phase, closed, ini, poll, call, now, hist>>

\* a flight for a name that has been installed meanwhile need not ask the service at all
FlightSkip(n) ==
  /\ lk[n] # Nil /\ ~lk[n].sent /\ IsRec(m[n])
  /\ lk' = [lk EXCEPT ![n] = Nil]
  /\ handles' = handles \cup {n}
  /\ call' = [k \in Callers |-> IF k \in lk[n].members THEN Nil ELSE call[k]]
  /\ out' = Event("lookupend", [name |-> n, res |-> "val", ver |-> m[n].ver, returned |-> lk[n].members, retry |-> {}, force |-> FALSE,
                                installed |-> FALSE])
  /\ UNCHANGED <<cfg, svc, m, cache, phase, closed, ini, poll, rq, now, hist>>

FlightCtxDone(n) == lk[n].dead

\* the request of a lookup flight completes: value (install, flush, every member still waiting gets a
\* handle), a service error (reported to every member, nothing installed, no retry), or the leader's
\* context ended (the members still waiting go back to LookupEnter with their own contexts)
LookupResp(n, forceErr) ==
  /\ rq["lookup"][n] # Nil /\ lk[n] # Nil
  /\ LET a == IF FlightCtxDone(n) THEN Ans("ctx", 0) ELSE Answer(n, rq["lookup"][n], forceErr) IN
     /\ rq' = [rq EXCEPT !["lookup"][n] = Nil] /\ lk' = [lk EXCEPT ![n] = Nil]
     /\ IF a.k = "ctx"
        THEN /\ out' = Event("lookupend", [name |-> n, res |-> "ctx", ver |-> 0, returned |-> {}, retry |-> lk[n].members, force |-> forceErr])
             /\ UNCHANGED <<m, handles, cache, hist, call>>
        ELSE IF a.k = "err"
        THEN /\ call' = [k \in Callers |-> IF k \in lk[n].members THEN Nil ELSE call[k]]
             /\ out' = Event("lookupend", [name |-> n, res |-> "err", ver |-> 0, returned |-> lk[n].members, retry |-> {}, force |-> forceErr])
             /\ UNCHANGED <<m, handles, cache, hist>>
        ELSE IF IsRec(m[n])
        \* the name was installed meanwhile (this caller found it unknown, but reached the flight only after an earlier
        \* flight for it had finished): the installed entry stays -- polls have been keeping it current and this answer
        \* may be older -- nothing is installed or written, every member gets a handle on the installed entry
        THEN /\ handles' = handles \cup {n}
             /\ hist' = Served(n, a.v)
             /\ call' = [k \in Callers |-> IF k \in lk[n].members THEN Nil ELSE call[k]]
             /\ out' = Event("lookupend", [name |-> n, res |-> "val", ver |-> a.v, returned |-> lk[n].members, retry |-> {}, force |-> forceErr,
                                           installed |-> FALSE])
             /\ UNCHANGED <<m, cache>>
        ELSE /\ m' = [m EXCEPT ![n] = [ver |-> a.v, la |-> Sec(now), declared |-> FALSE]]
             /\ handles' = handles \cup {n}
             /\ cache' = Flush(m')
             /\ hist' = Installed(Served(n, a.v), n, a.v)
             /\ call' = [k \in Callers |-> IF k \in lk[n].members THEN Nil ELSE call[k]]
             /\ out' = Event("lookupend", [name |-> n, res |-> "val", ver |-> a.v, returned |-> lk[n].members, retry |-> {}, force |-> forceErr,
                                           installed |-> TRUE])
  /\ UNCHANGED <<cfg, svc, phase, closed, ini, poll, now>>

\* a caller whose own context has ended stops waiting at once, wherever it is; a flight it leads
\* goes on without it until its request notices the dead context
\* (the pinned code looks at a caller's context only once it waits for a flight; an implementation may as well turn away a
\*  caller whose context is already over before anything is started, or release blocked callers when the store is closed)
LookupGiveUp(k) ==
  /\ call[k] # Nil /\ call[k].kind = "lookup" /\ (~CtxAlive(k) \/ closed # "open")
  /\ call' = [call EXCEPT ![k] = Nil]
  /\ lk' = [n \in Names |-> IF lk[n] # Nil THEN [lk[n] EXCEPT !.members = @ \ {k}] ELSE Nil]
  /\ out' = Event("ret", [call |-> "lookup", caller |-> k, res |-> "ctx"])
  /\ UNCHANGED <<cfg, svc, m, handles, cache, phase, closed, ini, poll, rq, now, hist>>

\* the deadline timer of caller k's context fires (its own deadline, or the five-minute fallback of a lookup)
DeadFlights(k) == [n \in Names |-> IF lk[n] # Nil THEN (IF lk[n].leader = k THEN [lk[n] EXCEPT !.dead = TRUE] ELSE lk[n]) ELSE Nil]
DeadPoll(k) == IF poll # Nil /\ poll.leader = k THEN [poll EXCEPT !.dead = TRUE] ELSE poll
CtxExpire(k) ==
  /\ call[k] # Nil /\ call[k].own # Nil /\ ~call[k].expired
  /\ (now >= call[k].own \/ (call[k].fallback /\ now > call[k].start))    \* the safety limit of a caller without deadline: at most five minutes
  /\ call' = [call EXCEPT ![k].expired = TRUE]
  /\ lk' = DeadFlights(k) /\ poll' = DeadPoll(k)
  /\ out' = Event("ctxexpire", [caller |-> k])
  /\ UNCHANGED <<cfg, svc, m, handles, cache, phase, closed, ini, rq, now, hist>>

Cancel(k) ==
  /\ call[k] # Nil /\ ~call[k].cancelled
  /\ call' = [call EXCEPT ![k].cancelled = TRUE]
  /\ lk' = DeadFlights(k) /\ poll' = DeadPoll(k)
  /\ out' = Event("cancel", [caller |-> k])
  /\ UNCHANGED <<cfg, svc, m, handles, cache, phase, closed, ini, rq, now, hist>>

(* --- Close, cache faults, time ------------------------------------------------------------------ *)
\* Close cancels the poller's context and waits for it; the poller, on its way out, rewrites the cache
\* (fresh access stamps) -- a separate step: handle calls may still slip in before that last flush.
\* Without a background poller Close has nothing to do.
Close ==
  /\ phase = "running" /\ closed = "open"
  /\ closed' = IF cfg.auto THEN "closing" ELSE "closed"
  /\ out' = IF cfg.auto THEN Event("closing", [x |-> 0]) ELSE Event("close", [flushed |-> FALSE])
  /\ UNCHANGED <<cfg, svc, m, handles, cache, phase, ini, poll, lk, rq, call, now, hist>>

\* a poller caught in a round (its own, whose requests now fail, or one it joined) stops waiting for it
PollerGiveUp ==
  /\ closed = "closing" /\ poll # Nil /\ "poller" \in poll.waiters
  /\ poll' = [poll EXCEPT !.waiters = @ \ {"poller"}]
  /\ out' = Event("ret", [call |-> "refresh", caller |-> "poller", res |-> "ctx"])
  /\ UNCHANGED <<cfg, svc, m, handles, cache, phase, closed, ini, lk, rq, call, now, hist>>

PollerExit ==
  /\ closed = "closing" /\ (IF poll = Nil THEN TRUE ELSE "poller" \notin poll.waiters)
  /\ closed' = "closed"
  /\ cache' = Flush(m)
  /\ out' = Event("close", [flushed |-> Flushes])
  /\ UNCHANGED <<cfg, svc, m, handles, phase, ini, poll, lk, rq, call, now, hist>>

CacheFault(w) ==
  /\ cache.kind # "none" /\ cache' = [cache EXCEPT !.wfail = w]
  /\ out' = Event("cachefault", [wfail |-> w])
  /\ UNCHANGED <<cfg, svc, m, handles, phase, closed, ini, poll, lk, rq, call, now, hist>>

\* pending timers: nothing may sleep through them
Timers ==
  (IF phase = "init" /\ ini.wake # Nil THEN {ini.wake} ELSE {})
  \cup (IF phase = "init" /\ ini.deadline # Nil /\ ini.deadline > now THEN {ini.deadline} ELSE {})
  \cup {call[k].own : k \in {j \in Callers : call[j] # Nil /\ call[j].own # Nil /\ call[j].own > now}}

\* Code steps take no (virtual) time: the clock does not move while one is due.
Urgent ==
  \/ closed = "closing"
  \/ (phase = "init" /\ ini.wake # Nil /\ now >= ini.wake)
  \/ (phase = "init" /\ ini.wake = Nil /\ ReqsBy("init") = {})       \* next request / round end
  \/ (phase = "init" /\ InitCtxDone /\ ReqsBy("init") # {})         \* the client honours the context
  \/ (poll # Nil /\ NoPollReq)                                                                     \* next request / end of round
  \/ (\E k \in Callers : Waiting(k))
  \/ (\E n \in Names : lk[n] # Nil /\ ~lk[n].sent)
  \/ (\E k \in {j \in Callers : call[j] # Nil} : call[k].own # Nil /\ ~call[k].expired /\ now >= call[k].own)   \* a timer is due
  \/ (\E k \in {j \in Callers : call[j] # Nil} : ~CtxAlive(k))                              \* a caller gives up at once
  \/ (poll # Nil /\ PollCtxDone /\ ReqsBy("poll") # {})                                     \* the client honours the context
  \/ (\E n \in ReqsBy("lookup") : FlightCtxDone(n))                                         \* the client honours the context

Advance(t) ==
  /\ t > now /\ (\A d \in Timers : t <= d) /\ ~Urgent
  /\ now' = t
  /\ out' = Event("adv", [t |-> t])
  /\ UNCHANGED <<cfg, svc, m, handles, cache, phase, closed, ini, poll, lk, rq, call, hist>>

(* --- initial state ---------------------------------------------------------------------------------- *)
Init ==
  /\ cfg = NoCfg /\ m = [n \in Names |-> Nil] /\ handles = {} /\ phase = "config" /\ closed = "open"
  /\ ini = NoIni /\ poll = Nil /\ lk = [n \in Names |-> Nil] /\ rq = NoReqs
  /\ call = [k \in Callers |-> Nil] /\ now = 0
  /\ hist = [served |-> [n \in Names |-> {}], inst |-> [n \in Names |-> <<>>], supplied |-> {}, polls |-> 0, pollErrs |-> 0, fetches |-> 0]
  /\ out = [ev |-> "init"]

(* --- properties ---------------------------------------------------------------------------------------- *)
\* C10: a constructed store has a value for every declared secret
InitOK == phase = "running" => \A n \in cfg.declared : IsRec(m[n])

\* C12: a handle never dangles -- whatever polls, expiry and lookups do, calling it finds a value
HandleNeverDangles == phase = "running" => \A n \in handles : IsRec(m[n])
\* C12: what a read returns was really served for that name (or supplied by the start-up cache)
ReadServed == (out.ev = "read") => out.ver \in hist.served[out.name]
\* every installed version was served
InstalledServed == \A n \in Names : IsRec(m[n]) => m[n].ver \in hist.served[n]

\* C12: what a handle returns is the version most recently installed for its name -- so any one reader sees the
\* versions of a name in the order polls installed them, and after a completed poll never an older one
InstLast == \A n \in Names : IsRec(m[n]) => (hist.inst[n] # <<>> /\ m[n].ver = hist.inst[n][Len(hist.inst[n])])

\* C11: a poll that completes without error leaves every known secret at a version that was the
\* service's active one at some instant during the poll; a failed poll changes nothing
PollConverges ==
  (poll # Nil /\ poll.todo = {} /\ NoPollReq /\ ~poll.failed) =>
     \A n \in Known(ApplyTo(m)) : (poll.snap[n] # Nil /\ ~poll.snap[n].expired) => ApplyTo(m)[n].ver \in poll.act[n]
\* C11: never two rounds at once, and within the one round at most one request per secret (a request in flight belongs to
\* the current round and its secret has not been answered yet); how many secrets are asked for at a time is free
Coalesce == \A n \in Names : rq["poll"][n] # Nil => (poll # Nil /\ n \in poll.todo)

\* C13: unless a cache write failed, after every installing step the cache document lists exactly the
\* known secrets with their installed versions (access stamps are refreshed only by the next write)
CacheVersions ==
  (cache.kind = "doc" /\ ~cache.wfail /\ phase = "running" /\ out.ev \in {"pollend", "lookupend", "ret", "close"}
     /\ (out.ev = "pollend" => out.flushed) /\ (out.ev = "ret" => (out.call = "newstore" /\ out.flushed))
     /\ (out.ev = "lookupend" => out.res = "val") /\ (out.ev = "close" => out.flushed)) =>
        \A n \in Names : (cache.doc[n] # Nil) = IsRec(m[n]) /\ (IsRec(m[n]) => cache.doc[n].ver = m[n].ver)

\* C16: no request is ever sent for an undeclared name when lookups are disabled
LookupGate == ~cfg.allowLookup => \A n \in {x \in Names : \E b \in Origins : rq[b][x] # Nil} : (n \in cfg.declared \/ IsRec(m[n]))
\* C16: a caller whose context has no deadline is answered within five minutes
Bounded == \A k \in {j \in Callers : call[j] # Nil} :
             call[k].kind = "lookup" => (now <= call[k].own /\ (call[k].fallback => call[k].own = call[k].start + 300000))
\* C16: a caller is not failed because of another caller's context: when a flight ends with the
\* leader's context, every member still waiting stays in the call (and will re-enter)
NotCollateral == (out.ev = "lookupend" /\ out.res = "ctx") => \A k \in out.retry : call[k] # Nil

\* C19: a secret leaves the store only at the end of a poll, and only if it is undeclared,
\* an expiry age is set, it had not been read for longer than that (at the poll's snapshot or at its end), and no handle exists
DropRule ==
  \A n \in Names :
    (IsRec(m[n]) /\ ~IsRec(m'[n]) /\ phase = "running" /\ phase' = "running") =>
       /\ poll # Nil /\ poll' = Nil
       /\ (poll.failed => poll.upd[n] = Del)             \* a failed poll installs nothing; it may still drop what it found stale
       /\ ~m[n].declared /\ cfg.expiry > 0 /\ n \notin handles
       /\ ((poll.upd[n] = Del /\ poll.snap[n].expired) \/ Expired(n))        \* stale at the snapshot, or stale now
NeverDropDeclared == phase = "running" => \A n \in cfg.declared : IsRec(m[n])

StepProps == [][DropRule]_vars
=============================================================================
