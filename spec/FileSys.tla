------------------------------- MODULE FileSys -------------------------------
(***************************************************************************)
(* What the file-system calls of one save do to the state directory, and   *)
(* what C04 / C13 require of them -- independent of the ORDER and NAMES    *)
(* the current writer happens to use.  AtomicFile.tla describes the        *)
(* writer as it is (create temp, write, chmod, fsync, close, rename) and   *)
(* is checked exhaustively with crashes at every point; this module is the *)
(* yardstick recorded system calls are held against (FileSysTrace): any    *)
(* sequence of calls is a behaviour, and the properties say which          *)
(* sequences keep the promise:                                             *)
(*                                                                         *)
(*   - the live name is only ever re-bound, by rename, to a file that is   *)
(*     complete (all n bytes written) and flushed (ReplaceComplete,        *)
(*     ReplaceFlushed) -- "new contents are written to a separate file and *)
(*     flushed to stable storage before they replace the live file";       *)
(*   - the live file is never opened for writing, truncated, written,      *)
(*     unlinked or moved away (LiveUntouched) -- "never written in place"; *)
(*   - whatever a kill or a power loss leaves under the live name is the   *)
(*     complete old or the complete new content (AllOrNothingKill/Power);  *)
(*   - files created by the save are owner-only from creation on           *)
(*     (OwnerOnly);                                                        *)
(*   - a call that reports an error has left the old binding in place, a   *)
(*     call that reports success the new one (ErrorMeansOld, OkMeansNew).  *)
(*                                                                         *)
(* A file opened for the new content without O_EXCL or O_TRUNC (and not    *)
(* truncated afterwards) may still hold the bytes of an earlier,           *)
(* interrupted save beyond what this save writes: re-binding the live name *)
(* to it breaks ReplaceComplete.                                           *)
(*                                                                         *)
(* Not required (free for the implementation): the temporary file's name   *)
(* and directory, whether and when chmod is called, how writes are         *)
(* split, extra fsyncs (also of the directory), the order of close and     *)
(* fsync-independent steps, whether a failed save removes its temporary    *)
(* file.                                                                   *)
(*                                                                         *)
(* File-system assumptions (the same as AtomicFile's): a rename is atomic  *)
(* in the visible directory and reaches the disk at once or at any later   *)
(* moment as a whole; unsynced file data may reach the disk in any prefix. *)
(***************************************************************************)
EXTENDS Naturals, FiniteSets, TLC

VARIABLES files,      \* path -> [w, dur, mode, stale] for the files this save created (the live file is not in here)
          liveVis,    \* what the live name is bound to in the visible directory: "old" | "gone" | a path of `files`' history
          liveDur,    \* the same on disk
          bound,      \* the record of the file the live name was re-bound to (its path is gone from `files`), or NoFile
          touched,    \* the old live file was opened for writing / written / truncated in place
          result,     \* what the call reported: "none" | "ok" | "error"
          n           \* size of the new content of this call

fsvars == <<files, liveVis, liveDur, bound, touched, result, n>>

NoFile == [some |-> FALSE, w |-> 0, dur |-> 0, mode |-> 384, stale |-> FALSE]

FsInit(size) ==
  /\ files = <<>> /\ liveVis = "old" /\ liveDur = "old" /\ bound = NoFile /\ touched = FALSE /\ result = "none" /\ n = size

Known(p) == p \in DOMAIN files
With(f, p, r) == [q \in DOMAIN f \cup {p} |-> IF q = p THEN r ELSE f[q]]
Without(f, p) == [q \in DOMAIN f \ {p} |-> f[q]]

(* --- calls -------------------------------------------------------------------- *)
\* open(p, O_CREAT...).  fresh: the call guarantees an empty file (O_EXCL or O_TRUNC); without that guarantee a file left
\* behind under the same name by an earlier, interrupted save keeps its bytes beyond what this save writes (stale)
Create(p, mode, fresh) ==
  /\ files' = With(files, p, [w |-> 0, dur |-> 0, mode |-> mode, stale |-> ~fresh])
  /\ UNCHANGED <<liveVis, liveDur, bound, touched, result, n>>

Write(p, k) ==                           \* k bytes appended to a file this save created
  /\ Known(p)
  /\ files' = [files EXCEPT ![p].w = @ + k]
  /\ UNCHANGED <<liveVis, liveDur, bound, touched, result, n>>

Truncate(p) ==                           \* ftruncate(p, 0): whatever was there is gone
  /\ Known(p)
  /\ files' = [files EXCEPT ![p].w = 0, ![p].dur = 0, ![p].stale = FALSE]
  /\ UNCHANGED <<liveVis, liveDur, bound, touched, result, n>>

Chmod(p, mode) ==
  /\ Known(p)
  /\ files' = [files EXCEPT ![p].mode = mode]
  /\ UNCHANGED <<liveVis, liveDur, bound, touched, result, n>>

Fsync(p) ==                              \* everything written so far is durable
  /\ Known(p)
  /\ files' = [files EXCEPT ![p].dur = files[p].w]
  /\ UNCHANGED <<liveVis, liveDur, bound, touched, result, n>>

FsyncDir ==                              \* the directory as it is now is durable
  /\ liveDur' = liveVis
  /\ UNCHANGED <<files, liveVis, bound, touched, result, n>>

Close(p) == UNCHANGED fsvars             \* closing changes nothing that matters here

RenameToLive(p) ==                       \* rename(p, live): the live name is re-bound atomically
  /\ liveVis' = "new"
  /\ bound' = IF Known(p) THEN [some |-> TRUE, w |-> files[p].w, dur |-> files[p].dur, mode |-> files[p].mode, stale |-> files[p].stale]
               ELSE [some |-> TRUE, w |-> 0, dur |-> 0, mode |-> 0, stale |-> TRUE]   \* a file this save never created
  /\ files' = IF Known(p) THEN Without(files, p) ELSE files
  /\ \/ liveDur' = "new" \/ UNCHANGED liveDur                                    \* on disk now or later
  /\ UNCHANGED <<touched, result, n>>

Unlink(p) ==
  /\ files' = IF Known(p) THEN Without(files, p) ELSE files
  /\ UNCHANGED <<liveVis, liveDur, bound, touched, result, n>>

TouchLive ==                             \* the live file opened for writing, truncated or written
  /\ touched' = TRUE
  /\ UNCHANGED <<files, liveVis, liveDur, bound, result, n>>

LoseLive ==                              \* the live name unlinked or renamed away
  /\ liveVis' = "gone" /\ (liveDur' = "gone" \/ UNCHANGED liveDur)
  /\ UNCHANGED <<files, bound, touched, result, n>>

Failed == UNCHANGED fsvars               \* a call that failed (injected error): no effect

Report(r) ==
  /\ result' = r
  /\ UNCHANGED <<files, liveVis, liveDur, bound, touched, n>>

(* --- what a reader finds ---------------------------------------------------------- *)
Content(b) == CASE b = "old" -> (IF touched THEN "Partial" ELSE "Old")
                [] b = "gone" -> "Missing"
                [] OTHER -> (IF bound.some /\ bound.w = n /\ ~bound.stale THEN "New" ELSE "Partial")
VisibleContent == Content(liveVis)
\* after power loss: the durable binding, with only the flushed part of a re-bound file
DurableContent ==
  CASE liveDur = "old" -> (IF touched THEN "Partial" ELSE "Old")
    [] liveDur = "gone" -> "Missing"
    [] OTHER -> (IF bound.some /\ bound.dur = n /\ ~bound.stale THEN "New" ELSE "Partial")
\* the binding can reach the disk at any later moment: what power loss may leave once it has
PendingDurable == IF liveVis = "new" THEN (IF bound.some /\ bound.dur = n /\ ~bound.stale THEN "New" ELSE "Partial") ELSE Content(liveVis)

(* --- properties (C04, C13) ---------------------------------------------------------- *)
AllOrNothingKill  == VisibleContent \in {"Old", "New"}
AllOrNothingPower == DurableContent \in {"Old", "New"} /\ PendingDurable \in {"Old", "New"}
LiveUntouched     == ~touched /\ liveVis # "gone"
OwnerOnly         == /\ \A p \in DOMAIN files : files[p].mode = 384
                     /\ (bound.some => bound.mode = 384)
ErrorMeansOld     == result = "error" => liveVis = "old" /\ ~touched
OkMeansNew        == result = "ok" => VisibleContent = "New"
\* the step that re-binds the live name finds the new file complete and flushed
ReplaceComplete   == liveVis = "new" => bound.w = n /\ ~bound.stale
ReplaceFlushed    == liveVis = "new" => bound.dur = n
=============================================================================
