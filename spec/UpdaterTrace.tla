---------------------------- MODULE UpdaterTrace ----------------------------
(***************************************************************************)
(* Trace validation of the real setec.Updater against Updater.             *)
(*                                                                         *)
(* The driver runs real updaters on a real Store (scripted service) and    *)
(* logs, under one mutex: the begin and end of every poll that installs    *)
(* new versions (ibegin/iend), of every NewUpdater (nbegin/nend) and of    *)
(* every Get (gbegin/gend, with the value returned), every invocation of   *)
(* the builder (build: which version's bytes it was given, the id of the   *)
(* value it made, whether it failed) and every Close of a value (vclose).  *)
(* The steps in between -- the install itself, the registration of the     *)
(* watcher, taking u.mu and draining the notification, reading the secret  *)
(* -- are not logged: TLC places them, which makes the validation a search *)
(* for a schedule of Updater that explains what was observed.              *)
(***************************************************************************)
EXTENDS Integers, Sequences, FiniteSets, TLC, Json

CONSTANT Nil
Trace == ndJsonDeserialize("trace.ndjson")
Dict  == ndJsonDeserialize("dict.ndjson")[1]
ToSet(s) == {s[i] : i \in DOMAIN s}
NameSet == ToSet(Dict.names)
UpdSet == ToSet(Dict.upds)
GetterSet == ToSet(Dict.getters)

VARIABLES cur, w, u, failing, g, closed, nextId, out,
          l,       \* next line
          inst,    \* Nil | [names, done]   a poll in progress
          mk       \* [UpdSet -> "idle" | <name> (called, watcher not yet registered) | "making"]  NewUpdater in progress
U == INSTANCE Updater WITH Names <- NameSet, Upds <- UpdSet, Getters <- GetterSet
uvars == <<cur, w, u, failing, g, closed, nextId, out>>
vars == <<uvars, l, inst, mk>>

Line(ev) == l <= Len(Trace) /\ Trace[l].ev = ev
E == Trace[l]
Adv == l' = l + 1
B(s) == s = "t"

TIBegin == Line("ibegin") /\ inst = Nil /\ inst' = [names |-> ToSet(E.names), done |-> FALSE] /\ Adv /\ UNCHANGED <<uvars, mk>>
SInstall == inst # Nil /\ ~inst.done /\ U!Install(inst.names) /\ inst' = [inst EXCEPT !.done = TRUE] /\ UNCHANGED <<l, mk>>
TIEnd == Line("iend") /\ inst # Nil /\ inst.done /\ inst' = Nil /\ Adv /\ UNCHANGED <<uvars, mk>>

TNBegin == Line("nbegin") /\ mk[E.u] = "idle" /\ w[E.u] = Nil /\ mk' = [mk EXCEPT ![E.u] = E.name] /\ Adv /\ UNCHANGED <<uvars, inst>>
\* the registration happens somewhere inside the call (an install may slip in before it)
SRegister == \E x \in UpdSet : mk[x] \in NameSet /\ U!Register(x, mk[x]) /\ mk' = [mk EXCEPT ![x] = "making"] /\ UNCHANGED <<l, inst>>
SInitRead == \E x \in UpdSet : mk[x] = "making" /\ U!InitRead(x) /\ UNCHANGED <<l, inst, mk>>
\* a value's bytes may be shared by several installs (content rolled back and forth): the line lists every install they stand for
FromSet(f) == {f[i] : i \in DOMAIN f}
TBuild ==
  /\ Line("build")
  /\ \/ (B(E.init) /\ mk[E.u] = "making" /\ U!InitBuild(E.u))
     \/ (~B(E.init) /\ \E t \in GetterSet : (g[t] # Nil /\ g[t].upd = E.u /\ U!GetBuild(t)))
  /\ out'.from \in FromSet(E.from) /\ out'.ok = B(E.ok) /\ out'.id = E.id
  /\ Adv /\ UNCHANGED <<inst, mk>>
TNEnd ==
  /\ Line("nend") /\ mk[E.u] = "making"
  /\ u[E.u].pc = (IF B(E.ok) THEN "live" ELSE "dead")
  /\ mk' = [mk EXCEPT ![E.u] = "idle"] /\ Adv /\ UNCHANGED <<uvars, inst>>

TGBegin == Line("gbegin") /\ U!GetBegin(E.t, E.u) /\ Adv /\ UNCHANGED <<inst, mk>>
SGet == \E t \in GetterSet : (U!GetLock(t) \/ U!GetRead(t)) /\ UNCHANGED <<l, inst, mk>>
TVClose == Line("vclose") /\ (\E t \in GetterSet : (g[t] # Nil /\ g[t].stage = "built" /\ g[t].old = E.id /\ U!CloseOld(t))) /\ Adv /\ UNCHANGED <<inst, mk>>
TGEnd ==
  /\ Line("gend") /\ U!GetEnd(E.t)
  /\ out'.u = E.u /\ out'.id = E.id /\ out'.from \in FromSet(E.from) /\ (E.err = "na" \/ out'.err = B(E.err))
  /\ Adv /\ UNCHANGED <<inst, mk>>
TSetFail == Line("setfail") /\ U!SetFailing(E.u, B(E.fail)) /\ Adv /\ UNCHANGED <<inst, mk>>

TReset ==
  /\ Line("reset")
  /\ cur' = [n \in NameSet |-> 0] /\ w' = [x \in UpdSet |-> Nil] /\ u' = [x \in UpdSet |-> Nil]
  /\ failing' = [x \in UpdSet |-> FALSE] /\ g' = [t \in GetterSet |-> Nil] /\ closed' = <<>> /\ nextId' = 1
  /\ out' = [ev |-> "init"] /\ inst' = Nil /\ mk' = [x \in UpdSet |-> "idle"] /\ Adv
\* at the end every call has returned
TEnd == Line("end") /\ inst = Nil /\ (\A t \in GetterSet : g[t] = Nil) /\ (\A x \in UpdSet : mk[x] = "idle") /\ Adv /\ UNCHANGED <<uvars, inst, mk>>

Init == U!Init /\ l = 1 /\ inst = Nil /\ mk = [x \in UpdSet |-> "idle"]
Next == TIBegin \/ SInstall \/ TIEnd \/ TNBegin \/ SRegister \/ SInitRead \/ TBuild \/ TNEnd \/ TGBegin \/ SGet \/ TVClose \/ TGEnd \/ TSetFail
        \/ TReset \/ TEnd

WakeNotLost == U!WakeNotLost
ReturnFresh == U!ReturnFresh
NoSpuriousBuild == U!NoSpuriousBuild
CloseOnce == U!CloseOnce
FailKeeps == [][out'.ev = "init" \/ \A x \in UpdSet : (U!Live(x) /\ out'.ev = "build" /\ out'.u = x /\ ~out'.ok) => (u'[x].val = u[x].val /\ u'[x].err)]_uvars

ASSUME TLCSet(1, 0)
HW == TLCGet(1) >= l \/ TLCSet(1, l)
NotDone == l <= Len(Trace)
Report == PrintT(<<"HW", TLCGet(1)>>)
=============================================================================
