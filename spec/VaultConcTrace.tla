--------------------------- MODULE VaultConcTrace ---------------------------
(***************************************************************************)
(* Linearizability check of recorded concurrent histories (C14, C06).      *)
(*                                                                         *)
(* trace.ndjson: histories separated by "reset"; per call a "begin" line   *)
(* (stamped before the call starts) and an "end" line (stamped after it    *)
(* returned) with the reply; "audit" lines in the order the audit sink     *)
(* received the records; a closing "final" line with the state observed    *)
(* when all clients are done.  Lines are ordered by one atomic counter, so *)
(* the order of two lines is never stronger than real time.                *)
(*                                                                         *)
(* A line is consumed by the VaultConc step it witnesses; the Apply steps  *)
(* (linearization points) are not logged -- TLC searches for them.  The    *)
(* history is accepted iff some placement of the Apply points explains     *)
(* every reply, every audit record and the final state.                    *)
(***************************************************************************)
EXTENDS Naturals, Sequences, FiniteSets, TLC, Json

CONSTANT Nil

Trace == ndJsonDeserialize("trace.ndjson")
Dict  == ndJsonDeserialize("dict.ndjson")[1]
\* audit records read back from a real audit file (order of the file); empty when the
\* records were intercepted and are already "audit" lines of the main trace
ATrace == ndJsonDeserialize("audit.ndjson")

ToSet(s) == {s[i] : i \in DOMAIN s}
NameSet == {Dict.names[i].name : i \in DOMAIN Dict.names}
CpTab == [n \in NameSet |-> (CHOOSE i \in DOMAIN Dict.names : Dict.names[i].name = n)]
CpImpl(n) == Dict.names[CpTab[n]].cps
InternalPrefix == <<95, 105, 110, 116, 101, 114, 110, 97, 108, 47>>
ReservedImpl(n) == LET c == CpImpl(n) IN Len(c) >= 10 /\ SubSeq(c, 1, 10) = InternalPrefix
Vals == ToSet(Dict.vals)
MaxVer == Dict.maxver
Clients == ToSet(Dict.clients)

VARIABLES sec, disk, auditOK, last, pc, req, resp, alog, l, a
C == INSTANCE VaultConc WITH Names <- NameSet, Cp <- CpImpl, Reserved <- ReservedImpl
M == INSTANCE TraceMatch

vars == <<sec, disk, auditOK, last, pc, req, resp, alog, l, a>>

Line(ev) == l <= Len(Trace) /\ Trace[l].ev = ev

TraceBegin ==
  /\ Line("begin")
  /\ LET e == Trace[l] IN
     C!Begin(e.cl, [op |-> e.op, who |-> e.who, rules |-> e.rules, name |-> e.name,
                    val |-> (IF e.val = "Nil" THEN Nil ELSE e.val), ver |-> e.ver])
  /\ l' = l + 1 /\ UNCHANGED a

\* an audit line witnesses the Log step of a gated call, or the critical section of a
\* conditional get / list that writes its record while holding the lock
TraceAudit ==
  /\ Line("audit")
  /\ \E c \in Clients :
       \/ (C!Log(c) \/ C!LogList(c) \/ C!LogAfter(c)) /\ M!EntryMatches(alog'[Len(alog')], Trace[l])
       \/ (C!LogApply(c) \/ C!LogDeniedCond(c)) /\ Len(last'.audit) = 1 /\ M!EntryMatches(last'.audit[1], Trace[l])
  /\ l' = l + 1 /\ UNCHANGED a

\* the same step witnessed by the next line of the real audit file
TraceAuditSide ==
  /\ a <= Len(ATrace)
  /\ \E c \in Clients :
       \/ (C!Log(c) \/ C!LogList(c) \/ C!LogAfter(c)) /\ M!EntryMatches(alog'[Len(alog')], ATrace[a])
       \/ (C!LogApply(c) \/ C!LogDeniedCond(c)) /\ Len(last'.audit) = 1 /\ M!EntryMatches(last'.audit[1], ATrace[a])
  /\ a' = a + 1 /\ UNCHANGED l

TraceEnd ==
  /\ Line("end")
  /\ LET e == Trace[l] IN
     /\ pc[e.cl] = "done"
     /\ M!ReplyMatches(resp[e.cl], e.reply, req[e.cl].op = "put")
     /\ C!End(e.cl)
  /\ l' = l + 1 /\ UNCHANGED a

TraceFinal ==
  /\ Line("final")
  /\ \A c \in Clients : pc[c] = "idle"
  /\ M!StateMatches(sec, NameSet, Trace[l].state)
  /\ Len(alog) = Trace[l].auditlines                \* no record lost, none invented
  /\ a = Trace[l].aupto + 1                          \* the audit file is explained up to here
  /\ UNCHANGED <<sec, disk, auditOK, last, pc, req, resp, alog, a>>
  /\ l' = l + 1

TraceReset ==
  /\ Line("reset")
  /\ sec' = C!V!NoSecret /\ disk' = C!V!NoSecret /\ auditOK' = TRUE
  /\ last' = C!V!Out("create", "", "", Nil, 0, "none", C!V!Plain("ok"), <<>>, TRUE, 1)
  /\ pc' = [c \in Clients |-> "idle"] /\ req' = [c \in Clients |-> C!NoReq]
  /\ resp' = [c \in Clients |-> C!V!Plain("ok")] /\ alog' = <<>>
  /\ l' = l + 1 /\ UNCHANGED a

\* unlogged steps: the linearization point, a pre-ACL refusal, a locked call that writes no record
Silent ==
  /\ \E c \in Clients : C!Apply(c) \/ C!Refuse(c) \/ (C!LogApply(c) /\ last'.audit = <<>>) \/ C!ApplyCond(c)
  /\ UNCHANGED <<l, a>>

Init == C!Init /\ l = 1 /\ a = 1
Next == TraceBegin \/ TraceAudit \/ TraceAuditSide \/ TraceEnd \/ TraceFinal \/ TraceReset \/ Silent

TypeOK == C!TypeOK
AuditBeforeEffect == C!AuditBeforeEffect

\* high-water mark of consumed lines (needs -workers 1)
ASSUME TLCSet(1, 0)
HW == TLCGet(1) >= l \/ TLCSet(1, l)
\* acceptance is reported as a violation of NotDone, so that the depth-first search
\* stops at the first complete explanation of the whole file
NotDone == l <= Len(Trace)
Report == PrintT(<<"HW", TLCGet(1)>>)
=============================================================================
