---------------------------- MODULE FileSysTrace ----------------------------
(***************************************************************************)
(* The system calls the kernel saw during each traced save (strace, run by *)
(* run, separated by "begin" lines), held against FileSys: every recorded  *)
(* call is applied with its arguments, and the C04 / C13 properties are    *)
(* evaluated in every state in between -- so "complete and flushed before  *)
(* the rename, live file never touched, owner-only from creation, an error *)
(* leaves the old file, success the new one" is decided on what really     *)
(* happened, whatever names, order of independent steps or extra calls the *)
(* writer uses.  A "fail" line is the call strace made fail (no effect).   *)
(***************************************************************************)
EXTENDS Naturals, Sequences, TLC, Json

Trace == ndJsonDeserialize("trace.ndjson")

VARIABLES files, liveVis, liveDur, bound, touched, result, n, l
F == INSTANCE FileSys

Ev(e) == l <= Len(Trace) /\ Trace[l].ev = e
Adv == l' = l + 1

Begin ==
  /\ Ev("begin")
  /\ files' = <<>> /\ liveVis' = "old" /\ liveDur' = "old" /\ bound' = F!NoFile /\ touched' = FALSE /\ result' = "none"
  /\ n' = Trace[l].size /\ Adv
Step ==
  /\ l <= Len(Trace)
  /\ LET e == Trace[l] IN
     CASE e.ev = "create"    -> F!Create(e.path, e.mode, e.fresh = "t")
       [] e.ev = "truncate"  -> F!Truncate(e.path)
       [] e.ev = "write"     -> F!Write(e.path, e.bytes)
       [] e.ev = "chmod"     -> F!Chmod(e.path, e.mode)
       [] e.ev = "fsync"     -> F!Fsync(e.path)
       [] e.ev = "fsyncdir"  -> F!FsyncDir
       [] e.ev = "close"     -> F!Close(e.path)
       [] e.ev = "rename"    -> F!RenameToLive(e.path)
       [] e.ev = "unlink"    -> F!Unlink(e.path)
       [] e.ev = "touchlive" -> F!TouchLive
       [] e.ev = "loselive"  -> F!LoseLive
       [] e.ev = "fail"      -> F!Failed
       [] e.ev = "end"       -> F!Report(e.result)
       [] OTHER -> FALSE
  /\ Adv

Init == F!FsInit(1) /\ l = 1
Next == Begin \/ Step

AllOrNothingKill  == F!AllOrNothingKill
AllOrNothingPower == F!AllOrNothingPower
LiveUntouched     == F!LiveUntouched
OwnerOnly         == F!OwnerOnly
ErrorMeansOld     == F!ErrorMeansOld
OkMeansNew        == F!OkMeansNew
ReplaceComplete   == F!ReplaceComplete
ReplaceFlushed    == F!ReplaceFlushed

ASSUME TLCSet(1, 0)
HW == TLCGet(1) >= l \/ TLCSet(1, l)
Accepted == PrintT(<<"HW", TLCGet(1)>>) /\ TLCGet(1) = Len(Trace) + 1
=============================================================================
