------------------------------ MODULE BackupMC ------------------------------
(* Bounded instance of Backup: write bursts, idle stretches, a bucket that fails or stalls at any point, *)
(* writes racing an upload, cancellation at any moment.                                                 *)
EXTENDS Integers, Sequences, FiniteSets, TLC
CONSTANTS Nil, MaxGen, Steps, Horizon, Modes, MaxWait
VARIABLES gen, last, pc, cur, until, s3, cancelled, now, ups, quiet, out
B == INSTANCE Backup
vars == <<gen, last, pc, cur, until, s3, cancelled, now, ups, quiet, out>>
Init == B!Init
NextTimes == {t \in {now + d : d \in Steps} \cup B!Timers : t > now /\ t <= Horizon}
Next ==
  \/ B!Check \/ B!Read \/ B!UBegin \/ B!WaitOver \/ B!Exit
  \/ \E ok \in BOOLEAN : B!UEnd(ok)
  \/ (gen < MaxGen /\ B!DbWrite)
  \/ \E m \in Modes : B!S3Mode(m)
  \/ B!Cancel
  \/ \E t \in NextTimes : B!Advance(t)
Spec == Init /\ [][Next]_vars
View == <<gen, last, pc, cur, until, s3, cancelled, now, quiet, IF ups = <<>> THEN 0 ELSE ups[Len(ups)]>>
Consistent == B!Consistent
RateLimit == B!RateLimit
Settled == B!Settled
StepProps == B!ChangeDriven /\ B!Quiescent /\ B!CoverExact

\* BackupInd is the typed twin of the task used for the unbounded inductive proof (Apalache); here TLC checks, on the
\* bounded instance, that Backup refines it (every step of Backup is a step of BackupInd or leaves its variables
\* unchanged) under the abstraction "the upload history is its length and its last element", and that the
\* inductive invariant holds in every reachable state.
BI == INSTANCE BackupInd WITH nups <- Len(ups),
                              lastAt <- (IF ups = <<>> THEN 0 ELSE ups[Len(ups)].at),
                              lastBody <- (IF ups = <<>> THEN 0 ELSE ups[Len(ups)].body)
IndInvHolds == BI!IndInv
RefinesInd == [][BI!Next \/ UNCHANGED BI!vars]_vars
=============================================================================
