------------------------------ MODULE BackupMC ------------------------------
(* Bounded instance of Backup: write bursts, idle stretches, a bucket that fails or stalls at any point, *)
(* writes racing an upload, cancellation at any moment.                                                 *)
EXTENDS Integers, Sequences, FiniteSets, TLC
CONSTANTS Nil, MaxGen, Steps, Horizon, Modes
VARIABLES gen, last, pc, cur, until, s3, cancelled, now, ups, quiet, out
B == INSTANCE Backup
vars == <<gen, last, pc, cur, until, s3, cancelled, now, ups, quiet, out>>
Init == B!Init
NextTimes == {t \in {now + d : d \in Steps} \cup B!Timers : t > now /\ t <= Horizon}
Next ==
  \/ B!Check \/ B!Read \/ B!UBegin \/ B!WaitOver \/ B!Exit
  \/ \E ok \in BOOLEAN : B!UEnd(ok)
  \/ (gen < MaxGen /\ B!DbWrite)
  \/ \E m \in Modes : B!S3Mode(m)
  \/ B!Cancel
  \/ \E t \in NextTimes : B!Advance(t)
Spec == Init /\ [][Next]_vars
View == <<gen, last, pc, cur, until, s3, cancelled, now, quiet, IF ups = <<>> THEN 0 ELSE ups[Len(ups)]>>
Consistent == B!Consistent
RateLimit == B!RateLimit
Settled == B!Settled
StepProps == B!ChangeDriven /\ B!Quiescent /\ B!CoverExact
=============================================================================
