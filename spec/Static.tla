------------------------------- MODULE Static -------------------------------
(***************************************************************************)
(* The placeholder secrets of the client library (for development,         *)
(* migration and tests):                                                   *)
(*   StaticSecret(v)       a handle that yields v for ever                 *)
(*   StaticFile(path)      the contents of the file AT THE TIME OF THE     *)
(*                         CALL, exactly as stored; later changes of the   *)
(*                         file are not seen; a missing file is an error   *)
(*   StaticTextFile(path)  the same with leading and trailing whitespace   *)
(*                         trimmed                                         *)
(*   StaticUpdater(v)      an updater that yields v for ever and never     *)
(*                         rebuilds                                        *)
(* A nil handle yields nil / "".  No listed property speaks about these;   *)
(* the module extends the specification's coverage of the library (C18's   *)
(* check validates recorded runs of the real functions as notes).          *)
(*                                                                         *)
(* Contents are tokens; Trim is given (the identity on tokens without      *)
(* surrounding whitespace).                                                *)
(***************************************************************************)
EXTENDS Naturals, Sequences, TLC

CONSTANTS Contents, Trim(_), Nil

VARIABLES file,     \* what the file holds now (a content token) or Nil (no such file)
          made,     \* the static secrets made so far: sequence of [kind, val]
          out       \* output only

vars == <<file, made, out>>
Kinds == {"value", "file", "textfile", "updater"}

Init == file = Nil /\ made = <<>> /\ out = [ev |-> "init"]

WriteFile(c) == file' = c /\ UNCHANGED made /\ out' = [ev |-> "write", val |-> c]
RemoveFile == file' = Nil /\ UNCHANGED made /\ out' = [ev |-> "remove"]

\* making a placeholder: from a value, or from the file as it is now
Make(kind, v) ==
  /\ kind \in Kinds
  /\ IF kind \in {"file", "textfile"} /\ file = Nil
     THEN /\ UNCHANGED made /\ out' = [ev |-> "make", kind |-> kind, ok |-> FALSE, idx |-> 0]
     ELSE LET val == CASE kind = "file" -> file [] kind = "textfile" -> Trim(file) [] OTHER -> v IN
          /\ made' = Append(made, [kind |-> kind, val |-> val])
          /\ out' = [ev |-> "make", kind |-> kind, ok |-> TRUE, idx |-> Len(made) + 1]
  /\ UNCHANGED file

\* asking the i-th placeholder: what it was made with, whatever has happened to the file since
Get(i) ==
  /\ i \in DOMAIN made
  /\ out' = [ev |-> "get", idx |-> i, val |-> made[i].val]
  /\ UNCHANGED <<file, made>>

\* frozen: nothing ever changes what a placeholder yields
Frozen == [][\A i \in DOMAIN made : made'[i] = made[i]]_vars
=============================================================================
