------------------------------ MODULE GlobTrace ------------------------------
(***************************************************************************)
(* Trace validation for C07 (direction B): every line of trace.ndjson is   *)
(* an answer the real acl package gave; TLC recomputes it from the         *)
(* specification.  A line the specification disagrees with violates LineOK *)
(* and TLC reports the position l.                                         *)
(***************************************************************************)
EXTENDS Naturals, Sequences, TLC, Json
G == INSTANCE Glob
A == INSTANCE ACL

Trace == ndJsonDeserialize("trace.ndjson")

VARIABLE l
Init == l = 1
Next == l <= Len(Trace) /\ l' = l + 1

LineOK ==
  l > Len(Trace) \/
  LET e == Trace[l] IN
    /\ ~e.panic                                              \* evaluation never panics
    /\ CASE e.ev = "match" -> G!Match(e.p, e.n) = e.res
         [] e.ev = "allow" -> A!Allow(e.rules, e.action, e.n) = e.res
         [] OTHER -> FALSE                                    \* unknown event: reject

Accepted == TLCGet("stats").diameter = Len(Trace) + 1
=============================================================================
