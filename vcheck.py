#!/usr/bin/env python3
"""Orchestrator for the setec model-based verification checks.

usage: vcheck.py <Cxx> <quick|thorough> [--replay <path>]

Every check follows the same shape:
  1. build the Go conformance driver from /repo's current working tree (tag verif)
  2. run TLC on the specification (exhaustive config / simulation) and collect what
     it emits (labelled transition graph, behaviours, expected tables)
  3. replay that on the real code (direction A) and/or record traces from the real
     code and validate them against the specification with TLC (direction B)
  4. write evidence/<id>.json from measured counters; print VIOLATION / KNOWN-FINDING
Exit: 0 held, 1 violation (reproduced on the real code), 2 tool trouble (no verdict).
"""
import concurrent.futures
import glob as globmod
import hashlib
import json
import os
import re
import shutil
import subprocess
import sys
import time
import traceback

VERIF = os.path.dirname(os.path.abspath(__file__))
REPO = os.environ.get("VERIF_REPO", "/repo")
GO = os.environ.get("VERIF_GO", "/opt/veriftools/go1.26.8/bin/go")
TLA_CP = "/opt/veriftools/tla/tla2tools.jar:/opt/veriftools/tla/CommunityModules-deps.jar"
SCRATCH_ROOT = os.path.join(os.path.expanduser("~"), ".cache", "verif-scratch")
NCPU = os.cpu_count() or 4


class ToolTrouble(Exception):
    pass


def log(*a):
    print("[vcheck]", *a, file=sys.stderr, flush=True)


def go_env():
    e = dict(os.environ)
    e.update({"GOFLAGS": "-mod=mod", "GOPROXY": "off", "GOTOOLCHAIN": "local", "CGO_ENABLED": "1"})
    e.pop("GOSUMDB", None)
    e["GONOSUMDB"] = "*"
    e["GONOSUMCHECK"] = "1"
    e["GOFLAGS"] = "-mod=mod"
    return e


class TLCRun:
    def __init__(self, d, out, code, wall):
        self.dir, self.out, self.code, self.wall = d, out, code, wall
        self.generated = self.distinct = 0
        self.depth = 0
        self.error = None
        self.errors = []
        self.trace_state = None
        self._parse()

    def _parse(self):
        err_lines = []
        state_lines = []
        in_state = False
        with open(self.out, errors="replace") as f:
            for line in f:
                m = re.match(r"^(\d+) states generated, (\d+) distinct states found", line)
                if m:
                    self.generated, self.distinct = int(m.group(1)), int(m.group(2))
                m = re.match(r"^The depth of the complete state graph search is (\d+)", line)
                if m:
                    self.depth = int(m.group(1))
                if line.startswith("Error:"):
                    err_lines.append(line.strip())
                if "violated by the initial state" in line:
                    in_state = True
                    continue
                if line.startswith("State ") or line.startswith("/\\ ") or in_state:
                    state_lines.append(line.rstrip("\n"))
                    if len(state_lines) > 800:          # keep the END of a long error trace
                        del state_lines[:400]
                    in_state = line.strip() != ""
        self.errors = err_lines
        if err_lines:
            self.error = " | ".join(err_lines[:4])
        self.trace_state = "\n".join(state_lines[-60:])

    def tagged(self, tag):
        """Yield decoded JSON payloads of lines  <<"TAG", "json">>  printed by PrintT."""
        pre = '<<"%s", "' % tag
        with open(self.out, errors="replace") as f:
            for line in f:
                if line.startswith(pre):
                    s = line.rstrip("\n")
                    if not s.endswith('">>'):
                        continue
                    body = s[len(pre):-3]
                    yield json.loads(json.loads('"' + body + '"'))

    def tail(self, n=40):
        with open(self.out, errors="replace") as f:
            lines = [l for l in f.readlines() if not l.startswith('<<"')]
        return "".join(lines[-n:])

    def var_in_error_state(self, var):
        """Value of `var` in the last printed state of an error trace (text)."""
        m = None
        for m in re.finditer(r"(?:/\\ )?%s = (.*)" % re.escape(var), self.trace_state or ""):
            pass
        return m.group(1).strip() if m else None


class Ctx:
    def __init__(self, pid, tier, seed):
        self.id, self.tier, self.seed = pid, tier, seed
        self.t0 = time.time()
        self.scratch = os.path.join(SCRATCH_ROOT, "%s-%s-%d" % (pid, tier, os.getpid()))
        shutil.rmtree(self.scratch, ignore_errors=True)
        os.makedirs(self.scratch)
        self.bins = {}
        self.violations = []
        self.notes = []
        self.tlc_n = 0
        self.tlc_runs = []
        self.thorough = tier == "thorough"

    # ---------------------------------------------------------------- TLC
    def tlc(self, module, cfg, files=None, workers=None, simulate=None, depth=None, timeout=900,
            deque=False, name=None, extra=None, consts=None, heap=None, seed=None, ok_codes=(0,)):
        """Run TLC on spec/<module>.tla with config text or spec/cfg/<cfg> file name."""
        self.tlc_n += 1
        d = os.path.join(self.scratch, "tlc-%d-%s" % (self.tlc_n, name or module))
        os.makedirs(d)
        for f in globmod.glob(os.path.join(VERIF, "spec", "*.tla")):
            shutil.copy(f, d)
        if "\n" in cfg:
            text = cfg
        else:
            text = open(os.path.join(VERIF, "spec", "cfg", cfg)).read()
        if consts:
            for k, v in consts.items():
                text = re.sub(r"(?m)^(\s*%s\s*=).*$" % re.escape(k), r"\1 %s" % v, text)
        with open(os.path.join(d, module + ".cfg"), "w") as f:
            f.write(text)
        for dst, src in (files or {}).items():
            if isinstance(src, bytes):
                open(os.path.join(d, dst), "wb").write(src)
            else:
                shutil.copy(src, os.path.join(d, dst))
        w = workers or min(8, NCPU)
        cmd = ["java", "-XX:+UseParallelGC", "-Xss64m", "-Xmx%s" % (heap or "6g")]
        if deque:
            cmd.append("-Dtlc2.tool.queue.IStateQueue=StateDeque")
        cmd += ["-cp", TLA_CP, "tlc2.TLC", "-workers", str(w), "-metadir", os.path.join(d, "meta"),
                "-noGenerateSpecTE"]
        if simulate:
            cmd += ["-simulate", simulate]
            if depth:
                cmd += ["-depth", str(depth)]
            cmd += ["-seed", str(seed if seed is not None else self.seed)]
        cmd += list(extra or [])
        cmd += ["-config", module + ".cfg", module + ".tla"]
        out = os.path.join(d, "out.txt")
        t0 = time.time()
        env = dict(os.environ)
        env.pop("JAVA_TOOL_OPTIONS", None)
        try:
            with open(out, "w") as fo:
                p = subprocess.run(cmd, cwd=d, stdout=fo, stderr=subprocess.STDOUT, timeout=timeout, env=env)
            code = p.returncode
        except subprocess.TimeoutExpired:
            raise ToolTrouble("TLC timeout after %ds on %s (%s)" % (timeout, module, name))
        run = TLCRun(d, out, code, time.time() - t0)
        self.tlc_runs.append({"module": module, "name": name or cfg if "\n" not in cfg else (name or module),
                              "generated": run.generated, "distinct": run.distinct, "exit": code,
                              "wall_s": round(run.wall, 2), "mode": "simulate" if simulate else "exhaustive"})
        log("TLC %s/%s: exit=%d generated=%d distinct=%d %.1fs" % (module, name or "", code, run.generated, run.distinct, run.wall))
        return run

    def tlc_must_pass(self, run, what):
        """A failing *specification-level* check is a spec bug, never a verdict on the code."""
        if run.code != 0:
            raise ToolTrouble("TLC reports a problem in the specification itself (%s): exit %d\n%s" % (what, run.code, run.tail(30)))

    # ---------------------------------------------------------------- Go
    def harness_dir(self):
        """The harness module builds against /repo (go.mod replace). For trials against another tree
        (VERIF_REPO=<dir>, used only by tools/ when testing seeded changes) a scratch copy is re-pointed."""
        if REPO == "/repo":
            return os.path.join(VERIF, "harness")
        d = os.path.join(self.scratch, "harness-copy")
        if not os.path.exists(d):
            shutil.copytree(os.path.join(VERIF, "harness"), d)
            gm = open(os.path.join(d, "go.mod")).read().replace("=> /repo", "=> " + REPO)
            open(os.path.join(d, "go.mod"), "w").write(gm)
        return d

    def gobuild(self, pkg, race=False):
        key = (pkg, race)
        if key in self.bins:
            return self.bins[key]
        os.makedirs(os.path.join(self.scratch, "bin"), exist_ok=True)
        out = os.path.join(self.scratch, "bin", pkg.replace("/", "_") + ("-race" if race else "") + ".test")
        cmd = [GO, "test", "-c", "-tags", "verif", "-vet=off", "-o", out]
        if race:
            cmd.append("-race")
        cmd.append("./" + pkg)
        t0 = time.time()
        p = subprocess.run(cmd, cwd=self.harness_dir(), env=go_env(), capture_output=True, text=True)
        if p.returncode != 0:
            raise ToolTrouble("build of driver %s against %s failed:\n%s" % (pkg, REPO, (p.stdout + p.stderr)[-4000:]))
        log("built %s%s in %.1fs" % (pkg, " (race)" if race else "", time.time() - t0))
        self.bins[key] = out
        return out

    def godrive(self, pkg, run, env=None, race=False, timeout=1800, workdir=None, name=None, allow_fail=False):
        """Run one driver test; returns (result dict or None, output path, exit code)."""
        binp = self.gobuild(pkg, race)
        wd = workdir or os.path.join(self.scratch, "drv-%s-%s" % (pkg.replace("/", "_"), name or run.strip("^$")))
        os.makedirs(wd, exist_ok=True)
        e = go_env()
        e.update({"VERIF_DIR": wd, "VERIF_SEED": str(self.seed), "VERIF_TIER": self.tier, "VERIF_REPO": REPO,
                  "VERIF_ROOT": VERIF})
        e.update({k: str(v) for k, v in (env or {}).items()})
        out = os.path.join(wd, "driver.out")
        cmd = [binp, "-test.run", run, "-test.v", "-test.timeout", "%ds" % timeout, "-test.count", "1"]
        t0 = time.time()
        with open(out, "w") as fo:
            try:
                p = subprocess.run(cmd, cwd=os.path.join(self.harness_dir(), pkg), env=e, stdout=fo, stderr=subprocess.STDOUT,
                                   timeout=timeout + 30)
                code = p.returncode
            except subprocess.TimeoutExpired:
                raise ToolTrouble("driver %s %s timed out" % (pkg, run))
        log("driver %s %s: exit=%d %.1fs" % (pkg, run, code, time.time() - t0))
        results = {}
        for rp in globmod.glob(os.path.join(wd, "*.result.json")):
            r = json.load(open(rp))
            results[r["name"]] = r
        if code != 0 and not allow_fail:
            tail = "".join(open(out, errors="replace").readlines()[-40:])
            raise ToolTrouble("driver %s %s exited %d without a verdict:\n%s" % (pkg, run, code, tail))
        return results, wd, code

    def take(self, results, name, only=None, drop=None):
        """Turn a driver's findings into violations of the property being checked. A driver shared by two properties reports
        findings about either; `only` / `drop` (substrings of the finding's text) keep each with the property it is about."""
        if name not in results:
            raise ToolTrouble("driver did not report result %r (dead driver)" % name)
        r = results[name]
        for v in (r.get("violations") or []):
            if only is not None and not any(x in v["what"] for x in only):
                continue
            if drop is not None and any(x in v["what"] for x in drop):
                continue
            self.violation(v["key"], v["what"], v.get("replay"))
        return r

    # ---------------------------------------------------------------- verdicts
    def violation(self, key, what, replay=None):
        self.violations.append({"key": key, "what": what, "replay": replay})

    def note(self, s):
        self.notes.append(s)
        log(s)

    def finish(self, level, coverage, assumptions):
        known = []
        kf_path = os.path.join(VERIF, "known_findings.json")
        if os.path.exists(kf_path):
            known = [k for k in json.load(open(kf_path)).get("known", []) if k["property"] == self.id]
        new = []
        hit = {}
        for v in self.violations:
            k = next((k for k in known if re.search(k["match"], v["key"])), None)
            if k:
                hit.setdefault(k["match"], (k, []))[1].append(v)
            else:
                new.append(v)
        for k, vs in hit.values():
            print("KNOWN-FINDING: property=%s %s (%d occurrence(s), e.g. %s)" % (self.id, k["what"], len(vs), vs[0]["key"]))
        evroot = os.environ.get("VERIF_EVIDENCE") or os.path.join(VERIF, "evidence")
        rdir = os.path.join(evroot, "replay")
        paths = []
        if new:
            os.makedirs(rdir, exist_ok=True)
        seen = set()
        for i, v in enumerate(new):
            if v["key"] in seen:
                continue
            seen.add(v["key"])
            if len(paths) >= 10:
                break
            h = hashlib.sha1(v["key"].encode()).hexdigest()[:10]
            p = os.path.join(rdir, "%s-%s-%s.json" % (self.id, self.seed, h))
            json.dump({"property": self.id, "tier": self.tier, "seed": self.seed, "key": v["key"], "what": v["what"],
                       "replay": v["replay"]}, open(p, "w"), indent=1)
            paths.append(p)
            print("VIOLATION property=%s replay=%s" % (self.id, p))
            print("  " + v["what"][:600])
        coverage = dict(coverage)
        coverage["tlc_runs"] = self.tlc_runs
        if self.notes:
            coverage["notes"] = self.notes[:20]
        ev = {"property_id": self.id, "tier": self.tier, "seed": self.seed, "level": level, "coverage": coverage,
              "assumptions": assumptions, "wall_s": round(time.time() - self.t0, 2), "violations": len(new),
              "known_findings_hit": [k["what"] for k, _ in hit.values()]}
        os.makedirs(evroot, exist_ok=True)
        tmp = os.path.join(evroot, ".%s.json.tmp" % self.id)
        json.dump(ev, open(tmp, "w"), indent=1)
        os.replace(tmp, os.path.join(evroot, "%s.json" % self.id))
        return 1 if new else 0

    def cleanup(self):
        if os.environ.get("VERIF_KEEP"):
            log("keeping scratch " + self.scratch)
            return
        shutil.rmtree(self.scratch, ignore_errors=True)


def pmap(fn, items, par=None):
    with concurrent.futures.ThreadPoolExecutor(max_workers=par or NCPU) as ex:
        return list(ex.map(fn, items))


def write_ndjson(path, objs):
    with open(path, "w") as f:
        for o in objs:
            f.write(json.dumps(o, separators=(",", ":")) + "\n")


def split_ndjson(path, parts, outdir, prefix):
    lines = open(path).read().splitlines()
    n = max(1, (len(lines) + parts - 1) // parts)
    outs = []
    for i in range(0, len(lines), n):
        p = os.path.join(outdir, "%s-%d.ndjson" % (prefix, len(outs)))
        with open(p, "w") as f:
            f.write("\n".join(lines[i:i + n]) + "\n")
        outs.append((p, i, lines[i:i + n]))
    return outs


def main():
    import checks
    args = sys.argv[1:]
    if len(args) < 2:
        print(__doc__)
        return 2
    pid = args[0]
    if args[1] == "--replay":
        return checks.replay(pid, args[2])
    tier = args[1]
    if tier not in ("quick", "thorough"):
        tier = os.environ.get("VERIF_TIER", "quick")
    try:
        seed = int(os.environ.get("VERIF_SEED", "1"))
    except ValueError:
        seed = 1
    if pid not in checks.CHECKS:
        print("unknown property", pid)
        return 2
    ctx = Ctx(pid, tier, seed)
    try:
        level, coverage, assumptions = checks.CHECKS[pid](ctx)
        rc = ctx.finish(level, coverage, assumptions)
        log("%s %s seed=%d: %s in %.1fs" % (pid, tier, seed, "VIOLATION" if rc else "held", time.time() - ctx.t0))
        return rc
    except ToolTrouble as e:
        print("TOOL-TROUBLE property=%s: %s" % (pid, e))
        if ctx.violations:
            # what the real code was already seen doing stands, whatever broke down afterwards (often because of it)
            ctx.note("a later part of the check did not complete: %s" % str(e)[:300])
            rc = ctx.finish("other", {"explanation": "the check recorded %d violation(s) on the real code and then could not complete (%s); "
                                                      "only the violations are reported, no coverage is claimed" % (len(ctx.violations), str(e)[:200]),
                                       "incomplete": True}, ["the check did not run to its end"])
            log("%s %s seed=%d: VIOLATION (check incomplete) in %.1fs" % (pid, tier, seed, time.time() - ctx.t0))
            return rc
        return 2
    except Exception:
        traceback.print_exc()
        print("TOOL-TROUBLE property=%s: orchestrator exception" % pid)
        return 2
    finally:
        ctx.cleanup()


if __name__ == "__main__":
    sys.exit(main())
