#!/usr/bin/env python3
"""Regenerates MANIFEST.json from the table below (single source of truth for the interface)."""
import json
import os

VERIF = os.path.dirname(os.path.abspath(__file__))

# id -> (level category, level text, level note, technique, design ref)
CLAIMED = {
    "C04": ("fault_enumeration",
            "AtomicFile.tla models the writer as it is (temp file, write, chmod, fsync, close, rename) with Kill, PowerLoss and IoError at every "
            "step (and two negative-control writers); TLC checks AllOrNothing on it. FileSys.tla states what C04 requires of ANY sequence of "
            "file-system calls: the live name is only re-bound, by rename, to a file that is complete, flushed, owner-only and held nothing but "
            "this save's bytes; the live file is never written, truncated, unlinked or moved; an error reply leaves the old binding, success the "
            "new one. A child process performs one real mutating call of each kind under strace; the calls that create, write, flush, rename or "
            "remove files are validated by TLC against FileSys (whatever names, order of independent steps or extra calls the writer uses). Every "
            "traced call is in turn made to fail (injected errno) and to be the instant of a SIGKILL: after a kill the real db.Open must find the "
            "complete pre- or post-call state and a restarted server must be able to grow and shrink the file; after an injected error a call "
            "that reports an error must have left disk and served state at pre (and a retry succeeds), a call that reports success at post. "
            "In-process save failures (with partial writes) are the save-fault edges of a two-name Vault graph, walked once watching the live "
            "instance and once watching a copy of the file after every call, with a successful save of another secret after every failed one.",
            "SIGKILL leaves the page cache intact; power loss is decided on the model given the recorded calls (ReplaceFlushed, AllOrNothingPower). "
            "Rename durability without a directory fsync is an explicit file-system assumption. Quick tier: create / new version / delete; thorough: all six operation kinds.",
            "TLA+ file-system model + TLC validation of strace-recorded system calls + strace fault/kill injection at every call + TLC fault graph replay",
            "DESIGN.md §11.2 (C04 / C13)"),
    "C05": ("fault_enumeration",
            "Envelope.tla (symbolic AEAD: wrapped DEK under the KEK, sealed database under the DEK, both with associated data) is checked by TLC "
            "for TamperEvident under flips, truncation, single-field splices, cross-field moves and wrong KEK; each tamper class is instantiated "
            "exhaustively on real files written with a real AES-256-GCM KEK (every bit flip, every truncation length, splices between databases of "
            "the same and of another KEK), oracle: error or exactly the original contents. Random histories with high-entropy marker names/values "
            "are scanned after every call (all files, raw/base64/hex/JSON forms, modes 0600) and validated by TLC, whose Vault!KekOnlyAtOpen fixes "
            "that the KEK is consulted only while the database is opened or created and never by reads or writes; the backup timelines (C17's driver) count "
            "its uses from the moment the database is open -- none while the server runs, writes and uploads.",
            "Scanning is a byte-level monitor; the specification fixes where and when it applies. Whole-file rollback is out of scope by the property.",
            "TLA+ envelope model + exhaustive tamper enumeration on real files + marker scanning in TLC-validated histories",
            "DESIGN.md §4 C05"),
    "C08": ("model_checking",
            "Http.tla puts the gate (method, content type, browser header, identity incl. both capability names and malformed grants, body) in "
            "front of Vault with the exact status table; TLC checks GateNoEffect / StatusExact / PrincipalExact over the full request-class product "
            "in every store state. Every emitted row is sent as a concrete request (several representatives per class) to the real mux: status, "
            "body (no secret bytes unless 200, empty on 304), audit sink and store untouched when refused, principal recorded and rules applied. "
            "Overlapping requests by callers with different grants go through the real handlers with replies delivered over a slow connection "
            "(every other reply pauses where its delivery starts); TLC (VaultConcTrace) requires each reply to be the caller's own result.",
            "WhoIs never returns nil Node/UserProfile; a body with trailing data after a valid JSON value is only used as a read-only primer before malformed requests. Quick tier rotates the "
            "non-conforming representatives with the seed.",
            "TLC exhaustive request-class graph of Http.tla replayed on the real HTTP mux + TLC validation of concurrent handler histories",
            "DESIGN.md §4 C08"),
    "C01": ("model_checking",
            "TLC enumerates the complete labelled transition graph of spec/Vault.tla for a family of 39 callers (all-access, empty, every "
            "single action x pattern rule, split rules, a multi-rule set, a head/tail-overlapping wildcard) x every operation and argument x existing/absent/reserved/empty names "
            "in every reachable bounded state, and checks AclGate / EffectImpliesGrant / ListExact on it; every edge is then executed on the real "
            "db.DB and through the real HTTP handlers (WhoIs carrying the rules), comparing reply class, payload, audit record and the full state "
            "before/after. Random histories with arbitrary generated rule sets are validated line by line by TLC, which recomputes Allow with the "
            "specification's own matcher (Glob.tla), not acl.go. Concurrent histories in which callers with partial or no grants race authorized "
            "ones (database API and HTTP handlers, race detector on) are validated by VaultConcTrace: no request may borrow another's verdict.",
            "Bounded model constants; quick tier samples the 4-name graph (the 3-name graph is complete). WhoIs is the injected seam.",
            "TLC exhaustive graph of Vault.tla replayed on real code (db + http) + TLC trace validation of random and concurrent histories",
            "DESIGN.md §4 C01"),
    "C02": ("model_checking",
            "The Vault specification IS the sequential map model of the statement. TLC enumerates every transition (every operation with every "
            "argument incl. version 0, absent versions, empty values, delete-then-recreate, re-put after deleting the newest version; reopen) of "
            "the bounded instance and checks the step lemmas (fresh never-reused numbers, immutability, non-interference, failed calls change "
            "nothing); the harness executes every edge on the real db.DB from a real state equal to the edge's pre-state and compares reply and "
            "the full projected state, including the hidden next-version counters (probed on a copy of the file), after every call.",
            "Exhaustive for the stated constants (2 names x 2-3 values x 3 versions; 1 name x 4-5 versions); beyond that random histories (C01/C06 checks).",
            "TLC exhaustive graph of Vault.tla, complete edge coverage replayed on real db.DB with state comparison after every step",
            "DESIGN.md §4 C02"),
    "C03": ("model_checking",
            "Same graph as C02 walked with a real restart (db.Open on the same file and key) after every single call: the projection including "
            "next-version counters must equal the model state (Durable: disk = sec) and the open must leave the file bytes untouched; six golden "
            "schema-v1 files written by the pinned commit are opened by the current build and the observed state is appended to the recorded "
            "history that produced them, which TLC validates against Vault (Reopen action). Save-fault graphs (one and two names) are walked with "
            "restarts and with a copy of the file opened after every call: a failed call acknowledges nothing, also not later.",
            "Golden files were produced by the pinned commit with a committed cleartext test keyset; quick tier samples 40% of the edges.",
            "TLC graph replay with restart after every operation + golden-file histories validated by TLC",
            "DESIGN.md §4 C03"),
    "C06": ("model_checking",
            "Vault.tla models the audit step of every method (who, action, secret, version, authorized; none for an unchanged conditional get; "
            "fail closed; whether the writer recovers after a failed write or stays latched, as the pinned encoder does, is left open). TLC enumerates the graph with an audit sink failing at the write or the sync of any record "
            "and a failing save; every edge is replayed with a sink the harness owns, which checks per call the records written, that each is "
            "one complete synced JSON line and that the database file was still untouched when it was written. Random histories with faults are "
            "validated by TLC; concurrent callers append to a real audit.NewFile file and TLC explains the file's record order (VaultConcTrace).",
            "The audit sink is an injected io.Writer with Sync; the concurrent part uses a real file read back afterwards.",
            "TLC exhaustive fault graph replayed on real code + TLC trace validation (sequential and concurrent)",
            "DESIGN.md §4 C06"),
    "C09": ("model_checking",
            "Every conditional-get edge of the bounded Vault graph (V = current, older, newer, deleted, never-existing, 0; after activation "
            "forwards and backwards) is executed through db.DB, through the HTTP handler + setec.Client.GetIfChanged (304/404/403 mapping) and "
            "against a FileClient built from the state's active versions; CondGet is checked by TLC on the specification. Conditional gets racing "
            "activations, puts and deletions -- and each other, carrying different versions -- are recorded at the database API and through the "
            "HTTP handlers and explained by TLC (the check-and-read is one atomic step; every caller gets the answer to its own question).",
            "FileClient omits empty-valued secrets by design.",
            "TLC exhaustive graph of Vault.tla, conditional-get edges replayed through three client paths + TLC validation of concurrent histories",
            "DESIGN.md §4 C09"),
    "C14": ("model_checking",
            "VaultConc.tla splits every method at the code's lock boundaries (audit outside the mutex, data step inside; conditional get and "
            "list in one critical section). TLC checks all interleavings of a small instance, and -- the deciding part -- validates recorded "
            "concurrent histories of the real server (db API and HTTP handlers, race detector on): begin/end/audit events in one total order, "
            "the Apply steps left to TLC, which therefore performs the linearizability search per history, including audit order and final state. "
            "A 'list' mix (one client changes the two shared names in turn, the others list, up to 150 other secrets sorting between the names) "
            "holds listings to one state.",
            "Histories are small (2-4 clients x 2-5 calls) and numerous; a race report counts only with a setec frame on the stack.",
            "TLC linearizability search over recorded concurrent histories (trace validation with silent steps) + race detector",
            "DESIGN.md §4 C14"),
    "C07": ("exploration",
            "TLC computes the complete expected match table from the TLA+ definition Glob!Match (itself cross-checked in TLC against the "
            "independent 'literal pieces in order, anchored' definition MatchP, plus the rule-set lemmas in ACLMC) for every (pattern, name) "
            "pair over small alphabets containing '*', '/', '.', newline and regexp metacharacters; the harness replays every pair on the real "
            "acl.Secret.Match. Randomly generated Unicode patterns, names and rule sets answered by the real code are then validated line by "
            "line by TLC (GlobTrace). Exhaustive inside the bound, sampled beyond it: the right level for a pure function over strings. The "
            "rule-evaluation lemmas (no rules no access; a rule without actions or patterns grants nothing; adding rules never revokes; access "
            "under a concatenation comes from one part) are proved with TLAPS for rule sets of any length and any matcher (ACLProofs.tla over "
            "the same definitions ACL.tla instantiates).",
            "Trusts TLC's evaluation of Glob.tla and that Go runes of valid UTF-8 are the code points the spec talks about. Beyond the stated "
            "alphabets/lengths the evidence is sampling.",
            "TLA+ spec as oracle: TLC-generated exhaustive match table replayed on real code + TLC trace validation of random cases",
            "DESIGN.md §4 C07"),
    "C10": ("model_checking",
            "Store.tla models construction of the client store at the grain of store.go: cache load (only a well-formed document is used), "
            "stubs, init rounds (one Get per still-missing secret per round, never for a secret already obtained or supplied by the cache), the "
            "a pause between rounds that is positive and at most a few seconds, the caller's deadline, the final flush, and the file-backed client (succeed or fail at once). TLC "
            "checks InitOK / LookupGate / HandleNeverDangles exhaustively over declared sets (duplicates included) x cache classes x failure scripts "
            "x deadlines. Random scripted-service histories of the real NewStore, run under testing/synctest (virtual time), are validated line "
            "by line by TLC (StoreTrace): every request, its virtual timestamp (so each back-off delay and the prompt return at the deadline are "
            "exact), the cache write and the return.",
            "Virtual time (testing/synctest); the scripted StoreClient honours contexts like the HTTP client does. Misconfigurations are the "
            "three listed ones (no client, nothing to fetch, empty name).",
            "TLC exhaustive check of Store.tla (init configuration) + TLC trace validation of recorded synctest histories of the real NewStore",
            "DESIGN.md §4 C10"),
    "C11": ("model_checking",
            "Store.tla models a poll as snapshot / one conditional request per known secret / apply-or-abort / cache flush, with overlapping "
            "Refresh callers and ticks joining the round in flight. TLC checks PollConverges (every known secret ends at a version that was the "
            "service's active one at some instant during the poll), Coalesce and that a failed poll changes nothing, over all interleavings of "
            "activations forwards and backwards, request failures, reads, handles and refresh callers. Random gated histories of the real store "
            "(driver releases each request; service changes between requests; restarts) are validated line by line; the real poller with a real "
            "time.Ticker on the virtual clock is validated against Cadence.tla (one fixed period within +/-10% of the interval). With the shipped file "
            "cache against the real service, a store started from its cache file polls a newer, shorter version: store, cache file, a successor "
            "store and the file client must hold it (RoundTrip.tla, journey 'newver').",
            "Freshness is judged by version number, as the protocol does. Refresh joiners inherit the first caller's context (not modelled as ending).",
            "TLC exhaustive check of Store.tla (poll configuration) + TLC trace validation of recorded histories + cadence trace validation",
            "DESIGN.md §4 C11"),
    "C16": ("model_checking",
            "Store.tla models lookups: the gate (no request for an undeclared name when lookups are disabled), one flight per name, per-caller "
            "contexts with the five-minute fallback, timers due at one instant firing in any order, retry after the leader's context ended, "
            "give-up at the caller's own deadline, a real service error reported to every member without retry and without installing anything. "
            "TLC checks LookupGate, Bounded and NotCollateral over callers x deadlines x cancellations x services that answer, fail or hang with an "
            "explicit clock; random histories of the real store under synctest (hanging service, clock advanced by up to 20 virtual minutes) are "
            "validated line by line, so a caller still pending after its bound, a second concurrent request, or a foreign cancellation is rejected. "
            "Fields.Apply as a caller of lookups (run-time generated struct shapes): at most one request per field naming a secret, nothing "
            "asked and the missing secret reported when lookups are disabled.",
            "Virtual time; a hanging service is a request the driver never releases.",
            "TLC exhaustive check of Store.tla (lookup configuration) + TLC trace validation of recorded synctest histories",
            "DESIGN.md §4 C16"),
    "C19": ("model_checking",
            "Store.tla models expiry: a secret is marked expired in the poll snapshot iff it is undeclared, an age is set, it has not been read for "
            "longer than the age and no handle exists; it is dropped at the end of a successful poll unless a handle appeared meanwhile; reads "
            "stamp the access time, stamps are persisted by the next cache write and a restart recomputes 'declared' from the new configuration. "
            "TLC checks DropRule / NeverDropDeclared / HandleNeverDangles over reads, handles, polls, clock steps and restarts from caches with any "
            "stamps (incl. 0); random histories of the real store with the virtual clock are validated, incl. the stamps in every cache write.",
            "The clock is the synctest bubble's; stamps are whole seconds as in the cache document.",
            "TLC exhaustive check of Store.tla (expiry configuration) + TLC trace validation of recorded synctest histories",
            "DESIGN.md §4 C19"),
    "C15": ("model_checking",
            "Updater.tla splits NewUpdater (register the watcher / read the secret / build) and Updater.Get (take u.mu and drain the one-slot "
            "notification / read / build / close the replaced value / return) at the code's critical sections and lets installs (the end of a "
            "successful poll: new values + notifications under the store lock) happen between any two of them. TLC checks WakeNotLost (a stale "
            "value always has a pending notification or a reported failure), ReturnFresh, NoSpuriousBuild, CloseOnce, AllClosed and FailKeeps over "
            "all interleavings of 2 updaters, 1-2 concurrent Get callers, 1-2 names, install bursts and builder failures. Real updaters on a real "
            "Store are driven sequentially (bursts of 1-3 installs between Gets, builder failures, several updaters, cache write failures) and "
            "concurrently (installer, 2-3 Get goroutines, an updater created mid-flight; race detector on); every builder call, Close and returned "
            "value is logged and TLC (UpdaterTrace) searches for the placement of the unlogged steps that explains them; a third family holds the "
            "caller's builder open while installs and a second Get caller arrive. Unbounded: Apalache proves the invariant of the typed twin "
            "UpdaterInd.tla (WakeNotLost, ReturnFresh) inductive for any number of installs, and TLC checks that Updater refines the twin.",
            "Versions stand for bytes (64-byte recognisable values; the builder checks it got a whole value of the right secret). Quick tier checks "
            "two reduced products (one name / one Get caller); thorough the full one (29.6 M states).",
            "TLC exhaustive check of Updater.tla + TLC trace validation (with schedule search) of recorded sequential and concurrent histories",
            "DESIGN.md §4 C15"),
    "C12": ("model_checking",
            "Store.tla makes calling a handle an action that is enabled in every state in which the handle exists (while a successor store is "
            "constructed, during polls, lookups, the expiry sweep, while and after Close) and that returns the version most recently installed "
            "for that name. TLC checks HandleNeverDangles, InstalledServed, InstLast and ReadServed exhaustively over handles x reads x polls "
            "(ticks and refreshes) x lookups (incl. two callers racing for one unknown name) x expiry x Close x service changes. Recorded "
            "histories of the real store are validated by TLC: random sequential ones (a read is attempted at every point, also while a "
            "request is held by the scripted service: it must complete without the clock or any request moving), behaviours simulated by TLC "
            "from the same configurations and forced on the real store step by step, and concurrent ones in which three reader goroutines "
            "call handles in bursts racing the driver's step under the race detector, where TLC places each call between its begin and end "
            "line. A stress run (8 readers, 60 installing polls, lookups, expiry, Close) under the race detector checks the order property "
            "on hundreds of thousands of reads.",
            "'No data race' is Go's memory model and is decided by the race detector on these runs, not by the specification. A blocked handle "
            "call is detected by a real-time watchdog outside the virtual-time bubble (20 s).",
            "TLC exhaustive check of Store.tla (reads + race configurations) + TLC trace validation of random, TLC-simulated and concurrent histories + race detector",
            "DESIGN.md §4 C12"),
    "C13": ("model_checking",
            "Store.tla models the cache as one document rewritten as a whole after the initial fetch (when something was missing), after every "
            "lookup, after every poll that changed something and when the poller shuts down; a failing write leaves the old document; only a "
            "well-formed document is used at start-up, anything else is ignored as a whole; a successor store starts from whatever the cache holds. "
            "TLC checks CacheVersions and the start-up rules over cache classes x write faults x restarts. Recorded histories of the real store "
            "(random, and TLC-simulated behaviours forced on it) are validated incl. the exact payload of every Cache.Write (names, versions, "
            "bytes, access stamps), restarts with the service unreachable (the successor serves exactly the cached pairs without a request), and "
            "every written document is fed to a real FileClient which must agree on every secret. Cache contents that are malformed by "
            "construction (truncations, missing / null / mistyped members, empty name, non-object incl. null, trailing or random bytes) are fed to "
            "the real NewStore and TLC validates that the start behaves exactly as with no cache. FileCache.Write runs in a child under strace: its "
            "system calls are validated against FileSys.tla (whatever names and order the writer uses) and each is made to fail or to be the instant of a SIGKILL (old or new document, 0600).",
            "Inputs whose treatment encoding/json leaves open (duplicate keys, case-variant member names, extra members, overflowing numbers) only "
            "have to start without panic and serve the cache's or the service's value. Power loss is decided on the model (FileSys!ReplaceFlushed, AllOrNothingPower) given the recorded calls.",
            "TLC exhaustive check of Store.tla (cache configuration) + TLC trace validation (random, TLC-simulated, malformed-input histories) + strace fault/kill injection on FileCache.Write validated against AtomicFile.tla",
            "DESIGN.md §4 C13"),
    "C20": ("exploration",
            "Fields.tla is the decision table of the struct-tag plumbing written from the documented behaviour (which secrets are requested, what "
            "each field kind receives, what is rejected up front, that a failing field is reported and does not stop the others). The harness "
            "builds every struct shape of up to 2 (thorough: 3) fields over 12 field kinds and 2 secret names with reflect.StructOf, for 3 "
            "prefixes and every combination of secret value forms (JSON object / JSON number / undecodable bytes / missing), pushes each through the "
            "real ParseFields + Fields.Apply and through NewStore(Structs), and records acceptance or the rejection reason, the names requested, "
            "what every field holds afterwards, whether an error was reported, whether overwriting a populated []byte field changes what the "
            "store serves, and whether Secret fields follow the next poll while copies keep their value; plus random shapes of 3-6 fields, half of "
            "them handed over with every tagged field already holding something, and Apply under a context that is already over. TLC "
            "(FieldsTrace) recomputes every one of these from Fields.tla for every case.",
            "Universality over struct shapes is by bounded enumeration plus generation; prefixes and names are clean slash-separated paths; "
            "unexported or name-ambiguous embedded fields are not generated.",
            "TLA+ decision table (Fields.tla) as oracle: TLC validates one trace line per run-time-generated struct shape executed on the real code",
            "DESIGN.md §4 C20"),
    "C18": ("exploration",
            "RoundTrip.tla fixes the journey of a value (put; get and get-version over the real HTTP API; both again after a server restart; a "
            "client Store; the Store's cache document; a successor Store started from that cache with the service unreachable; a file-backed "
            "client on the same file), that every hop must deliver exactly the bytes put, and the one exception the property makes (the "
            "file-backed client may omit an empty value); a name then has a future: a newer, shorter version reaching a running store, its "
            "shrinking cache file, a successor store and the file client, and the secret deleted and put again until the version number it "
            "had reached means other bytes. Concurrent gets of large values run with every other reply delivered in pieces. Generated byte strings of every named class (empty, NULs, newlines, invalid UTF-8, JSON "
            "and base64 look-alikes, all byte values, every length residue mod 3, up to megabytes) are driven through the real system and TLC "
            "validates every recorded hop. PutCli.tla is the decision table of `setec put` written from the documented behaviour (with the "
            "latitude where both --verbatim and --trim-space are given); the binary built from the working tree is run for every input class x "
            "{file, pipe} x all 8 flag subsets x several concrete inputs against a local real server, and TLC checks exit status, number of "
            "requests and the stored bytes of every run against PutCli!Allowed.",
            "Universality over byte strings is by generation, not enumeration; the terminal (interactive) input path is not exercised. Retrieval "
            "paths at the db.DB level are additionally covered byte-for-byte by the C02/C03/C09 graph replays (binary value dictionary).",
            "TLA+ journey and decision-table specifications as oracles: TLC validates recorded end-to-end journeys of generated values and every run of the real CLI binary",
            "DESIGN.md §4 C18"),
    "C17": ("model_checking",
            "Backup.tla models the periodic-backup loop step by step (check the write generation / read the live file / the request reaches the "
            "bucket / outcome incl. the client's time limit / wait at least a minute, at most MaxWait / exit on cancellation) with database writes, a bucket that answers, "
            "fails or stalls, cancellation and an explicit clock that cannot pass a due step. TLC checks Consistent (every object is a complete "
            "file version), ChangeDriven, RateLimit, Quiescent (whenever time passes the task waits, uploads or is gone; a cancelled task is gone "
            "before any time passes), CoverExact (success covers exactly the generation read before the upload) and Settled (quiet and healthy for "
            "two minutes implies the newest backup is the current file) over all bounded timelines. The real loop (hook "
            "server.VerifPeriodicBackup, build tag verif) runs under testing/synctest against a real db.DB and an in-memory S3 endpoint on random "
            "timelines (write bursts, idle stretches up to 10 minutes, failures and stalls at any position, writes racing a stalled upload, "
            "cancellation at any moment); every write, request body digest, outcome, clock step, cancellation and return is validated by TLC "
            "(BackupTrace), which places the unlogged steps. A real-time watchdog reports a bubble that never becomes idle (a spinning task), and a "
            "real-time run through server.New with AWS_ENDPOINT_URL on a loopback listener checks that the task is started and uploads the file. "
            "Unbounded: Apalache proves the invariant of the typed twin BackupInd.tla (Consistent, the inductive form of RateLimit) inductive for any "
            "clock and any number of writes, and TLC checks that Backup refines the twin.",
            "Virtual time; the S3 endpoint is an in-memory HTTP client inside a real aws-sdk s3.Client (one attempt per upload). 'Does not hammer the "
            "database lock' is covered as 'takes no step while waiting'. Quick tier uses a coarser clock grid for the exhaustive check.",
            "TLC exhaustive check of Backup.tla + TLC trace validation of recorded synctest timelines of the real loop (verif hook) + real-time spin watchdog",
            "DESIGN.md §4 C17"),
}

ALL = ["C%02d" % i for i in range(1, 21)]

NOT_YET = "check not built yet in this round (planned with the same TLA+ technique, see DESIGN.md §4)"


def main():
    checks = []
    for pid in ALL:
        if pid not in CLAIMED:
            continue
        cat, text, note, tech, ref = CLAIMED[pid]
        checks.append({
            "property_id": pid,
            "quick_cmd": "./check %s quick" % pid,
            "thorough_cmd": "./check %s thorough" % pid,
            "evidence_file": "/verif/evidence/%s.json" % pid,
            "replay_cmd_template": "./check %s --replay {path}" % pid,
            "engine": "tla-conformance",
            "level_claimed": {"category": cat, "text": text, "design_ref": ref},
            "level_note": note,
            "technique": tech,
        })
    hooks_commits = []
    hc = os.path.join(VERIF, "hooks_commits.txt")
    if os.path.exists(hc):
        hooks_commits = [l.strip() for l in open(hc) if l.strip()]
    m = {
        "version": 1,
        "setup_cmd": "./setup.sh",
        "hooks": {
            "guard": "verif",
            "enable": "go build tag: the drivers are built with `go test -c -tags verif` from /verif/harness (replace github.com/tailscale/setec => /repo)",
            "baseline_off_cmd": "cd /repo && GOFLAGS=-mod=mod GOPROXY=off go test -vet=off -count=1 ./...",
            "source_commits": hooks_commits,
            "add_only": True,
        },
        "engines": [{
            "name": "tla-conformance",
            "path": "/verif/vcheck.py",
            "serves_properties": [c["property_id"] for c in checks],
            "kind_free_text": "explicit TLA+ specification (spec/*.tla) checked with TLC; TLC-emitted transition graphs / behaviours replayed on "
                              "the real Go code and traces recorded from the real code validated against the specification by TLC",
        }],
        "checks": checks,
        "not_applicable": [{"property_id": p, "reason": NOT_YET} for p in ALL if p not in CLAIMED],
        "notes": "Entry point: ./check <Cxx> <quick|thorough>. Exit 0 held / 1 VIOLATION / 2 tool trouble (no verdict). See DESIGN.md.",
    }
    json.dump(m, open(os.path.join(VERIF, "MANIFEST.json"), "w"), indent=1)
    print("MANIFEST.json: %d checks, %d not_applicable" % (len(checks), len(m["not_applicable"])))


if __name__ == "__main__":
    main()
