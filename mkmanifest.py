#!/usr/bin/env python3
"""Regenerates MANIFEST.json from the table below (single source of truth for the interface)."""
import json
import os

VERIF = os.path.dirname(os.path.abspath(__file__))

# id -> (level category, level text, level note, technique, design ref)
CLAIMED = {
    "C07": ("exploration",
            "TLC computes the complete expected match table from the TLA+ definition Glob!Match (itself cross-checked in TLC against the "
            "independent 'literal pieces in order, anchored' definition MatchP, plus the rule-set lemmas in ACLMC) for every (pattern, name) "
            "pair over small alphabets containing '*', '/', '.', newline and regexp metacharacters; the harness replays every pair on the real "
            "acl.Secret.Match. Randomly generated Unicode patterns, names and rule sets answered by the real code are then validated line by "
            "line by TLC (GlobTrace). Exhaustive inside the bound, sampled beyond it: the right level for a pure function over strings.",
            "Trusts TLC's evaluation of Glob.tla and that Go runes of valid UTF-8 are the code points the spec talks about. Beyond the stated "
            "alphabets/lengths the evidence is sampling.",
            "TLA+ spec as oracle: TLC-generated exhaustive match table replayed on real code + TLC trace validation of random cases",
            "DESIGN.md §4 C07"),
}

ALL = ["C%02d" % i for i in range(1, 21)]

NOT_YET = "check not built yet in this round (planned with the same TLA+ technique, see DESIGN.md §4)"


def main():
    checks = []
    for pid in ALL:
        if pid not in CLAIMED:
            continue
        cat, text, note, tech, ref = CLAIMED[pid]
        checks.append({
            "property_id": pid,
            "quick_cmd": "./check %s quick" % pid,
            "thorough_cmd": "./check %s thorough" % pid,
            "evidence_file": "/verif/evidence/%s.json" % pid,
            "replay_cmd_template": "./check %s --replay {path}" % pid,
            "engine": "tla-conformance",
            "level_claimed": {"category": cat, "text": text, "design_ref": ref},
            "level_note": note,
            "technique": tech,
        })
    hooks_commits = []
    hc = os.path.join(VERIF, "hooks_commits.txt")
    if os.path.exists(hc):
        hooks_commits = [l.strip() for l in open(hc) if l.strip()]
    m = {
        "version": 1,
        "setup_cmd": "./setup.sh",
        "hooks": {
            "guard": "verif",
            "enable": "go build tag: the drivers are built with `go test -c -tags verif` from /verif/harness (replace github.com/tailscale/setec => /repo)",
            "baseline_off_cmd": "cd /repo && GOFLAGS=-mod=mod GOPROXY=off go test -vet=off -count=1 ./...",
            "source_commits": hooks_commits,
            "add_only": True,
        },
        "engines": [{
            "name": "tla-conformance",
            "path": "/verif/vcheck.py",
            "serves_properties": [c["property_id"] for c in checks],
            "kind_free_text": "explicit TLA+ specification (spec/*.tla) checked with TLC; TLC-emitted transition graphs / behaviours replayed on "
                              "the real Go code and traces recorded from the real code validated against the specification by TLC",
        }],
        "checks": checks,
        "not_applicable": [{"property_id": p, "reason": NOT_YET} for p in ALL if p not in CLAIMED],
        "notes": "Entry point: ./check <Cxx> <quick|thorough>. Exit 0 held / 1 VIOLATION / 2 tool trouble (no verdict). See DESIGN.md.",
    }
    json.dump(m, open(os.path.join(VERIF, "MANIFEST.json"), "w"), indent=1)
    print("MANIFEST.json: %d checks, %d not_applicable" % (len(checks), len(m["not_applicable"])))


if __name__ == "__main__":
    main()
