"""Parser for the values TLC prints in behaviour files (-simulate file=...): records, functions, sequences,
sets, strings, integers, booleans, model values.  Returns plain Python (dict / list / frozenset-as-sorted-list)."""
import re

_tok = re.compile(r'\s*(\|->|:>|@@|<<|>>|\[|\]|\{|\}|\(|\)|,|"(?:[^"\\]|\\.)*"|-?\d+|[A-Za-z_][A-Za-z0-9_]*)')


def tokenize(s):
    pos, out = 0, []
    while pos < len(s):
        m = _tok.match(s, pos)
        if not m:
            if s[pos:].strip() == "":
                break
            raise ValueError("cannot tokenize at %r" % s[pos:pos + 30])
        out.append(m.group(1))
        pos = m.end()
    return out


class P:
    def __init__(self, toks):
        self.t, self.i = toks, 0

    def peek(self):
        return self.t[self.i] if self.i < len(self.t) else None

    def eat(self, x=None):
        v = self.t[self.i]
        if x is not None and v != x:
            raise ValueError("expected %r got %r" % (x, v))
        self.i += 1
        return v

    def value(self):
        v = self.atom()
        while self.peek() == "@@":          # (k :> v @@ k2 :> v2)
            self.eat()
            w = self.atom()
            v = dict(v, **w)
        return v

    def atom(self):
        t = self.peek()
        if t == "[":
            self.eat()
            d = {}
            if self.peek() == "]":
                self.eat()
                return d
            while True:
                k = self.eat()
                if k.startswith('"'):
                    k = k[1:-1]
                self.eat("|->")
                d[k] = self.value()
                if self.peek() == ",":
                    self.eat()
                    continue
                self.eat("]")
                return d
        if t == "<<":
            self.eat()
            xs = []
            while self.peek() != ">>":
                xs.append(self.value())
                if self.peek() == ",":
                    self.eat()
            self.eat(">>")
            return xs
        if t == "{":
            self.eat()
            xs = []
            while self.peek() != "}":
                xs.append(self.value())
                if self.peek() == ",":
                    self.eat()
            self.eat("}")
            return {"__set__": xs}
        if t == "(":
            self.eat()
            k = self.value()
            if self.peek() == ":>":
                self.eat()
                v = self.value()
                d = {str(k): v}
                while self.peek() == "@@":
                    self.eat()
                    k2 = self.value()
                    self.eat(":>")
                    d[str(k2)] = self.value()
                self.eat(")")
                return d
            self.eat(")")
            return k
        self.eat()
        if t.startswith('"'):
            return t[1:-1]
        if re.fullmatch(r"-?\d+", t):
            return int(t)
        if t == "TRUE":
            return True
        if t == "FALSE":
            return False
        if self.peek() == ":>":             # bare  k :> v  (single-pair function)
            self.eat()
            return {t: self.value()}
        return {"__mv__": t}                # model value (Nil)


def parse(s):
    p = P(tokenize(s))
    v = p.value()
    return v


def is_nil(v):
    return isinstance(v, dict) and v.get("__mv__") is not None


def setof(v):
    return v["__set__"] if isinstance(v, dict) and "__set__" in v else v


def read_behaviour(path):
    """Yield one dict var -> value per state of a TLC behaviour file."""
    txt = open(path).read()
    states = re.split(r"(?m)^STATE_\d+ ==\s*$", txt)[1:]
    for st in states:
        st = st.split("\n\n")[0] if False else st
        vars_ = {}
        # conjuncts start with '/\ name = ' at column 0
        parts = re.split(r"(?m)^/\\ ", st)
        for part in parts[1:]:
            m = re.match(r"([A-Za-z_][A-Za-z0-9_]*) = (.*)", part, re.S)
            if not m:
                continue
            body = m.group(2).split("\n\n")[0]
            try:
                vars_[m.group(1)] = parse(body.strip())
            except Exception as ex:
                vars_[m.group(1)] = {"__err__": str(ex)}
        yield vars_
