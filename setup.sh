#!/bin/sh
# Offline setup: warm the Go build cache for every conformance driver (built against /repo's
# working tree with tag verif) and make sure TLC starts. Nothing is fetched.
set -e
cd "$(dirname "$0")"
export GOFLAGS=-mod=mod GOPROXY=off GOTOOLCHAIN=local
GO=${VERIF_GO:-/opt/veriftools/go1.26.8/bin/go}
mkdir -p "$HOME/.cache/verif-scratch/setup"
cd harness
for p in $($GO list ./... ); do
  case "$p" in */vh) $GO build "$p" ;; */cmd/*) $GO build -tags verif -o "$HOME/.cache/verif-scratch/setup/x.bin" "$p" ;; *) $GO test -c -tags verif -vet=off -o "$HOME/.cache/verif-scratch/setup/x.test" "$p" ;; esac
done
rm -rf "$HOME/.cache/verif-scratch/setup"
java -cp /opt/veriftools/tla/tla2tools.jar tlc2.TLC -h 2>&1 | grep -q "model checker" || { echo "TLC does not start"; exit 1; }
echo setup ok
