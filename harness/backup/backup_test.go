//go:build verif

// Package backup binds spec/Backup.tla to the real periodic-backup loop (server/backup.go) through the
// verif hook server.VerifPeriodicBackup: the loop runs inside a testing/synctest bubble against a real
// db.DB and an in-memory S3 endpoint; everything observable is logged with virtual time for TLC.
package backup

import (
	"bytes"
	"context"
	"crypto/sha256"
	"encoding/hex"
	"fmt"
	"io"
	"math/rand"
	"net"
	"net/http"
	"os"
	"path/filepath"
	"strings"
	"sync"
	"sync/atomic"
	"testing"
	"testing/synctest"
	"time"

	"github.com/aws/aws-sdk-go-v2/aws"
	"github.com/aws/aws-sdk-go-v2/credentials"
	"github.com/aws/aws-sdk-go-v2/service/s3"
	"github.com/tailscale/setec/acl"
	"github.com/tailscale/setec/audit"
	"github.com/tailscale/setec/db"
	"github.com/tailscale/setec/server"
	"tailscale.com/client/tailscale/apitype"
	"verifharness/vault"
	"verifharness/vh"
)

type Event = map[string]any

func sum(b []byte) string { h := sha256.Sum256(b); return hex.EncodeToString(h[:8]) }

type env struct {
	mu     sync.Mutex
	events []Event
	start  time.Time
	mode   string
	held   []chan string // requests stalled by the bucket; released with the mode that ends the stall
	notes  []string
	scanDir string
	scans   int
}

func (e *env) t() int64 { return time.Since(e.start).Milliseconds() }
func (e *env) log(ev Event) {
	e.mu.Lock()
	ev["t"] = e.t()
	e.events = append(e.events, ev)
	e.mu.Unlock()
}
func (e *env) note(f string, a ...any) {
	e.mu.Lock()
	e.notes = append(e.notes, fmt.Sprintf(f, a...))
	e.mu.Unlock()
}

// Do is the S3 endpoint: it sees exactly what the SDK sends.
func (e *env) Do(req *http.Request) (*http.Response, error) {
	body, _ := io.ReadAll(req.Body)
	req.Body.Close()
	if req.Method != http.MethodPut {
		e.note("unexpected %s request to the bucket: %s", req.Method, req.URL)
	}
	e.log(Event{"ev": "ubegin", "sha": sum(body), "len": len(body), "key": req.URL.Path})
	if e.scanDir != "" {
		e.scan("while an upload is in flight")
	}
	e.mu.Lock()
	mode := e.mode
	var ch chan string
	if mode == "hold" {
		ch = make(chan string, 1)
		e.held = append(e.held, ch)
	}
	e.mu.Unlock()
	if ch != nil {
		select {
		case mode = <-ch:
		case <-req.Context().Done():
			e.mu.Lock()
			for i, c := range e.held {
				if c == ch {
					e.held = append(e.held[:i], e.held[i+1:]...)
					break
				}
			}
			e.mu.Unlock()
			e.log(Event{"ev": "uend", "ok": "f", "why": "context"})
			return nil, req.Context().Err()
		}
	}
	resp := func(code int, body string) *http.Response {
		return &http.Response{StatusCode: code, Status: fmt.Sprintf("%d", code), Proto: "HTTP/1.1", ProtoMajor: 1, ProtoMinor: 1,
			Header: http.Header{"Content-Type": {"application/xml"}}, Body: io.NopCloser(bytes.NewReader([]byte(body))), Request: req}
	}
	if mode == "ok" {
		e.log(Event{"ev": "uend", "ok": "t"})
		return resp(200, ""), nil
	}
	e.log(Event{"ev": "uend", "ok": "f", "why": "500"})
	return resp(500, `<?xml version="1.0"?><Error><Code>InternalError</Code><Message>scripted</Message></Error>`), nil
}

// scan: the state directory holds the database file and nothing else readable by others (C05).
func (e *env) scan(when string) {
	filepath.Walk(e.scanDir, func(p string, fi os.FileInfo, err error) error {
		if err != nil || fi.IsDir() {
			return nil
		}
		e.scans++
		if fi.Mode().Perm() != 0o600 {
			e.note("%s the state directory holds %s with mode %o", when, filepath.Base(p), fi.Mode().Perm())
		}
		if filepath.Base(p) != "state.db" && !strings.HasPrefix(filepath.Base(p), "state.db") {
			e.note("%s the state directory holds an extra file %s", when, filepath.Base(p))
		} else if filepath.Base(p) != "state.db" {
			if b, _ := os.ReadFile(p); len(b) > 0 && !strings.Contains(filepath.Base(p), ".tmp") {
				e.note("%s the state directory holds a copy of the database: %s (mode %o)", when, filepath.Base(p), fi.Mode().Perm())
			}
		}
		return nil
	})
}

func (e *env) heldNow() []chan string { e.mu.Lock(); defer e.mu.Unlock(); return append([]chan string(nil), e.held...) }
func (e *env) modeNow() string       { e.mu.Lock(); defer e.mu.Unlock(); return e.mode }

func (e *env) setMode(m string) {
	e.mu.Lock()
	if e.mode == m {
		e.mu.Unlock()
		return
	}
	e.mode = m
	held := e.held
	if m != "hold" {
		e.held = nil
	}
	e.mu.Unlock()
	e.log(Event{"ev": "s3", "mode": m})
	if m != "hold" {
		for _, c := range held {
			c <- m
		}
	}
}

var progress atomic.Int64 // moves whenever the driver completes a step (watched from outside the bubble)

func allRules() acl.Rules {
	return acl.Rules{{Action: []acl.Action{acl.ActionGet, acl.ActionInfo, acl.ActionPut, acl.ActionActivate, acl.ActionDelete}, Secret: []acl.Secret{"*"}}}
}

// timeline runs one random timeline; returns its events.
func timeline(t *testing.T, r *rand.Rand, dir string, steps int) ([]Event, []string) {
	var evs []Event
	var notes []string
	synctest.Test(t, func(t *testing.T) {
		os.RemoveAll(dir)
		os.MkdirAll(dir, 0o700)
		d, err := db.Open(filepath.Join(dir, "state.db"), vault.SharedKEK(), audit.New(io.Discard))
		if err != nil {
			t.Fatal(err)
		}
		if r.Intn(2) == 0 {
			// the server starts on a database file left by an earlier process (which may never have uploaded it)
			if _, err := d.Put(db.Caller{Principal: audit.Principal{User: "earlier"}, Permissions: allRules()}, "k0", []byte("from an earlier process")); err != nil {
				t.Fatal(err)
			}
			if d, err = db.Open(filepath.Join(dir, "state.db"), vault.SharedKEK(), audit.New(io.Discard)); err != nil {
				t.Fatal(err)
			}
		}
		e := &env{start: time.Now(), mode: "ok", scanDir: dir}
		file := func() []byte { b, _ := os.ReadFile(d.Path()); return b }
		kek0 := vault.SharedKEK().Uses() // the database is open: from here on nobody has any business with the key-encryption key (C05)
		gen0 := d.WriteGen()
		e.log(Event{"ev": "reset", "sha": sum(file())})
		cl := s3.New(s3.Options{Region: "us-east-1", BaseEndpoint: aws.String("http://s3.test"), UsePathStyle: true,
			Credentials: credentials.NewStaticCredentialsProvider("AKIDEXAMPLE", "secret", ""), HTTPClient: e, RetryMaxAttempts: 1,
			RequestChecksumCalculation: aws.RequestChecksumCalculationWhenRequired})
		ctx, cancel := context.WithCancel(context.Background())
		exited := make(chan struct{})
		go func() {
			server.VerifPeriodicBackup(ctx, d, cl, "bucket")
			e.log(Event{"ev": "exit"})
			close(exited)
		}()
		synctest.Wait()
		progress.Add(1)
		su := db.Caller{Principal: audit.Principal{User: "harness"}, Permissions: allRules()}
		cancelled := false
		nwrites := 0
		for i := 0; i < steps; i++ {
			switch k := r.Intn(100); {
			case k < 30 && !cancelled:
				for b := 1 + r.Intn(3)*r.Intn(2); b > 0; b-- { // single writes and bursts
					nwrites++
					gw := d.WriteGen()
					if r.Intn(4) == 0 {
						// the file also shrinks: a secret with all its versions goes (an absent one: nothing is written)
						if err := d.Delete(su, fmt.Sprintf("k%d", r.Intn(3))); err != nil {
							t.Fatal(err)
						}
					} else if _, err := d.Put(su, fmt.Sprintf("k%d", r.Intn(3)), bytes.Repeat([]byte(fmt.Sprintf("value %d ", nwrites)), 1+r.Intn(40))); err != nil {
						t.Fatal(err)
					}
					if d.WriteGen() == gw {
						continue // nothing was written (an absent secret deleted)
					}
					e.log(Event{"ev": "write", "gen": int(d.WriteGen() - gen0 + 1), "sha": sum(file())})
				}
			case k < 36 && !cancelled && len(e.heldNow()) == 0 && e.modeNow() != "hold":
				// a write that fails (the state directory is gone for a moment): nothing was saved
				gb, fb := d.WriteGen(), sum(file())
				os.Rename(dir, dir+".away")
				_, perr := d.Put(su, "k9", []byte(fmt.Sprintf("never saved %d", i)))
				os.Rename(dir+".away", dir)
				if perr == nil {
					t.Fatal("the fault injection did not make the put fail")
				}
				moved := "f"
				if d.WriteGen() != gb || sum(file()) != fb {
					moved = "t" // a write that reported failure changed the file or the write generation
				}
				e.log(Event{"ev": "writefail", "moved": moved})
			case k < 75:
				ms := []int64{1000, 10000, 30000, 59999, 60000, 60001, 120000, 300000, 600000, 1000000}[r.Intn(10)]
				target := e.t() + ms
				time.Sleep(time.Duration(ms) * time.Millisecond)
				synctest.Wait()
				e.log(Event{"ev": "adv", "t": target})
			case k < 93:
				e.setMode([]string{"ok", "ok", "fail", "hold"}[r.Intn(4)])
			case k < 96 && !cancelled:
				cancelled = true
				e.log(Event{"ev": "cancel"})
				cancel()
			}
			synctest.Wait()
			progress.Add(1)
		}
		synctest.Wait()
		if !cancelled && r.Intn(2) == 0 {
			// left alone with a healthy bucket for longer than any wait the specification accepts: whatever failed before has
			// been retried by now and the newest backup is the current file (Settled)
			e.setMode("ok")
			synctest.Wait()
			target := e.t() + 1020000
			time.Sleep(1020000 * time.Millisecond)
			synctest.Wait()
			e.log(Event{"ev": "adv", "t": target})
		}
		e.scan("at the end of the timeline (after failed and successful uploads)")
		e.log(Event{"ev": "end"})
		e.mu.Lock()
		evs = append(evs, e.events...)
		notes = append(notes, e.notes...)
		e.mu.Unlock()
		if k := vault.SharedKEK().Uses() - kek0; k != 0 {
			notes = append(notes, fmt.Sprintf("the key-encryption key was consulted %d time(s) while the server was running (writes, uploads), after the database had been opened", k))
		}
		// let everything go
		cancel()
		e.mu.Lock()
		held := e.held
		e.held = nil
		e.mode = "fail"
		e.mu.Unlock()
		for _, c := range held {
			c <- "fail"
		}
		select {
		case <-exited:
		case <-time.After(10 * time.Minute):
			notes = append(notes, "the backup task did not return within 10 minutes of its context being cancelled")
		}
	})
	// the final "end" line's t was taken before cleanup
	return evs, notes
}

func TestBackupTimelines(t *testing.T) {
	dir := vh.Dir(t)
	res := vh.NewResult(t, "backup-timelines")
	n := vh.EnvInt("VERIF_TRACES", 50)
	w := vh.NewNDJSON(t, filepath.Join(dir, "trace.ndjson"))
	// watchdog on the real clock: a bubble that does not become idle means the task spins (or blocks without a timer)
	var cur atomic.Pointer[[]Event]
	quit := make(chan struct{})
	go func() {
		last, since := progress.Load(), time.Now()
		for {
			select {
			case <-quit:
				return
			case <-time.After(250 * time.Millisecond):
			}
			if p := progress.Load(); p != last {
				last, since = p, time.Now()
			} else if time.Since(since) > 25*time.Second {
				res.Violate("backup-spin", "the virtual-time bubble did not become idle for 25 s of real time: the backup task is spinning (it neither waits for "+
					"its timer nor for cancellation)", map[string]any{"timeline": cur.Load()})
				res.Write(t)
				os.Exit(0)
			}
		}
	}()
	uploads, writes := 0, 0
	for i := 0; i < n; i++ {
		r := vh.Rand(int64(104729 * i))
		evs, notes := timeline(t, r, filepath.Join(dir, "db"), 14+r.Intn(14))
		cur.Store(&evs)
		for _, ev := range evs {
			w.Put(ev)
			switch ev["ev"] {
			case "ubegin":
				uploads++
			case "write":
				writes++
			}
		}
		for _, nt := range notes {
			res.Violate("backup-note "+nt[:min(len(nt), 50)], fmt.Sprintf("timeline %d: %s", i, nt), map[string]any{"timeline": evs})
		}
		if i < 2 {
			var kinds []string
			for _, ev := range evs {
				kinds = append(kinds, fmt.Sprintf("%v@%v", ev["ev"], ev["t"]))
			}
			res.Sample(map[string]any{"events": kinds})
		}
	}
	close(quit)
	w.Close()
	res.Set("timelines", n)
	res.Set("uploads", uploads)
	res.Set("writes", writes)
	res.Write(t)
}

// TestServerStartsBackups: server.New starts the task when a bucket is configured (real time, loopback
// endpoint given through the standard AWS environment variables): the first upload arrives promptly
// and carries the database file.
func TestServerStartsBackups(t *testing.T) {
	res := vh.NewResult(t, "backup-servernew")
	dir := vh.Dir(t)
	var mu sync.Mutex
	var bodies [][]byte
	srv := &http.Server{Handler: http.HandlerFunc(func(w http.ResponseWriter, r *http.Request) {
		b, _ := io.ReadAll(r.Body)
		mu.Lock()
		if r.Method == http.MethodPut {
			bodies = append(bodies, b)
		}
		mu.Unlock()
		w.WriteHeader(200)
	})}
	ln, err := net.Listen("tcp", "127.0.0.1:0")
	if err != nil {
		t.Fatal(err)
	}
	go srv.Serve(ln)
	defer srv.Close()
	t.Setenv("AWS_ENDPOINT_URL", "http://"+ln.Addr().String())
	t.Setenv("AWS_ACCESS_KEY_ID", "AKIDEXAMPLE")
	t.Setenv("AWS_SECRET_ACCESS_KEY", "secret")
	t.Setenv("AWS_EC2_METADATA_DISABLED", "true")
	t.Setenv("AWS_REQUEST_CHECKSUM_CALCULATION", "when_required")
	os.MkdirAll(filepath.Join(dir, "sdb"), 0o700)
	d, err := db.Open(filepath.Join(dir, "sdb", "state.db"), vault.SharedKEK(), audit.New(io.Discard))
	if err != nil {
		t.Fatal(err)
	}
	ctx, cancel := context.WithCancel(context.Background())
	defer cancel()
	mux := http.NewServeMux()
	if _, err := server.New(ctx, server.Config{DB: d, Mux: mux, BackupBucket: "bucket", BackupBucketRegion: "us-east-1",
		WhoIs: func(context.Context, string) (*apitype.WhoIsResponse, error) { return nil, fmt.Errorf("unused") }}); err != nil {
		t.Fatalf("server.New: %v", err)
	}
	deadline := time.Now().Add(20 * time.Second)
	for time.Now().Before(deadline) {
		mu.Lock()
		n := len(bodies)
		mu.Unlock()
		if n > 0 {
			break
		}
		time.Sleep(50 * time.Millisecond)
	}
	mu.Lock()
	defer mu.Unlock()
	file, _ := os.ReadFile(d.Path())
	if len(bodies) == 0 {
		res.Violate("backup-servernew none", "server.New with a backup bucket configured did not upload anything within 20 s", nil)
	} else if !bytes.Contains(bodies[0], file) && !bytes.Equal(bodies[0], file) {
		res.Violate("backup-servernew body", fmt.Sprintf("the first object uploaded by server.New (%d bytes) is not the database file (%d bytes)", len(bodies[0]), len(file)), nil)
	}
	res.Set("uploads", len(bodies))
	res.Write(t)
}
