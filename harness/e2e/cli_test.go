package e2e

// TestCliSession runs random sessions of the real `setec` binary (built from the working tree) against a real
// server on a loopback listener: list, info, get (plain / --version / --if-changed), put, activate,
// delete-version and delete-secret with every kind of confirmation token. One line per command goes to
// trace.ndjson: the arguments, exit status, number of API requests that reached the server, standard output
// (parsed), whether a confirmation token was printed, and the full server state afterwards. TLC validates the
// lines against spec/Cli.tla (CliTrace).

import (
	"bytes"
	"errors"
	"fmt"
	"os"
	"os/exec"
	"path/filepath"
	"regexp"
	"sort"
	"strconv"
	"strings"
	"testing"

	"github.com/tailscale/setec/audit"
	"github.com/tailscale/setec/db"
	"verifharness/vault"
	"verifharness/vh"
)

var cliNames = []struct{ model, real string }{
	{"A", "app/db-password"}, {"B", "b"}, {"C", "x.y/z_9"}, {"_internal/X", "_internal/X"},
}

var cliVals = map[string][]byte{
	"x": []byte("alpha"), "y": []byte("beta gamma\nsecond line"), "z": {0xff, 0x00, 0xfe, '\n', 0x80, 'q'},
}

func cliTok(b []byte) string {
	for k, v := range cliVals {
		if bytes.Equal(v, b) {
			return k
		}
	}
	if len(b) == 0 {
		return "E"
	}
	return fmt.Sprintf("?%x", b)
}

func cliModelName(real string) string {
	for _, n := range cliNames {
		if n.real == real {
			return n.model
		}
	}
	return "?" + real
}

// observe projects the server state through the database API as an all-access caller.
func cliObserve(d *db.DB) ([]vault.SecState, error) {
	su := db.Caller{Principal: audit.Principal{User: "observer"}, Permissions: allRules()}
	infos, err := d.List(su)
	if err != nil {
		return nil, err
	}
	out := []vault.SecState{}
	for _, in := range infos {
		st := vault.SecState{Name: cliModelName(in.Name), Active: int(in.ActiveVersion), Latest: 0, Vers: []vault.VerVal{}}
		for _, v := range in.Versions {
			sv, err := d.GetVersion(su, in.Name, v)
			if err != nil {
				return nil, err
			}
			st.Vers = append(st.Vers, vault.VerVal{V: int(v), Val: cliTok(sv.Value)})
		}
		out = append(out, st)
	}
	sort.Slice(out, func(i, j int) bool { return out[i].Name < out[j].Name })
	return out, nil
}

type cliRun struct {
	exit   int
	reqs   int
	stdout []byte
	stderr []byte
	state  []vault.SecState // the server's state right after the run
}

var tokenRE = regexp.MustCompile(`use token "([^"]+)"`)

func TestCliSession(t *testing.T) {
	dir := vh.Dir(t)
	res := vh.NewResult(t, "e2e-cli")
	bin := os.Getenv("VERIF_SETEC_BIN")
	if bin == "" {
		t.Fatal("VERIF_SETEC_BIN not set")
	}
	sessions := vh.EnvInt("VERIF_TRACES", 6)
	steps := vh.EnvInt("VERIF_EVENTS", 60)
	w := vh.NewNDJSON(t, filepath.Join(dir, "trace.ndjson"))
	r := vh.Rand(97)
	maxver := 3
	cmds := 0
	for sn := 0; sn < sessions; sn++ {
		s := &sys{dir: filepath.Join(dir, fmt.Sprintf("srv%d", sn))}
		os.MkdirAll(s.dir, 0o700)
		s.start(t)
		run := func(stdin []byte, args ...string) cliRun {
			cmd := exec.Command(bin, append([]string{"-s", s.srv.URL}, args...)...)
			cmd.Env = append(os.Environ(), "SETEC_SERVER=")
			if stdin != nil {
				cmd.Stdin = bytes.NewReader(stdin)
			}
			var so, se bytes.Buffer
			cmd.Stdout, cmd.Stderr = &so, &se
			r0 := s.reqs.Load()
			err := cmd.Run()
			cr := cliRun{stdout: so.Bytes(), stderr: se.Bytes(), reqs: int(s.reqs.Load() - r0)}
			if err != nil {
				var ee *exec.ExitError
				if !errors.As(err, &ee) {
					t.Fatalf("cannot run %s: %v", bin, err)
				}
				cr.exit = 1
			}
			st, err := cliObserve(s.db)
			if err != nil {
				t.Fatalf("observer: %v", err)
			}
			cr.state = st
			return cr
		}
		none := map[string]any{"some": false}
		emit := func(cmd, name string, ver int, flag bool, val, tok string, cr cliRun, out map[string]any) {
			st := cr.state
			for _, x := range st {
				for _, v := range x.Vers {
					if v.V > maxver {
						maxver = v.V
					}
				}
			}
			full := map[string]any{"kind": "none", "rows": []any{}, "info": none, "val": "Nil", "ver": 0}
			for k, v := range out {
				full[k] = v
			}
			printed := tokenRE.Match(cr.stderr) || tokenRE.Match(cr.stdout)
			w.Put(Event{"ev": "cmd", "cmd": cmd, "name": name, "ver": ver, "flag": tf(flag), "val": val, "tok": tok, "exit": cr.exit, "reqs": cr.reqs,
				"out": full, "printed": tf(printed), "state": st, "stderr": first(cr.stderr)})
			cmds++
			if cmds%37 == 1 {
				res.Sample(map[string]any{"cmd": cmd, "name": name, "ver": ver, "tok": tok, "exit": cr.exit, "requests": cr.reqs, "stdout": first(cr.stdout)})
			}
		}
		token := func(args ...string) (string, cliRun) {
			cr := run(nil, args...)
			m := tokenRE.FindSubmatch(append(append([]byte{}, cr.stderr...), cr.stdout...))
			if m == nil {
				return "", cr
			}
			return string(m[1]), cr
		}
		// one delete command with a token of the given kind; logs the token-less first call too when there is one
		del := func(cmd string, nm struct{ model, real string }, ver int, kind string) {
			base := []string{"delete", nm.real} // the command word is `delete`; its confirmation request reads "delete-secret:<name>"
			if cmd == "delete-version" {
				base[0] = cmd
				base = append(base, strconv.Itoa(ver))
			}
			switch kind {
			case "none":
				cr := run(nil, base...)
				emit(cmd, nm.model, ver, false, "", "none", cr, nil)
			case "garbage":
				cr := run(nil, append(base, "1c.deadbeefdeadbeef")...)
				emit(cmd, nm.model, ver, false, "", "garbage", cr, nil)
			case "foreign":
				// a token genuinely issued just now, but for another request
				other := []string{"delete", nm.real + "-other"}
				if cmd == "delete-secret" {
					other = []string{"delete-version", nm.real, "1"}
				}
				tk, _ := token(other...)
				if tk == "" {
					return
				}
				cr := run(nil, append(base, tk)...)
				emit(cmd, nm.model, ver, false, "", "foreign", cr, nil)
			case "stale":
				tk, _ := token(base...)
				i := strings.IndexByte(tk, '.')
				if i <= 0 {
					return // token format not understood: cannot age it
				}
				wn, err := strconv.ParseInt(tk[:i], 16, 64)
				if err != nil {
					return
				}
				cr := run(nil, append(base, fmt.Sprintf("%x%s", wn-1, tk[i:]))...)
				emit(cmd, nm.model, ver, false, "", "stale", cr, nil)
			default: // fresh: ask, then use what was printed; a minute boundary between the two is retried once
				for attempt := 0; ; attempt++ {
					tk, cr0 := token(base...)
					if tk == "" {
						emit(cmd, nm.model, ver, false, "", "none", cr0, nil)
						return
					}
					cr := run(nil, append(base, tk)...)
					if cr.exit != 0 && cr.reqs == 0 && attempt == 0 {
						continue
					}
					emit(cmd, nm.model, ver, false, "", "none", cr0, nil)
					emit(cmd, nm.model, ver, false, "", "fresh", cr, nil)
					return
				}
			}
		}
		w.Put(Event{"ev": "reset"})
		for k := 0; k < steps; k++ {
			nm := cliNames[r.Intn(len(cliNames))]
			if nm.model == "_internal/X" && r.Intn(3) > 0 {
				nm = cliNames[r.Intn(3)]
			}
			ver := r.Intn(maxver + 2)
			switch c := r.Intn(20); {
			case c < 2:
				cr := run(nil, "list")
				rows := []any{}
				lines := strings.Split(strings.TrimRight(string(cr.stdout), "\n"), "\n")
				for i, ln := range lines {
					f := strings.Fields(ln)
					if i == 0 || len(f) < 3 {
						continue
					}
					act, _ := strconv.Atoi(f[1])
					vs := []int{}
					for _, x := range strings.Split(f[2], ",") {
						n, _ := strconv.Atoi(x)
						vs = append(vs, n)
					}
					rows = append(rows, map[string]any{"some": true, "name": cliModelName(f[0]), "active": act, "versions": vs})
				}
				out := map[string]any{"kind": "rows", "rows": rows}
				if cr.exit != 0 {
					out = nil
				}
				emit("list", "", 0, false, "", "none", cr, out)
			case c < 4:
				cr := run(nil, "info", nm.real)
				var out map[string]any
				if cr.exit == 0 {
					inf := map[string]any{"some": true, "name": "", "active": 0, "versions": []int{}}
					for _, ln := range strings.Split(string(cr.stdout), "\n") {
						k, v, ok := strings.Cut(ln, ":")
						v = strings.TrimSpace(v)
						if !ok {
							continue
						}
						switch k {
						case "Name":
							inf["name"] = cliModelName(v)
						case "Active version":
							inf["active"], _ = strconv.Atoi(v)
						case "Versions":
							vs := []int{}
							for _, x := range strings.Split(v, ",") {
								if n, err := strconv.Atoi(strings.TrimSpace(x)); err == nil {
									vs = append(vs, n)
								}
							}
							inf["versions"] = vs
						}
					}
					out = map[string]any{"kind": "info", "info": inf}
				}
				emit("info", nm.model, 0, false, "", "none", cr, out)
			case c < 9:
				args := []string{"get"}
				ifc := r.Intn(3) == 0
				if r.Intn(3) == 0 {
					ver = 0
				}
				if ver != 0 {
					args = append(args, "--version", strconv.Itoa(ver))
				}
				if ifc {
					args = append(args, "--if-changed")
				}
				cr := run(nil, append(args, nm.real)...)
				var out map[string]any
				if cr.exit == 0 {
					out = map[string]any{"kind": "value", "val": cliTok(cr.stdout)}
				} else if len(cr.stdout) != 0 {
					out = map[string]any{"kind": "value", "val": cliTok(cr.stdout)} // a failed get that wrote something: let the specification see it
				}
				emit("get", nm.model, ver, ifc, "", "none", cr, out)
			case c < 14:
				tok := []string{"x", "y", "z"}[r.Intn(3)]
				cr := run(cliVals[tok], "put", nm.real)
				var out map[string]any
				if cr.exit == 0 {
					if m := regexp.MustCompile(`version (\d+)`).FindSubmatch(cr.stdout); m != nil {
						n, _ := strconv.Atoi(string(m[1]))
						out = map[string]any{"kind": "saved", "ver": n}
					} else {
						out = map[string]any{"kind": "saved", "ver": 0}
					}
				}
				emit("put", nm.model, 0, false, tok, "none", cr, out)
			case c < 16:
				if r.Intn(6) == 0 {
					bad := []string{"two", "-1", "1.5", "99999999999", ""}[r.Intn(5)]
					cr := run(nil, "activate", nm.real, bad)
					emit("activate", nm.model, 0, true, "", "none", cr, nil)
				} else {
					cr := run(nil, "activate", nm.real, strconv.Itoa(ver))
					emit("activate", nm.model, ver, false, "", "none", cr, nil)
				}
			case c < 19:
				if r.Intn(8) == 0 {
					cr := run(nil, "delete-version", nm.real, "v2")
					emit("delete-version", nm.model, 0, true, "", "none", cr, nil)
				} else {
					del("delete-version", nm, ver, []string{"none", "fresh", "fresh", "fresh", "stale", "foreign", "garbage"}[r.Intn(7)])
				}
			default:
				del("delete-secret", nm, 0, []string{"none", "fresh", "fresh", "stale", "foreign", "garbage"}[r.Intn(6)])
			}
		}
		s.stop()
	}
	w.Close()
	type nmj struct {
		Name string `json:"name"`
		Cps  []int  `json:"cps"`
	}
	names := []nmj{}
	for _, n := range cliNames {
		names = append(names, nmj{n.model, vh.Runes(n.model)})
	}
	dw := vh.NewNDJSON(t, filepath.Join(dir, "dict.ndjson"))
	dw.Put(map[string]any{"names": names, "vals": []string{"x", "y", "z"}, "maxver": maxver + 2})
	dw.Close()
	res.Set("sessions", sessions)
	res.Set("commands", cmds)
	res.Write(t)
}
