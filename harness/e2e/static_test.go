package e2e

// TestStatic records runs of the library's placeholder secrets (StaticSecret, StaticFile, StaticTextFile, StaticUpdater)
// against a file that is rewritten and removed in between; TLC validates the lines against spec/Static.tla.

import (
	"bytes"
	"os"
	"path/filepath"
	"testing"

	"github.com/tailscale/setec/client/setec"
	"verifharness/vh"
)

func TestStatic(t *testing.T) {
	dir := vh.Dir(t)
	res := vh.NewResult(t, "e2e-static")
	w := vh.NewNDJSON(t, filepath.Join(dir, "trace.ndjson"))
	r := vh.Rand(131)
	contents := [][]byte{[]byte("plain"), []byte("  padded text \n"), []byte("\n\t \n"), {}, {0xff, 0xfe, ' ', '\n'}, []byte("line1\nline2\n"), []byte(" é世 ")}
	type trimRec struct {
		Of string `json:"of"`
		Is string `json:"is"`
	}
	var trims []trimRec
	for _, c := range contents {
		trims = append(trims, trimRec{sum(c), sum(bytes.TrimSpace(c))})
	}
	runs := vh.EnvInt("VERIF_TRACES", 20)
	calls := 0
	for k := 0; k < runs; k++ {
		w.Put(Event{"ev": "reset"})
		p := filepath.Join(dir, "static.txt")
		os.Remove(p)
		var get []func() []byte
		for i := 0; i < 40; i++ {
			switch x := r.Intn(10); {
			case x < 3:
				c := contents[r.Intn(len(contents))]
				os.WriteFile(p, c, 0o600)
				w.Put(Event{"ev": "write", "val": sum(c)})
			case x < 4:
				os.Remove(p)
				w.Put(Event{"ev": "remove"})
			case x < 7:
				kind := []string{"value", "file", "textfile", "updater"}[r.Intn(4)]
				c := contents[r.Intn(len(contents))]
				ok := true
				switch kind {
				case "value":
					s := setec.StaticSecret(string(c))
					get = append(get, func() []byte { return s.Get() })
				case "updater":
					u := setec.StaticUpdater(string(c))
					get = append(get, func() []byte { return []byte(u.Get()) })
				case "file":
					s, err := setec.StaticFile(p)
					if ok = err == nil; ok {
						get = append(get, func() []byte { return s.Get() })
					}
				case "textfile":
					s, err := setec.StaticTextFile(p)
					if ok = err == nil; ok {
						get = append(get, func() []byte { return []byte(s.GetString()) })
					}
				}
				w.Put(Event{"ev": "make", "kind": kind, "val": sum(c), "ok": tf(ok), "idx": 0})
			default:
				if len(get) == 0 {
					continue
				}
				j := r.Intn(len(get))
				w.Put(Event{"ev": "get", "idx": j + 1, "val": sum(get[j]())})
			}
			calls++
		}
	}
	w.Close()
	dw := vh.NewNDJSON(t, filepath.Join(dir, "dict.ndjson"))
	dw.Put(map[string]any{"trim": trims})
	dw.Close()
	res.Set("calls", calls)
	res.Write(t)
}
