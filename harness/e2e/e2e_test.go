// Package e2e drives one secret value at a time through every retrieval path of the real system (C18) and
// the real `setec put` binary through its flag / input table; TLC validates the recorded lines against
// spec/RoundTrip.tla and spec/PutCli.tla.
package e2e

import (
	"bytes"
	"context"
	"crypto/sha256"
	"encoding/hex"
	"errors"
	"fmt"
	"math/rand"
	"net"
	"net/http"
	"net/http/httptest"
	"os"
	"os/exec"
	"path/filepath"
	"strings"
	"sync"
	"sync/atomic"
	"syscall"
	"testing"
	"time"
	"unicode/utf8"

	"github.com/tailscale/setec/acl"
	"github.com/tailscale/setec/audit"
	"github.com/tailscale/setec/client/setec"
	"github.com/tailscale/setec/db"
	"github.com/tailscale/setec/server"
	"github.com/tailscale/setec/types/api"
	"tailscale.com/client/tailscale/apitype"
	"tailscale.com/tailcfg"
	"verifharness/vault"
	"verifharness/vh"
)

type Event = map[string]any

// sys is a real database + real server on a loopback listener; every caller is granted everything.
type sys struct {
	dir   string
	kek   any
	db    *db.DB
	srv   *httptest.Server
	reqs  atomic.Int64
	puts  atomic.Int64
	audit *os.File
	slowLink bool // every other reply is delivered in pieces (TestConcurrentGets)
}

func whois(ctx context.Context, addr string) (*apitype.WhoIsResponse, error) {
	all := `{"action":["get","info","put","activate","delete"],"secret":["*"]}`
	return &apitype.WhoIsResponse{
		Node:        &tailcfg.Node{Name: "tester.example.ts.net"},
		UserProfile: &tailcfg.UserProfile{ID: 7, LoginName: "tester@example.com"},
		CapMap:      tailcfg.PeerCapMap{server.ACLCap: []tailcfg.RawMessage{tailcfg.RawMessage(all)}},
	}, nil
}

func (s *sys) start(t testing.TB) {
	f, err := os.OpenFile(filepath.Join(s.dir, "audit.log"), os.O_CREATE|os.O_APPEND|os.O_WRONLY, 0o600)
	if err != nil {
		t.Fatal(err)
	}
	s.audit = f
	d, err := db.Open(filepath.Join(s.dir, "state.db"), vault.SharedKEK(), audit.New(f))
	if err != nil {
		t.Fatal(err)
	}
	s.db = d
	mux := http.NewServeMux()
	if _, err := server.New(context.Background(), server.Config{DB: d, WhoIs: whois, Mux: mux}); err != nil {
		t.Fatal(err)
	}
	s.srv = httptest.NewServer(http.HandlerFunc(func(w http.ResponseWriter, r *http.Request) {
		s.reqs.Add(1)
		if strings.HasSuffix(r.URL.Path, "/put") {
			s.puts.Add(1)
		}
		if s.slowLink && s.reqs.Load()%2 == 0 {
			w = &slowWriter{ResponseWriter: w}
		}
		mux.ServeHTTP(w, r)
	}))
}

// slowWriter delivers a reply the way a slow connection does: in pieces, with other requests being served in between.
type slowWriter struct{ http.ResponseWriter }

func (w *slowWriter) Write(p []byte) (int, error) {
	n := 0
	for len(p) > 0 {
		k := min(len(p), 64<<10)
		m, err := w.ResponseWriter.Write(p[:k])
		n += m
		if err != nil {
			return n, err
		}
		p = p[k:]
		if len(p) > 0 {
			time.Sleep(2 * time.Millisecond)
		}
	}
	return n, nil
}

func (s *sys) stop() {
	s.srv.Close()
	s.audit.Close()
}

var _ = acl.Rules{}

func sum(b []byte) string { h := sha256.Sum256(b); return hex.EncodeToString(h[:8]) }

// values: the classes the property names, then generated ones.
func genValue(r *rand.Rand, i int, maxLarge int) (string, []byte) {
	fixed := []struct {
		n string
		b []byte
	}{
		{"empty", []byte{}},
		{"one NUL", []byte{0}},
		{"newline", []byte("\n")},
		{"ascii", []byte("open sesame")},
		{"text with newlines", []byte("line1\nline2\r\n\ttabbed \n")},
		{"invalid utf8", []byte{0xff, 0xfe, 0xfd, 0x80, 0xc0, 0xaf}},
		{"utf8 + NULs", []byte("é世\x00\x00🔑\x00")},
		{"json-like", []byte(`{"Value":"eA==","Version":7}`)},
		{"quotes and backslashes", []byte(`"\\\"\u0000</script>`)},
		{"base64-like", []byte("QUJD=+/")},
		{"all bytes", func() []byte {
			b := make([]byte, 256)
			for k := range b {
				b[k] = byte(k)
			}
			return b
		}()},
		{"all bytes reversed x3", func() []byte {
			b := make([]byte, 768)
			for k := range b {
				b[k] = byte(255 - k%256)
			}
			return b
		}()},
	}
	if i < len(fixed) {
		return fixed[i].n, fixed[i].b
	}
	switch k := r.Intn(10); {
	case k < 4: // short binary, every length residue mod 3 (base64 padding)
		b := make([]byte, r.Intn(40))
		r.Read(b)
		return "random short", b
	case k < 6:
		b := make([]byte, 1000+r.Intn(100000))
		r.Read(b)
		return "random medium", b
	case k < 7 && maxLarge > 0:
		b := make([]byte, maxLarge/2+r.Intn(maxLarge/2))
		r.Read(b)
		return "random large", b
	case k < 8:
		var sb strings.Builder
		for sb.Len() < 1+r.Intn(300) {
			sb.WriteRune([]rune{'a', ' ', '\n', 'é', '世', '🔑', 0, '"', '\\', 0x7f, 0x85, 0x2028}[r.Intn(12)])
		}
		return "unicode text", []byte(sb.String())
	default:
		b := bytes.Repeat([]byte{byte(r.Intn(256))}, 1+r.Intn(5000))
		return "run of one byte", b
	}
}

type deadClient struct{}

func (deadClient) Get(context.Context, string) (*api.SecretValue, error) {
	return nil, errors.New("service unreachable")
}
func (deadClient) GetIfChanged(context.Context, string, api.SecretVersion) (*api.SecretValue, error) {
	return nil, errors.New("service unreachable")
}

func TestRoundTrip(t *testing.T) {
	dir := vh.Dir(t)
	res := vh.NewResult(t, "e2e-roundtrip")
	n := vh.EnvInt("VERIF_TRACES", 100)
	maxLarge := vh.EnvInt("VERIF_MAXLARGE", 1<<20)
	w := vh.NewNDJSON(t, filepath.Join(dir, "trace.ndjson"))
	s := &sys{dir: filepath.Join(dir, "srv")}
	os.MkdirAll(s.dir, 0o700)
	s.start(t)
	r := vh.Rand(18)
	total := 0
	obs := func(hop string, b []byte, found bool) {
		e := Event{"ev": "obs", "hop": hop, "found": map[bool]string{true: "t", false: "f"}[found], "len": len(b), "sum": sum(b)}
		if !found {
			e["len"], e["sum"] = -1, ""
		}
		w.Put(e)
	}
	ctx := context.Background()
	var scratch []byte
	for i := 0; i < n; i++ {
		if i > 0 && i%40 == 0 {
			// a fresh database now and then: every put rewrites the whole file, so one ever-growing database
			// would make the run quadratic without exercising anything new
			s.stop()
			s = &sys{dir: filepath.Join(dir, fmt.Sprintf("srv-%d", i))}
			os.MkdirAll(s.dir, 0o700)
			s.start(t)
		}
		what, val := genValue(r, i, maxLarge)
		name := fmt.Sprintf("rt/secret-%d", i)
		total += len(val)
		cl := setec.Client{Server: s.srv.URL}
		if i%4 == 1 || len(val) == 0 {
			// the name has a past: two earlier versions, the newer one deleted again -- what is put now must still
			// come back under the version number the put reports
			cl.Put(ctx, name, []byte("an earlier value"))
			if v2, err := cl.Put(ctx, name, []byte("a newer value, soon deleted")); err == nil {
				cl.DeleteVersion(ctx, name, v2)
			}
		}
		var ver api.SecretVersion
		var err error
		if i%4 == 2 {
			// the in-process API, called by someone who reuses its buffer for the next value: what was put is what
			// was in the buffer when Put was called
			scratch = append(scratch[:0], val...)
			ver, err = s.db.Put(db.Caller{Principal: audit.Principal{User: "harness"}, Permissions: allRules()}, name, scratch)
			for k := range scratch {
				scratch[k] = 'Z'
			}
		} else {
			ver, err = cl.Put(ctx, name, val)
		}
		if err == nil {
			err = cl.Activate(ctx, name, ver)
		}
		w.Put(Event{"ev": "put", "class": what, "len": len(val), "sum": sum(val), "ok": map[bool]string{true: "t", false: "f"}[err == nil]})
		if err != nil {
			res.Violate("roundtrip put "+what, fmt.Sprintf("put of a %d-byte value (%s) failed: %v", len(val), what, err), nil)
			continue
		}
		get := func(hop string) {
			sv, err := cl.Get(ctx, name)
			obs(hop, valOf(sv), err == nil)
		}
		getver := func(hop string) {
			sv, err := cl.GetVersion(ctx, name, ver)
			obs(hop, valOf(sv), err == nil)
		}
		get("get")
		getver("getver")
		// server restart: the database is reopened from its file
		s.stop()
		s.start(t)
		cl = setec.Client{Server: s.srv.URL}
		get("restart-get")
		getver("restart-getver")
		// a client store with a file cache
		cpath := filepath.Join(dir, fmt.Sprintf("cache-%d", i), "secrets.json")
		fc, err := setec.NewFileCache(cpath)
		if err != nil {
			t.Fatal(err)
		}
		st, err := setec.NewStore(ctx, setec.StoreConfig{Client: cl, Secrets: []string{name}, Cache: fc, PollInterval: -1, Logf: func(string, ...any) {}})
		if err != nil {
			obs("store", nil, false)
		} else {
			obs("store", st.Secret(name).Get(), true)
			st.Close()
		}
		// what the cache document holds for the name
		cb, cfound := cacheValue(cpath, name)
		obs("cache", cb, cfound)
		// a successor store with only the cache
		fc2, _ := setec.NewFileCache(cpath)
		c2, cancel := context.WithTimeout(ctx, 2*time.Second)
		st2, err := setec.NewStore(c2, setec.StoreConfig{Client: deadClient{}, Secrets: []string{name}, Cache: fc2, PollInterval: -1, Logf: func(string, ...any) {}})
		cancel()
		if err != nil {
			obs("store-from-cache", nil, false)
		} else {
			obs("store-from-cache", st2.Secret(name).Get(), true)
			st2.Close()
		}
		// the file-backed client on the same file
		fcl, err := setec.NewFileClient(cpath)
		if err != nil {
			obs("fileclient", nil, false)
			res.Violate("roundtrip fileclient "+what, fmt.Sprintf("the file-backed client rejects the cache file holding a %d-byte value (%s): %v", len(val), what, err), nil)
		} else {
			sv, err := fcl.Get(ctx, name)
			obs("fileclient", valOf(sv), err == nil)
		}
		if i%4 == 3 || i%8 == 0 {
			// the name has a future
			future(t, s, res, w, obs, name, what, val, cpath, i)
			cl = setec.Client{Server: s.srv.URL}
		}
		os.RemoveAll(filepath.Dir(cpath))
		if i < 3 {
			res.Sample(map[string]any{"class": what, "len": len(val), "sha256/8": sum(val)})
		}
	}
	s.stop()
	w.Close()
	res.Set("values", n)
	res.Set("bytes", total)
	res.Write(t)
}

// future continues the journey of a name whose value has gone through every hop once (RoundTrip.tla, "newver" and
// "recreate"): a later version with other, shorter bytes reaches a running store, its cache file and the file client; the
// secret deleted and put again (version numbers start over) reaches them too.
func future(t *testing.T, s *sys, res *vh.Result, w *vh.NDJSONWriter, obs func(string, []byte, bool), name, what string, val []byte, cpath string, i int) {
	ctx := context.Background()
	cl := setec.Client{Server: s.srv.URL}
	quiet := func(string, ...any) {}
	put := func(journey string, v []byte, activate bool) (api.SecretVersion, bool) {
		ver, err := cl.Put(ctx, name, v)
		if err == nil && activate {
			err = cl.Activate(ctx, name, ver)
		}
		w.Put(Event{"ev": "put", "journey": journey, "class": what + "/" + journey, "len": len(v), "sum": sum(v), "ok": map[bool]string{true: "t", false: "f"}[err == nil]})
		if err != nil {
			res.Violate("roundtrip put "+what+"/"+journey, fmt.Sprintf("put of a %d-byte value (%s, %s) failed: %v", len(v), what, journey, err), nil)
		}
		return ver, err == nil
	}
	get := func(hop string) {
		sv, err := cl.Get(ctx, name)
		obs(hop, valOf(sv), err == nil)
	}
	fileclient := func() {
		fcl, err := setec.NewFileClient(cpath)
		if err != nil {
			obs("fileclient", nil, false)
			return
		}
		sv, err := fcl.Get(ctx, name)
		obs("fileclient", valOf(sv), err == nil)
	}
	// --- a newer version with other bytes, shorter where possible (the cache document shrinks)
	val2 := append([]byte(nil), val[:len(val)/2]...)
	if len(val) < 2 {
		val2 = append(append([]byte(nil), val...), []byte(" and more")...)
	}
	fc, err := setec.NewFileCache(cpath)
	if err != nil {
		t.Fatal(err)
	}
	st, err := setec.NewStore(ctx, setec.StoreConfig{Client: cl, Secrets: []string{name}, Cache: fc, PollInterval: -1, Logf: quiet})
	if err != nil {
		res.Violate("roundtrip future "+what, fmt.Sprintf("a store on the cache file of a %d-byte value (%s) cannot be constructed: %v", len(val), what, err), nil)
		return
	}
	ver2, ok := put("newver", val2, true)
	if !ok {
		st.Close()
		return
	}
	get("get")
	sv, err := cl.GetVersion(ctx, name, ver2)
	obs("getver", valOf(sv), err == nil)
	rerr := st.Refresh(ctx)
	obs("store-poll", st.Secret(name).Get(), rerr == nil)
	cb, cfound := cacheValue(cpath, name)
	obs("cache", cb, cfound)
	st.Close()
	fc2, _ := setec.NewFileCache(cpath)
	c2, cancel := context.WithTimeout(ctx, 2*time.Second)
	st2, err := setec.NewStore(c2, setec.StoreConfig{Client: deadClient{}, Secrets: []string{name}, Cache: fc2, PollInterval: -1, Logf: quiet})
	cancel()
	if err != nil {
		obs("store-from-cache", nil, false)
	} else {
		obs("store-from-cache", st2.Secret(name).Get(), true)
		st2.Close()
	}
	fileclient()
	if i%8 != 0 {
		return
	}
	// --- deleted and put again: other bytes under version numbers that start over
	if err := cl.Delete(ctx, name); err != nil {
		res.Violate("roundtrip delete "+what, fmt.Sprintf("deleting the secret failed: %v", err), nil)
		return
	}
	// ... up to the version number the deleted secret had reached: (name, version) now means other bytes than before
	// (how versions are numbered after a delete is C02's business, not this journey's: it just puts until it gets there)
	for k := 1; k < int(ver2) && k < 12; k++ {
		v, err := cl.Put(ctx, name, []byte(fmt.Sprintf("filler %d", k)))
		if err != nil {
			res.Violate("roundtrip recreate "+what, fmt.Sprintf("put %d after the delete failed: %v", k, err), nil)
			return
		}
		if int(v) >= int(ver2)-1 {
			break
		}
	}
	val3 := append([]byte("again: "), val2...)
	ver3, ok := put("recreate", val3, true)
	if !ok {
		return
	}
	get("get")
	sv, err = cl.GetVersion(ctx, name, ver3)
	obs("getver", valOf(sv), err == nil)
	s.stop()
	s.start(t)
	cl = setec.Client{Server: s.srv.URL}
	get("restart-get")
	// (a store that still held the deleted secret in its cache under the same version number could not notice: a poll asks
	// "anything newer than version n?", and the service compares version numbers (C09) -- so this store starts afresh)
	os.Remove(cpath)
	fc3, _ := setec.NewFileCache(cpath)
	st3, err := setec.NewStore(ctx, setec.StoreConfig{Client: cl, Secrets: []string{name}, Cache: fc3, PollInterval: -1, Logf: quiet})
	if err != nil {
		obs("store-poll", nil, false)
	} else {
		rerr := st3.Refresh(ctx)
		obs("store-poll", st3.Secret(name).Get(), rerr == nil)
		st3.Close()
	}
	cb, cfound = cacheValue(cpath, name)
	obs("cache", cb, cfound)
	fileclient()
}

func valOf(sv *api.SecretValue) []byte {
	if sv == nil {
		return nil
	}
	return sv.Value
}

func cacheValue(path, name string) ([]byte, bool) {
	data, err := os.ReadFile(path)
	if err != nil {
		return nil, false
	}
	return vault.CacheEntryValue(data, name)
}

// TestConcurrentGets: readers fetch distinct large values at the same time through the real HTTP API (race
// detector on): every response must carry exactly its own secret's bytes.
func TestConcurrentGets(t *testing.T) {
	dir := vh.Dir(t)
	res := vh.NewResult(t, "e2e-concurrent")
	s := &sys{dir: filepath.Join(dir, "srvc"), slowLink: true}
	os.MkdirAll(s.dir, 0o700)
	s.start(t)
	defer s.stop()
	r := vh.Rand(99)
	const n = 8
	vals := make([][]byte, n)
	cl := setec.Client{Server: s.srv.URL}
	ctx := context.Background()
	for i := range vals {
		vals[i] = make([]byte, 256<<10)
		r.Read(vals[i])
		if _, err := cl.Put(ctx, fmt.Sprintf("conc/blob-%d", i), vals[i]); err != nil {
			t.Fatal(err)
		}
	}
	rounds := vh.EnvInt("VERIF_TRACES", 30)
	var wg sync.WaitGroup
	var reads atomic.Int64
	for g := 0; g < n; g++ {
		wg.Add(1)
		go func(g int) {
			defer wg.Done()
			c := setec.Client{Server: s.srv.URL}
			if g%2 == 0 {
				// a reader on a slow link: small receive buffer, and it takes its time before it reads the body -- the handler
				// is still writing this reply while the next requests are being served
				c.DoHTTP = slowClient().Do
			}
			for k := 0; k < rounds; k++ {
				i := (g + k) % n
				sv, err := c.Get(ctx, fmt.Sprintf("conc/blob-%d", i))
				reads.Add(1)
				if err != nil {
					res.Violate("concurrent get error", fmt.Sprintf("Get of conc/blob-%d failed while other requests were in flight: %v", i, err), nil)
					return
				}
				if !bytes.Equal(sv.Value, vals[i]) {
					which := "no stored value"
					for j := range vals {
						if bytes.Equal(sv.Value, vals[j]) {
							which = fmt.Sprintf("the value of conc/blob-%d", j)
						}
					}
					res.Violate("concurrent get bytes", fmt.Sprintf("Get of conc/blob-%d returned %d bytes that are %s", i, len(sv.Value), which), nil)
					return
				}
			}
		}(g)
	}
	wg.Wait()
	res.Set("reads", int(reads.Load()))
	res.Write(t)
}

type slowBody struct {
	rc   interface {
		Read([]byte) (int, error)
		Close() error
	}
	once sync.Once
}

func (b *slowBody) Read(p []byte) (int, error) {
	b.once.Do(func() { time.Sleep(15 * time.Millisecond) })
	return b.rc.Read(p)
}
func (b *slowBody) Close() error { return b.rc.Close() }

type slowTransport struct{ tr *http.Transport }

func (t slowTransport) RoundTrip(req *http.Request) (*http.Response, error) {
	resp, err := t.tr.RoundTrip(req)
	if err == nil {
		resp.Body = &slowBody{rc: resp.Body}
	}
	return resp, err
}

func slowClient() *http.Client {
	d := &net.Dialer{Control: func(network, address string, c syscall.RawConn) error {
		return c.Control(func(fd uintptr) { syscall.SetsockoptInt(int(fd), syscall.SOL_SOCKET, syscall.SO_RCVBUF, 4096) })
	}}
	return &http.Client{Transport: slowTransport{&http.Transport{DialContext: d.DialContext, DisableKeepAlives: true}}}
}

// ---- the CLI ----

func classOf(b []byte) string {
	ws := func(c byte) bool { return c == ' ' || c == '\n' || c == '\t' || c == '\r' || c == '\v' || c == '\f' }
	if len(b) == 0 {
		return "empty"
	}
	if utf8.Valid(b) {
		tr := bytes.TrimSpace(b)
		switch {
		case len(tr) == 0:
			return "ws"
		case len(tr) == len(b):
			return "text"
		}
		return "textws"
	}
	if ws(b[0]) || ws(b[len(b)-1]) {
		return "binws"
	}
	return "bin"
}

func TestPutCli(t *testing.T) {
	dir := vh.Dir(t)
	res := vh.NewResult(t, "e2e-putcli")
	bin := os.Getenv("VERIF_SETEC_BIN")
	if bin == "" {
		t.Fatal("VERIF_SETEC_BIN not set")
	}
	reps := vh.EnvInt("VERIF_REPS", 4)
	w := vh.NewNDJSON(t, filepath.Join(dir, "trace.ndjson"))
	s := &sys{dir: filepath.Join(dir, "srv")}
	os.MkdirAll(s.dir, 0o700)
	s.start(t)
	defer s.stop()
	r := vh.Rand(81)
	large := false // set for a few runs per class: inputs of more than a megabyte
	inputs := func(class string, k int) []byte {
		rb := func(n int) []byte { b := make([]byte, n); r.Read(b); b[0], b[n-1] = 0xff, 0xfe; return b }
		switch class {
		case "empty":
			return []byte{}
		case "ws":
			return [][]byte{[]byte("\n"), []byte(" \t\r\n "), []byte("  \n"), []byte("\v\f")}[k%4]
		case "text":
			if large {
				// a long text (more than a megabyte): whatever buffers the command uses, every byte arrives
				return bytes.Repeat([]byte("0123456789abcdef"), 70000+k)
			}
			return [][]byte{[]byte("hunter2"), []byte("two words\nand a line"), []byte("é世🔑"), []byte("x")}[k%4]
		case "textws":
			return [][]byte{[]byte("hunter2\n"), []byte("  padded  "), []byte("\tkey: value\r\n"), []byte(" é世 ")}[k%4]
		case "bin":
			if large {
				return rb(1<<20 + 1 + r.Intn(2<<20)) // just over a megabyte up to three
			}
			return rb(8 + r.Intn(200))
		default: // binws
			b := rb(8 + r.Intn(200))
			switch k % 3 {
			case 0:
				b = append(b, '\n')
			case 1:
				b = append([]byte{' '}, b...)
			default:
				b = append(append([]byte{'\t'}, b...), ' ', '\n')
			}
			return b
		}
	}
	runs := 0
	for _, class := range []string{"empty", "ws", "text", "textws", "bin", "binws"} {
		for _, source := range []string{"file", "pipe"} {
			for mask := 0; mask < 8; mask++ {
				for k := 0; k < reps; k++ {
					large = k == reps-1 && (mask == 0 || mask == 3) && (class == "text" || class == "bin")
					in := inputs(class, k+mask)
					if got := classOf(in); got != class {
						t.Fatalf("generator: %q is %s, not %s", in, got, class)
					}
					verbatim, trim, emptyok := mask&1 != 0, mask&2 != 0, mask&4 != 0
					name := fmt.Sprintf("cli/%s-%s-%d-%d", class, source, mask, k)
					args := []string{"-s", s.srv.URL, "put"}
					if verbatim {
						args = append(args, "--verbatim")
					}
					if trim {
						args = append(args, "--trim-space")
					}
					if emptyok {
						args = append(args, "--empty-ok")
					}
					cmd := exec.Command(bin)
					if source == "file" {
						p := filepath.Join(dir, "input.bin")
						os.WriteFile(p, in, 0o600)
						args = append(args, "--from-file", p)
					} else {
						cmd.Stdin = bytes.NewReader(in)
					}
					cmd.Args = append([]string{bin}, append(args, name)...)
					cmd.Env = append(os.Environ(), "SETEC_SERVER=")
					r0, p0 := s.reqs.Load(), s.puts.Load()
					out, err := cmd.CombinedOutput()
					exit := 0
					if err != nil {
						exit = 1
						var ee *exec.ExitError
						if !errors.As(err, &ee) {
							t.Fatalf("cannot run %s: %v", bin, err)
						}
					}
					reqs, puts := int(s.reqs.Load()-r0), int(s.puts.Load()-p0)
					outcome := "refused"
					sv, gerr := s.db.Get(db.Caller{Principal: audit.Principal{User: "harness"}, Permissions: allRules()}, name)
					if gerr == nil {
						switch {
						case bytes.Equal(sv.Value, in):
							outcome = "same"
						case bytes.Equal(sv.Value, bytes.TrimSpace(in)):
							outcome = "trimmed"
						default:
							outcome = "other"
							res.Violate("putcli-bytes "+class, fmt.Sprintf("setec put %v stored %d bytes %q for the %d-byte %s input %q", args, len(sv.Value), first(sv.Value), len(in), class, first(in)), nil)
						}
					} else if puts > 0 && exit == 0 {
						outcome = "lost"
					}
					w.Put(Event{"ev": "put", "class": class, "source": source, "verbatim": tf(verbatim), "trim": tf(trim), "emptyok": tf(emptyok),
						"exit": exit, "requests": reqs, "puts": puts, "outcome": outcome, "len": len(in), "output": first(out)})
					runs++
					if runs%41 == 1 {
						res.Sample(map[string]any{"args": args[2:], "class": class, "exit": exit, "outcome": outcome})
					}
				}
			}
		}
	}
	w.Close()
	res.Set("runs", runs)
	res.Write(t)
}

func tf(b bool) string {
	if b {
		return "t"
	}
	return "f"
}

func first(b []byte) string {
	if len(b) > 60 {
		b = b[:60]
	}
	return string(b)
}

func allRules() acl.Rules {
	return acl.Rules{{Action: []acl.Action{acl.ActionGet, acl.ActionInfo, acl.ActionPut, acl.ActionActivate, acl.ActionDelete}, Secret: []acl.Secret{"*"}}}
}
