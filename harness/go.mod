module verifharness

go 1.26.8

require github.com/tailscale/setec v0.0.0

replace github.com/tailscale/setec => /repo
