package store

import (
	"bytes"
	"encoding/json"
	"fmt"
	"math/rand"
	"path/filepath"
	"strings"
	"testing"
	"testing/synctest"

	"verifharness/vh"
)

// malformed returns cache contents that are, by construction, NOT a well-formed document of the documented
// shape (C13): the store must ignore them as a whole. `base` is a valid document.
func malformed(r *rand.Rand, base []byte, names []string) (string, []byte) {
	var m map[string]map[string]any
	json.Unmarshal(base, &m)
	enc := func() []byte { b, _ := json.Marshal(m); return b }
	victim := names[r.Intn(len(names))]
	switch k := r.Intn(15); k {
	case 0:
		n := 1 + r.Intn(len(base)-1)
		return fmt.Sprintf("truncated at %d of %d", n, len(base)), base[:n]
	case 1:
		delete(m[victim], "secret")
		return "entry without secret", enc()
	case 2:
		m[victim] = nil
		return "null entry", enc()
	case 3:
		m[""] = m[victim]
		return "empty name", enc()
	case 4:
		m[victim]["secret"].(map[string]any)["Version"] = "2"
		return "version is a string", enc()
	case 5:
		m[victim]["secret"].(map[string]any)["Value"] = 12345
		return "value is a number", enc()
	case 6:
		m[victim]["lastAccess"] = 17
		return "lastAccess is a number", enc()
	case 7:
		mm := map[string]any{}
		for k, v := range m {
			mm[k] = v
		}
		mm[victim] = []any{1, 2}
		b, _ := json.Marshal(mm)
		return "entry is an array", b
	case 8:
		return "top level is an array", []byte("[" + string(base) + "]")
	case 9:
		return "top level is a string", []byte(`"` + strings.ReplaceAll(string(base), `"`, `'`) + `"`)
	case 10:
		b := make([]byte, 1+r.Intn(200))
		r.Read(b)
		return "random bytes", append([]byte{0xff}, b...)
	case 11:
		return "trailing garbage", append(append([]byte{}, base...), []byte("}{")...)
	case 13:
		return "top level is null", []byte("null")
	case 12:
		m[victim]["secret"] = "not an object"
		return "secret is a string", enc()
	default:
		b := bytes.Replace(base, []byte(":"), []byte(" "), 1+r.Intn(3))
		return "colon removed", b
	}
}

// TestCacheMalformed: construction from cache contents around the valid format.
func TestCacheMalformed(t *testing.T) {
	dir := vh.Dir(t)
	res := vh.NewResult(t, "store-malformed")
	n := vh.EnvInt("VERIF_TRACES", 200)
	w := vh.NewNDJSON(t, filepath.Join(dir, "trace.ndjson"))
	classes := map[string]int{}
	for i := 0; i < n; i++ {
		r := vh.Rand(int64(31 * i))
		decl := [][]string{{"a"}, {"a", "b"}, {"b"}}[r.Intn(3)]
		inDoc := [][]string{{"a"}, {"a", "b"}, {"a", "x"}, {"a", "b", "x"}, {"b", "x"}}[r.Intn(5)]
		var evs []Event
		var notes []string
		var what string
		var met map[string]any
		synctest.Test(t, func(t *testing.T) {
			e := NewEnv(allNames)
			var doc []docEntry
			for _, nm := range inDoc {
				doc = append(doc, docEntry{Name: nm, Ver: 2, La: 0}) // the cache claims version 2, the service has 1
			}
			base := e.renderDoc(doc)
			var raw []byte
			what, raw = malformed(r, base, inDoc)
			e.Apply(Step{Do: "newstore", Declared: decl, AllowLookup: true, CacheKind: "garbage", Raw: string(raw), ForceKind: "garbage"})
			for k := 0; k < 10 && len(e.Pending()) > 0; k++ {
				e.Apply(Step{Do: "respond", Name: e.Pending()[0]})
			}
			if e.theStore() == nil {
				e.Note("construction did not complete from a cache holding: %s", what)
			} else {
				for _, nm := range allNames {
					e.Apply(Step{Do: "handle", Name: nm}) // an undeclared survivor of the bad cache would get a handle here
					e.Apply(Step{Do: "read", Name: nm})
				}
			}
			met = e.Metrics()
			evs = e.Events()
			notes = append(notes, e.Notes...)
			e.Cleanup()
		})
		classes[strings.Fields(what)[0]]++
		w.Put(Event{"ev": "reset", "t": 0, "what": what})
		for _, ev := range evs {
			w.Put(ev)
		}
		w.Put(Event{"ev": "end", "t": 0, "metrics": met})
		for _, nt := range notes {
			res.Violate("store-note malformed cache: "+firstWords(nt), fmt.Sprintf("cache contents (%s): %s", what, nt), map[string]any{"history": evs, "what": what})
		}
		if i < 3 {
			res.Sample(map[string]any{"cache": what, "declared": decl})
		}
	}
	w.Close()
	dw := vh.NewNDJSON(t, filepath.Join(dir, "dict.ndjson"))
	dw.Put(map[string]any{"names": allNames, "callers": allCallers, "readers": []string{"r1", "r2", "r3"}, "maxver": 3})
	dw.Close()
	res.Set("inputs", n)
	res.Set("classes", len(classes))
	res.Write(t)
}

// TestCacheGray: inputs whose treatment by encoding/json the property does not fix (duplicate keys, case-variant
// field names, extra fields, huge numbers, null top level): only "no panic, no failed start, every served value
// is the cache's claim or the service's" is required.
func TestCacheGray(t *testing.T) {
	res := vh.NewResult(t, "store-gray")
	n := vh.EnvInt("VERIF_TRACES", 100)
	for i := 0; i < n; i++ {
		r := vh.Rand(int64(77 * i))
		synctest.Test(t, func(t *testing.T) {
			e := NewEnv(allNames)
			base := string(e.renderDoc([]docEntry{{Name: "a", Ver: 2}, {Name: "x", Ver: 2}}))
			var raw string
			switch r.Intn(5) {
			case 0:
				raw = strings.Replace(base, `"secret"`, `"Secret"`, 1)
			case 1:
				raw = strings.Replace(base, `{"a":`, `{"a":{"secret":null},"a":`, 1)
			case 2:
				raw = strings.Replace(base, `"lastAccess"`, `"extra":[1,2,3],"lastAccess"`, 1)
			case 3:
				raw = strings.Replace(base, `"Version":2`, `"Version":99999999999`, 1)
			default:
				raw = " \n" + base + "\n "
			}
			e.Apply(Step{Do: "newstore", Declared: []string{"a"}, AllowLookup: true, CacheKind: "garbage", Raw: raw})
			for k := 0; k < 10 && len(e.Pending()) > 0; k++ {
				e.Apply(Step{Do: "respond", Name: e.Pending()[0]})
			}
			if e.theStore() == nil {
				res.Violate("gray-start", fmt.Sprintf("construction did not complete from cache contents %.80q", raw), nil)
			} else {
				e.Apply(Step{Do: "handle", Name: "a"})
				e.Apply(Step{Do: "read", Name: "a"})
			}
			for _, nt := range e.Notes {
				if !strings.Contains(nt, "torn or foreign") || !strings.Contains(raw, "99999999999") {
					res.Violate("gray-note "+firstWords(nt), nt, map[string]any{"raw": raw})
				}
			}
			e.Cleanup()
		})
	}
	res.Set("inputs", n)
	res.Write(t)
}
