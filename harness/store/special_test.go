package store

import (
	"context"
	"encoding/json"
	"fmt"
	"os"
	"path/filepath"
	"sync"
	"testing"
	"testing/synctest"
	"time"

	"github.com/tailscale/setec/client/setec"
	"github.com/tailscale/setec/types/api"
	"verifharness/vh"
)

// TestStoreSpecial: construction with a file-backed client (C10): it must succeed at once
// when every declared secret is in the file and fail at once when one is missing -- never
// wait, never retry. Recorded in the StoreTrace format (the file client's lookups are silent).
func TestStoreSpecial(t *testing.T) {
	dir := vh.Dir(t)
	res := vh.NewResult(t, "store-special")
	w := vh.NewNDJSON(t, filepath.Join(dir, "trace.ndjson"))
	cases := 0
	for _, present := range [][]string{{"a", "b"}, {"a"}, {}} {
		for _, declared := range [][]string{{"a"}, {"a", "b"}, {"b", "a", "a"}} {
			cases++
			var evs []Event
			synctest.Test(t, func(t *testing.T) {
				e := NewEnv(allNames)
				// the frozen "service": the file's contents
				doc := map[string]any{}
				for _, n := range allNames {
					v := 0
					for _, p := range present {
						if p == n {
							v = 2
						}
					}
					e.svc[n].ver = v
					e.Log(Event{"ev": "svc", "name": n, "ver": v})
					if v > 0 {
						doc[n] = map[string]any{"secret": api.SecretValue{Value: Value(n, v), Version: api.SecretVersion(v)}}
					}
				}
				b, _ := json.Marshal(doc)
				p := filepath.Join(dir, fmt.Sprintf("fc-%d.json", cases))
				os.WriteFile(p, b, 0o600)
				fc, err := setec.NewFileClient(p)
				if err != nil {
					t.Fatal(err)
				}
				e.Log(Event{"ev": "newstore", "declared": dedupe(declared), "allowlookup": false, "expiry": 0, "auto": false, "bad": false,
					"fileclient": true, "structs": []string{}, "deadline": 0, "cache": map[string]any{"kind": "none", "doc": []docEntry{}, "wfail": false}})
				t0 := time.Now()
				st, err := setec.NewStore(context.Background(), setec.StoreConfig{Client: fc, Secrets: declared, PollInterval: -1, Logf: func(string, ...any) {}})
				if d := time.Since(t0); d != 0 {
					res.Violate("fileclient-delay", fmt.Sprintf("NewStore with a file-backed client took %v of virtual time (declared %v, file has %v)", d, declared, present), nil)
				}
				r := "ok"
				if err != nil {
					r = "err"
				} else {
					for _, n := range dedupe(declared) {
						if _, v, ok := ParseValue(st.Secret(n).Get()); !ok || v != 2 {
							res.Violate("fileclient-value", fmt.Sprintf("secret %q from a file-backed client is not the file's value", n), nil)
						}
					}
					st.Close()
				}
				e.Log(Event{"ev": "ret", "call": "newstore", "caller": "", "res": r})
				evs = e.Events()
			})
			w.Put(Event{"ev": "reset", "t": 0})
			for _, ev := range evs {
				w.Put(ev)
			}
			w.Put(Event{"ev": "end", "t": 0, "metrics": map[string]any{"known": "f", "polls": 0, "pollerrs": 0, "fetches": 0}})
		}
	}
	w.Close()
	dw := vh.NewNDJSON(t, filepath.Join(dir, "dict.ndjson"))
	dw.Put(map[string]any{"names": allNames, "callers": allCallers, "readers": []string{"r1", "r2", "r3"}, "maxver": 3})
	dw.Close()
	res.Set("cases", cases)
	res.Write(t)
}

type autoClient struct {
	mu      sync.Mutex
	reqs    []int64
	t0      time.Time
	latency time.Duration // how long the service takes to answer a poll request (virtual time)
}

func (c *autoClient) Get(ctx context.Context, name string) (*api.SecretValue, error) {
	return &api.SecretValue{Value: Value(name, 1), Version: 1}, nil
}
func (c *autoClient) GetIfChanged(ctx context.Context, name string, old api.SecretVersion) (*api.SecretValue, error) {
	c.mu.Lock()
	c.reqs = append(c.reqs, time.Since(c.t0).Milliseconds())
	c.mu.Unlock()
	if c.latency > 0 {
		// a slow service must not stretch the period: the next poll is due one period after the last one STARTED
		select {
		case <-ctx.Done():
			return nil, ctx.Err()
		case <-time.After(c.latency):
		}
	}
	return nil, api.ErrValueNotChanged
}

// TestCadence: the real poller with a real time.Ticker on the virtual clock (C11).
func TestCadence(t *testing.T) {
	dir := vh.Dir(t)
	res := vh.NewResult(t, "store-cadence")
	w := vh.NewNDJSON(t, filepath.Join(dir, "trace.ndjson"))
	stores := 0
	seed := vh.Seed()
	for _, interval := range []time.Duration{time.Hour, 10 * time.Minute, 7 * time.Second, 0} {
		for rep := 0; rep < 6; rep++ {
			stores++
			cfgInterval := interval
			eff := interval
			if interval == 0 {
				eff = time.Hour // the documented default
			}
			var reqs []int64
			synctest.Test(t, func(t *testing.T) {
				_ = seed
				c := &autoClient{t0: time.Now()}
				if rep%2 == 1 {
					c.latency = eff / time.Duration(5+rep)
				}
				st, err := setec.NewStore(context.Background(), setec.StoreConfig{Client: c, Secrets: []string{"a"}, PollInterval: cfgInterval, Logf: func(string, ...any) {}})
				if err != nil {
					t.Fatal(err)
				}
				time.Sleep(50*eff + eff/2)
				synctest.Wait()
				st.Close()
				reqs = append([]int64(nil), c.reqs...)
			})
			w.Put(Event{"ev": "start", "interval": eff.Milliseconds()})
			for _, r := range reqs {
				w.Put(Event{"ev": "poll", "t": r})
			}
			if len(reqs) < 44 {
				res.Violate("cadence-few", fmt.Sprintf("interval %v: only %d polls in 50.5 intervals", eff, len(reqs)), nil)
			}
			res.Add("polls", len(reqs))
		}
	}
	w.Close()
	res.Set("stores", stores)
	res.Write(t)
}
