package store

import (
	"context"
	"math/rand"
	"testing/synctest"
)

var _ = context.Background

// Profile selects what a random history exercises.
type Profile struct {
	Name        string
	Names       []string
	Callers     []string
	Declared    [][]string
	AllowLookup []bool
	Expiry      []int64
	CacheKinds  []string
	Deadlines   []int64 // NewStore deadlines (ms), 0 = none
	LookupDl    []int64
	Auto        bool
	Weights     map[string]int
	AdvanceMs   []int64
	Steps       int
	RefreshDl   []int64 // deadlines of Refresh callers (ms), nil = none
	ParkPct     int     // percentage of lookups held between the known-check and the flight
	StructPct   int     // percentage of constructions that declare some names through a tagged struct
	DeadRestartPct int  // percentage of restarts that happen with the service unreachable
	Readers     int // concurrent reader goroutines (bursts of handle calls racing the driver's steps)
}

func pickS(r *rand.Rand, xs []string) string { return xs[r.Intn(len(xs))] }
func pickI(r *rand.Rand, xs []int64) int64   { return xs[r.Intn(len(xs))] }

// RandomHistory drives e with steps drawn from the profile; choices depend only on
// what is observable (pending requests, busy callers), never on a model.
func RandomHistory(e *Env, r *rand.Rand, p Profile) {
	decl := p.Declared[r.Intn(len(p.Declared))]
	first := Step{Do: "newstore", Declared: decl, AllowLookup: p.AllowLookup[r.Intn(len(p.AllowLookup))], Expiry: pickI(r, p.Expiry),
		Auto: p.Auto, Deadline: pickI(r, p.Deadlines)}
	if p.Name == "init" && r.Intn(8) == 0 {
		first.Bad = pickS(r, []string{"noclient", "nosecrets", "emptyname"})
		if first.Bad == "nosecrets" {
			first.Declared, first.AllowLookup = nil, false
		}
	}
	ck := pickS(r, p.CacheKinds)
	switch ck {
	case "none", "empty", "readerr", "garbage":
		first.CacheKind = ck
	default:
		first.CacheKind = "doc"
		var names []string
		switch ck {
		case "complete", "stale":
			names = dedupe(decl)
		case "partial":
			if d := dedupe(decl); len(d) > 0 {
				names = d[:1+r.Intn(len(d))][:1]
			}
		case "undeclared", "zerostamp":
			names = p.Names
		}
		for _, n := range names {
			d := docEntry{Name: n, Ver: 1, La: 0}
			if ck == "stale" {
				d.Ver = 2
			}
			if ck == "zerostamp" {
				d.La = -1000000
			}
			first.CacheDoc = append(first.CacheDoc, d)
		}
	}
	if p.StructPct > 0 && r.Intn(100) < p.StructPct && first.Bad == "" && len(decl) > 0 {
		// some (or all) names come from a struct; a name may be declared both ways
		k := r.Intn(len(decl) + 1)
		first.StructNames = append([]string(nil), decl[k:]...)
		first.Declared = append([]string(nil), decl[:k]...)
		if r.Intn(2) == 0 {
			first.StructNames = append(first.StructNames, decl[0])
			first.Declared = append(first.Declared, decl[len(decl)-1])
		}
		first.StructNames = dedupe(first.StructNames) // duplicate tags inside one struct are the struct's business (C20)
	}
	e.Apply(first)
	if p.Name == "init" && first.Bad == "" && r.Intn(8) == 0 {
		// a long outage: every fetch fails for many consecutive rounds; the pause between rounds stays bounded,
		// and construction completes as soon as the service is back
		for _, n := range p.Names {
			e.Apply(Step{Do: "svcmode", Name: n, Mode: "fail"})
		}
		for round := 0; round < 16+r.Intn(4); round++ {
			for k := 0; k < 4 && len(e.Pending()) > 0; k++ {
				e.Apply(Step{Do: "respond", Name: e.Pending()[0]})
			}
			e.Apply(Step{Do: "advance", Ms: []int64{4096, 4100, 5000}[r.Intn(3)]})
		}
		for _, n := range p.Names {
			e.Apply(Step{Do: "svcmode", Name: n, Mode: "ok"})
		}
	}
	if p.Readers > 0 {
		e.StartReaders([]string{"r1", "r2", "r3"}[:p.Readers])
	}
	busy := map[string]bool{}
	total := 0
	for _, w := range p.Weights {
		total += w
	}
	kinds := []string{}
	for k := range p.Weights {
		kinds = append(kinds, k)
	}
	sortStrings(kinds)
	for i := 0; i < p.Steps; i++ {
		// callers whose call has returned are free again
		started, returned := map[string]int{}, map[string]int{}
		for _, ev := range e.Events() {
			c, _ := ev["caller"].(string)
			switch ev["ev"] {
			case "ret":
				returned[c]++
			case "refresh", "lookup":
				started[c]++
			}
		}
		for _, c := range p.Callers {
			busy[c] = started[c] > returned[c]
			if !busy[c] {
				delete(busy, c)
			}
		}
		x := r.Intn(total)
		var kind string
		for _, k := range kinds {
			if x < p.Weights[k] {
				kind = k
				break
			}
			x -= p.Weights[k]
		}
		pend := e.Pending()
		if p.Readers > 0 && r.Intn(3) > 0 {
			// bursts of handle calls that run concurrently with this step
			e.mu.Lock()
			var have []string
			for n := range e.handles {
				have = append(have, n)
			}
			e.mu.Unlock()
			sortStrings(have)
			if len(have) > 0 {
				bursts := make([][]string, p.Readers)
				for i := range bursts {
					for k := r.Intn(3); k > 0; k-- {
						bursts[i] = append(bursts[i], pickS(r, have))
					}
				}
				e.PokeReaders(bursts)
			}
		}
		switch kind {
		case "respond":
			if len(pend) > 0 {
				e.Apply(Step{Do: "respond", Name: pickS(r, pend)})
			}
		case "fail":
			if len(pend) > 0 {
				e.Apply(Step{Do: "respond", Name: pickS(r, pend), ForceErr: true})
			}
		case "svc":
			n := pickS(r, p.Names)
			e.Apply(Step{Do: "svc", Name: n, Ver: r.Intn(4)})
		case "advance":
			e.mu.Lock()
			np := len(e.parked)
			e.mu.Unlock()
			if np == 0 { // code steps take no time: the clock does not move while a caller is held at the gate
				e.Apply(Step{Do: "advance", Ms: pickI(r, p.AdvanceMs)})
			}
		case "refresh":
			c := pickS(r, p.Callers)
			if !busy[c] && e.theStore() != nil {
				busy[c] = true
				st := Step{Do: "refresh", Caller: c}
				if len(p.RefreshDl) > 0 {
					st.Deadline = pickI(r, p.RefreshDl)
				}
				e.Apply(st)
			}
		case "tick":
			if p.Auto && e.theStore() != nil && len(pend) == 0 {
				e.Apply(Step{Do: "tick"})
			}
		case "handle":
			e.Apply(Step{Do: "handle", Name: pickS(r, p.Names)})
		case "updfail":
			e.Apply(Step{Do: "updfail", Name: pickS(r, p.Names)})
		case "read":
			e.Apply(Step{Do: "read", Name: pickS(r, p.Names)})
		case "lookup":
			c := pickS(r, p.Callers)
			if !busy[c] && e.theStore() != nil {
				busy[c] = true
				e.Apply(Step{Do: "lookup", Caller: c, Name: pickS(r, p.Names), Deadline: pickI(r, p.LookupDl), Park: r.Intn(100) < p.ParkPct})
			}
		case "unpark":
			e.mu.Lock()
			var ps []string
			for k := range e.parked {
				ps = append(ps, k)
			}
			e.mu.Unlock()
			sortStrings(ps)
			if len(ps) > 0 {
				e.Apply(Step{Do: "unpark", Caller: pickS(r, ps)})
			}
		case "cancel":
			c := pickS(r, p.Callers)
			if busy[c] {
				e.Apply(Step{Do: "cancel", Caller: c})
			}
		case "close":
			if e.theStore() != nil && len(pend) == 0 && !e.closed {
				e.Apply(Step{Do: "close"})
			}
		case "restart":
			if e.theStore() != nil && len(pend) == 0 && len(busy) == 0 {
				if p.Auto && !e.closed {
					e.Apply(Step{Do: "close"})
				}
				dead := r.Intn(100) < p.DeadRestartPct
				if dead { // the service is unreachable: the successor has only the cache
					for _, n := range p.Names {
						e.Apply(Step{Do: "svcmode", Name: n, Mode: "fail"})
					}
				}
				// the successor's configuration may declare a different set: "declared" is recomputed, never persisted
				if r.Intn(3) == 0 {
					decl = p.Declared[r.Intn(len(p.Declared))]
				}
				e.Apply(Step{Do: "restart", Declared: decl, AllowLookup: first.AllowLookup, Expiry: first.Expiry, Auto: p.Auto})
				if dead && e.theStore() != nil {
					// it serves exactly what the cache held
					for _, n := range p.Names {
						e.Apply(Step{Do: "handle", Name: n})
						e.Apply(Step{Do: "read", Name: n})
					}
				}
				if dead {
					// if a declared secret was missing from the cache, construction is retrying: let the service come back
					for _, n := range p.Names {
						e.Apply(Step{Do: "svcmode", Name: n, Mode: "ok"})
					}
				}
			}
		case "cachefault":
			e.Apply(Step{Do: "cachefault", WFail: r.Intn(2) == 0})
		}
	}
	for {
		e.mu.Lock()
		var ps []string
		for k := range e.parked {
			ps = append(ps, k)
		}
		e.mu.Unlock()
		if len(ps) == 0 {
			break
		}
		sortStrings(ps)
		e.Apply(Step{Do: "unpark", Caller: ps[0]})
	}
	synctest.Wait() // the last bursts of the readers
}

func sortStrings(xs []string) {
	for i := range xs {
		for j := i + 1; j < len(xs); j++ {
			if xs[j] < xs[i] {
				xs[i], xs[j] = xs[j], xs[i]
			}
		}
	}
}
