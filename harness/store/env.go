// Package store binds spec/Store.tla to the real client/setec Store: the driver runs
// the real store inside a testing/synctest bubble (virtual clock) against a scripted
// StoreClient and a recording Cache, performs one environment step at a time, waits
// for quiescence and logs everything observable as a trace for TLC (StoreTrace).
package store

import (
	"context"
	"encoding/json"
	"errors"
	"expvar"
	"fmt"
	"os"
	"path/filepath"
	"reflect"
	"sort"
	"strings"
	"sync"
	"sync/atomic"
	"testing/synctest"
	"time"

	"github.com/tailscale/setec/client/setec"
	"github.com/tailscale/setec/types/api"
)

// Value of (name, version): recognisable, 64 bytes, so that a torn or foreign value shows. Every third version begins with
// a space and ends with a newline (a value is bytes: nothing on the way may "tidy" it).
func Value(name string, ver int) []byte {
	unit := fmt.Sprintf("%s@%d|", name, ver)
	b := []byte(strings.Repeat(unit, 64/len(unit)+1))[:64]
	if ver%3 == 0 {
		b[0], b[63] = ' ', '\n'
	}
	return b
}

// ParseValue recovers (name, version) from a value; ok=false if it is not a whole value.
func ParseValue(b []byte) (string, int, bool) {
	if len(b) != 64 {
		return "", 0, false
	}
	s := string(b)
	edged := b[0] == ' ' && b[63] == '\n'
	if edged {
		// the unit is readable from its second repetition
		i := strings.Index(s, "|")
		if i < 0 || 2*(i+1) > 63 {
			return "", 0, false
		}
		unit := s[i+1 : 2*(i+1)]
		want := []byte(strings.Repeat(unit, 64/len(unit)+1))[:64]
		want[0], want[63] = ' ', '\n'
		if string(want) != s {
			return "", 0, false
		}
		s = strings.Repeat(unit, 64/len(unit)+1)[:64]
	}
	i := strings.Index(s, "|")
	if i < 0 {
		return "", 0, false
	}
	unit := s[:i+1]
	if strings.Repeat(unit, 64/len(unit)+1)[:64] != s {
		return "", 0, false
	}
	var name string
	var ver int
	at := strings.LastIndex(unit, "@")
	if at < 0 {
		return "", 0, false
	}
	name = unit[:at]
	if _, err := fmt.Sscanf(unit[at+1:], "%d|", &ver); err != nil {
		return "", 0, false
	}
	if edged != (ver%3 == 0) {
		return "", 0, false
	}
	return name, ver, true
}

type Event map[string]any

type svcState struct {
	ver  int
	mode string
}

type pending struct {
	name    string
	kind    string
	old     int
	release chan bool // value: forceErr
	done    chan struct{}
}

// Env is one bubble: service, clock, cache, store and the event log.
type Env struct {
	mu      sync.Mutex
	events  []Event
	start   time.Time
	svc     map[string]*svcState
	pend    map[string]*pending
	store   *setec.Store
	cache   *recCache
	ticker  *fakeTicker
	handles map[string]setec.Secret
	cancels map[string]context.CancelFunc
	Notes   []string
	muted   bool
	closed  bool
	pollerBusy bool
	readers []*reader
	OpaqueCtxErr bool // the scripted client does not wrap context errors (the StoreClient interface does not require it)
	parked  map[string]chan struct{}
	active  map[string]bool // API callers with a call in progress
	oldStores []*setec.Store
	structs []any
}

// reader: a goroutine that calls handles concurrently with whatever the store is doing. It runs
// one burst when poked (just before the driver's next step) and parks again, so that the bubble
// still becomes quiescent after every step.
type reader struct {
	id   string
	poke chan []string // names to read in this burst
	done chan struct{}
}

// InRead is the watchdog's view (outside the bubble, real time): number of handle calls in progress
// and a counter that moves whenever one completes.
var InRead, ReadsDone atomic.Int64

// StepBusy / StepsDone: a driver step in progress and the number completed (a step ends when the bubble is idle).
var StepBusy, StepsDone atomic.Int64

func (e *Env) StartReaders(ids []string) {
	for _, id := range ids {
		r := &reader{id: id, poke: make(chan []string), done: make(chan struct{})}
		e.readers = append(e.readers, r)
		go func() {
			defer close(r.done)
			for burst := range r.poke {
				for _, name := range burst {
					e.mu.Lock()
					h := e.handles[name]
					e.mu.Unlock()
					if h == nil {
						continue
					}
					e.Log(Event{"ev": "rbegin", "reader": r.id, "name": name})
					v := e.callHandle(name, h)
					e.Log(Event{"ev": "rend", "reader": r.id, "name": name, "ver": v})
				}
			}
		}()
	}
}

// callHandle calls a handle and classifies what came back (-1: torn/foreign/panic).
func (e *Env) callHandle(name string, h setec.Secret) (ver int) {
	InRead.Add(1)
	defer func() {
		InRead.Add(-1)
		ReadsDone.Add(1)
		if r := recover(); r != nil {
			e.Note("calling the handle of %q panicked: %v", name, r)
			ver = -1
		}
	}()
	b := h.Get()
	n, v, whole := ParseValue(b)
	if !whole || n != name {
		e.Note("handle of %q returned a torn or foreign value %q", name, b)
		return -1
	}
	return v
}

// PokeReaders starts one burst in every reader; the bursts run concurrently with the next step.
func (e *Env) PokeReaders(bursts [][]string) {
	for i, r := range e.readers {
		if i < len(bursts) && len(bursts[i]) > 0 {
			r.poke <- bursts[i]
		}
	}
}

func (e *Env) StopReaders() {
	for _, r := range e.readers {
		close(r.poke)
		<-r.done
	}
	e.readers = nil
}

// Cleanup ends everything still running so that the bubble can exit; nothing is logged any more.
func (e *Env) Cleanup() {
	// (cancelling everything is a driver step like any other: a store that keeps running after its contexts
	// ended never lets the bubble become idle, and the watchdog reports it)
	StepBusy.Add(1)
	defer func() {
		StepBusy.Add(-1)
		StepsDone.Add(1)
	}()
	e.mu.Lock()
	e.muted = true
	e.mu.Unlock()
	e.mu.Lock()
	cs := []context.CancelFunc{}
	for _, c := range e.cancels {
		cs = append(cs, c)
	}
	e.mu.Unlock()
	for _, c := range cs {
		c()
	}
	e.mu.Lock()
	for k, g := range e.parked {
		close(g)
		delete(e.parked, k)
	}
	e.mu.Unlock()
	for i := 0; i < 200; i++ {
		synctest.Wait()
		pend := e.Pending()
		if len(pend) == 0 {
			break
		}
		for _, n := range pend {
			e.mu.Lock()
			p := e.pend[n]
			e.mu.Unlock()
			if p != nil {
				select {
				case p.release <- true:
				default:
				}
			}
		}
	}
	synctest.Wait()
	e.StopReaders()
	if st := e.theStore(); st != nil {
		st.Close()
	}
	for _, st := range e.oldStores {
		st.Close()
	}
	synctest.Wait()
}

func NewEnv(names []string) *Env {
	e := &Env{start: time.Now(), svc: map[string]*svcState{}, pend: map[string]*pending{}, handles: map[string]setec.Secret{},
		cancels: map[string]context.CancelFunc{}, parked: map[string]chan struct{}{}, active: map[string]bool{}}
	for _, n := range names {
		e.svc[n] = &svcState{ver: 1, mode: "ok"}
	}
	return e
}

func (e *Env) T() int64 { return time.Since(e.start).Milliseconds() }

func (e *Env) Log(ev Event) {
	e.mu.Lock()
	if e.muted {
		e.mu.Unlock()
		return
	}
	if len(e.events) >= 200000 {
		// a request loop without waiting: stop recording, the watchdog reports the bubble that never becomes idle
		e.mu.Unlock()
		return
	}
	ev["t"] = e.T()
	e.events = append(e.events, ev)
	e.mu.Unlock()
}

func (e *Env) Note(f string, a ...any) {
	e.mu.Lock()
	e.Notes = append(e.Notes, fmt.Sprintf(f, a...))
	e.mu.Unlock()
}

func (e *Env) Events() []Event { e.mu.Lock(); defer e.mu.Unlock(); return append([]Event(nil), e.events...) }

// ---- scripted StoreClient ----

type client struct{ e *Env }

var errService = errors.New("service unavailable (scripted)")

func (c client) do(ctx context.Context, kind, name string, old int) (*api.SecretValue, error) {
	e := c.e
	p := &pending{name: name, kind: kind, old: old, release: make(chan bool, 1), done: make(chan struct{})}
	key := name + "/" + kind
	e.mu.Lock()
	if _, dup := e.pend[key]; dup {
		e.mu.Unlock()
		e.Log(Event{"ev": "req", "name": name, "kind": kind, "old": old, "dup": true})
		e.Note("second %s request for %q while one is in flight", kind, name)
		return nil, errService
	}
	e.pend[key] = p
	e.mu.Unlock()
	e.Log(Event{"ev": "req", "name": name, "kind": kind, "old": old})
	defer func() {
		e.mu.Lock()
		delete(e.pend, key)
		e.mu.Unlock()
		close(p.done)
	}()
	select {
	case <-ctx.Done():
		e.Log(Event{"ev": "resp", "name": name, "kind": kind, "res": ctxRes(kind), "ver": 0})
		if e.OpaqueCtxErr {
			return nil, errService // a client that reports an abandoned request with an error of its own
		}
		return nil, ctx.Err()
	case forceErr := <-p.release:
		e.mu.Lock()
		s := e.svc[name]
		e.mu.Unlock()
		if forceErr || s == nil || s.mode == "fail" || s.ver == 0 {
			e.Log(Event{"ev": "resp", "name": name, "kind": kind, "res": "err", "ver": 0})
			if s != nil && s.ver == 0 && !forceErr {
				return nil, api.ErrNotFound
			}
			return nil, errService
		}
		if kind == "gic" && s.ver == old {
			e.Log(Event{"ev": "resp", "name": name, "kind": kind, "res": "same", "ver": 0})
			return nil, api.ErrValueNotChanged
		}
		e.Log(Event{"ev": "resp", "name": name, "kind": kind, "res": "val", "ver": s.ver})
		return &api.SecretValue{Value: Value(name, s.ver), Version: api.SecretVersion(s.ver)}, nil
	}
}

// The specification calls the outcome of a request whose context ended "ctx" for
// construction and lookups, and an ordinary error for a poll request.
func ctxRes(kind string) string {
	if kind == "gic" {
		return "err"
	}
	return "ctx"
}

func (c client) Get(ctx context.Context, name string) (*api.SecretValue, error) {
	return c.do(ctx, "get", name, 0)
}

func (c client) GetIfChanged(ctx context.Context, name string, old api.SecretVersion) (*api.SecretValue, error) {
	return c.do(ctx, "gic", name, int(old))
}

// ---- recording cache ----

type recCache struct {
	e     *Env
	data  []byte
	rfail bool
	wfail bool
}

// FileClientDir, when set, makes every cache write also be fed to a real FileClient (C13): the document
// the store writes must be accepted by it and give identical results for every secret.
var FileClientDir string
var FileClientChecks atomic.Int64

func (e *Env) checkFileClient(data []byte, doc []docEntry) {
	if FileClientDir == "" {
		return
	}
	p := filepath.Join(FileClientDir, "fc-cache.json")
	if err := os.WriteFile(p, data, 0o600); err != nil {
		return
	}
	fc, err := setec.NewFileClient(p)
	if err != nil {
		e.Note("the file-backed client rejects a cache document the store wrote: %v", err)
		return
	}
	FileClientChecks.Add(1)
	have := map[string]bool{}
	for _, d := range doc {
		have[d.Name] = true
		sv, err := fc.Get(context.Background(), d.Name)
		if err != nil {
			e.Note("the file-backed client does not find %q in a cache document that holds it: %v", d.Name, err)
			continue
		}
		if n, v, whole := ParseValue(sv.Value); !whole || n != d.Name || v != d.Ver || int(sv.Version) != d.Ver {
			e.Note("the file-backed client serves %q version %d (%q) from a cache document that holds version %d", d.Name, sv.Version, sv.Value, d.Ver)
		}
		if _, err := fc.GetIfChanged(context.Background(), d.Name, sv.Version); !errors.Is(err, api.ErrValueNotChanged) {
			e.Note("the file-backed client answers a conditional get of %q at its own version with %v", d.Name, err)
		}
	}
	e.mu.Lock()
	var names []string
	for n := range e.svc {
		names = append(names, n)
	}
	e.mu.Unlock()
	for _, n := range names {
		if !have[n] {
			if _, err := fc.Get(context.Background(), n); !errors.Is(err, api.ErrNotFound) {
				e.Note("the file-backed client serves %q which the cache document does not hold (err=%v)", n, err)
			}
		}
	}
}

type docEntry struct {
	Name string `json:"name"`
	Ver  int    `json:"ver"`
	La   int64  `json:"la"`
}

// baseSec: the bubble's clock start in Unix seconds (stamps are logged relative to it).
func (e *Env) baseSec() int64 { return e.start.Unix() }

func (e *Env) relStamp(abs int64) int64 {
	r := abs - e.baseSec()
	if r < -1000000 {
		r = -1000000 // "ancient" (a stamp of 0 in the document)
	}
	return r
}

// parseDoc decodes a cache document into entries; ok=false if a value is not whole/own.
func (e *Env) parseDoc(data []byte) ([]docEntry, bool) {
	var raw map[string]struct {
		Secret *struct {
			Value   []byte
			Version int
		} `json:"secret"`
		LastAccess string `json:"lastAccess"`
	}
	if err := json.Unmarshal(data, &raw); err != nil {
		return nil, false
	}
	ok := true
	var out []docEntry
	for name, v := range raw {
		if v.Secret == nil {
			ok = false
			continue
		}
		n, ver, whole := ParseValue(v.Secret.Value)
		if !whole || n != name || ver != v.Secret.Version {
			ok = false
		}
		var la int64
		fmt.Sscanf(v.LastAccess, "%d", &la)
		out = append(out, docEntry{Name: name, Ver: v.Secret.Version, La: e.relStamp(la)})
	}
	sort.Slice(out, func(i, j int) bool { return out[i].Name < out[j].Name })
	if out == nil {
		out = []docEntry{}
	}
	return out, ok
}

func (c *recCache) Write(data []byte) error {
	if c.wfail {
		c.e.Log(Event{"ev": "cachew", "ok": false, "doc": []docEntry{}})
		return errors.New("cache write failed (scripted)")
	}
	doc, whole := c.e.parseDoc(data)
	if !whole {
		c.e.Note("cache document carries a torn or foreign value: %.300s", data)
	}
	c.data = append([]byte(nil), data...)
	c.e.Log(Event{"ev": "cachew", "ok": true, "doc": doc})
	if whole {
		c.e.checkFileClient(data, doc)
	}
	return nil
}

func (c *recCache) Read() ([]byte, error) {
	if c.rfail {
		return nil, errors.New("cache read failed (scripted)")
	}
	return c.data, nil
}

// ---- fake ticker (driver-controlled polls) ----

type fakeTicker struct {
	e  *Env
	ch chan time.Time
}

func (f *fakeTicker) Chan() <-chan time.Time { return f.ch }
func (f *fakeTicker) Stop()                  {}
func (f *fakeTicker) Done() {
	f.e.Log(Event{"ev": "ret", "call": "refresh", "caller": "poller", "res": "any"})
	f.e.mu.Lock()
	f.e.pollerBusy = false
	f.e.mu.Unlock()
}

// ---- environment steps ----

type Step struct {
	Do          string   `json:"do"`
	Declared    []string `json:"declared,omitempty"`
	AllowLookup bool     `json:"allowlookup,omitempty"`
	Expiry      int64    `json:"expiry,omitempty"` // ms
	Auto        bool     `json:"auto,omitempty"`   // background poller with a driver-controlled ticker
	Bad         string   `json:"bad,omitempty"`    // "noclient" | "nosecrets" | "emptyname"
	CacheKind   string   `json:"cachekind,omitempty"`
	CacheDoc    []docEntry `json:"cachedoc,omitempty"`
	Deadline    int64    `json:"deadline,omitempty"` // ms from now; 0 = none
	Name        string   `json:"name,omitempty"`
	Ver         int      `json:"ver,omitempty"`
	Mode        string   `json:"mode,omitempty"`
	Caller      string   `json:"caller,omitempty"`
	Ms          int64    `json:"ms,omitempty"`
	ForceErr    bool     `json:"forceerr,omitempty"`
	WFail       bool     `json:"wfail,omitempty"`
	Raw         string   `json:"raw,omitempty"` // raw cache bytes (malformed-input runs)
	ForceKind   string   `json:"forcekind,omitempty"` // newstore: the class of the raw cache contents is known by construction
	Park        bool     `json:"park,omitempty"` // lookup: hold the caller between the known-check and the flight
	StructNames []string `json:"structnames,omitempty"` // newstore: names declared through a tagged struct instead of Secrets
}

// parkCtx blocks in Deadline() until the driver opens the gate.
type parkCtx struct {
	context.Context
	gate chan struct{}
}

func (p parkCtx) Deadline() (time.Time, bool) {
	<-p.gate
	return p.Context.Deadline()
}

func (e *Env) renderDoc(doc []docEntry) []byte {
	m := map[string]any{}
	for _, d := range doc {
		la := d.La + e.baseSec()
		if d.La <= -1000000 {
			la = 0
		}
		m[d.Name] = map[string]any{"secret": api.SecretValue{Value: Value(d.Name, d.Ver), Version: api.SecretVersion(d.Ver)}, "lastAccess": fmt.Sprint(la)}
	}
	b, _ := json.Marshal(m)
	return b
}

// Apply performs one environment step and waits for quiescence. It reports false if
// the step is not applicable in the current real state (the script asked for something
// impossible, e.g. releasing a request that is not pending).
func (e *Env) Apply(s Step) bool {
	StepBusy.Add(1)
	defer func() {
		synctest.Wait() // (never returns if some goroutine of the bubble spins or sits on a lock: see the watchdog)
		StepBusy.Add(-1)
		StepsDone.Add(1)
	}()
	switch s.Do {
	case "newstore", "restart":
		restart := s.Do == "restart"
		if restart {
			// a successor process starts when the old one is quiet (the model restarts between calls)
			e.mu.Lock()
			quiet := len(e.pend) == 0 && len(e.active) == 0 && !e.pollerBusy && len(e.parked) == 0 && e.store != nil
			e.mu.Unlock()
			if !quiet {
				return false
			}
		}
		cfg := setec.StoreConfig{Client: client{e}, Secrets: append([]string(nil), s.Declared...), AllowLookup: s.AllowLookup,
			ExpiryAge: time.Duration(s.Expiry) * time.Millisecond, PollInterval: -1, Logf: func(string, ...any) {}}
		e.closed = false
		e.pollerBusy = false
		if len(s.StructNames) > 0 {
			// a struct with one string field per name, tagged setec:"<name>"; its names join the declared set
			var fs []reflect.StructField
			for i, n := range s.StructNames {
				fs = append(fs, reflect.StructField{Name: fmt.Sprintf("F%d", i), Type: reflect.TypeOf(""), Tag: reflect.StructTag(fmt.Sprintf(`setec:%q`, n))})
			}
			v := reflect.New(reflect.StructOf(fs))
			cfg.Structs = append(cfg.Structs, setec.Struct{Value: v.Interface()})
			e.structs = append(e.structs, v.Interface())
		}
		if restart {
			// same cache object, everything else as given; the old store is abandoned
			e.mu.Lock()
			if e.store != nil {
				e.oldStores = append(e.oldStores, e.store) // abandoned like a crashed process; reaped at Cleanup
			}
			e.store = nil
			e.mu.Unlock()
		} else {
			e.cache = nil
			if s.CacheKind != "" && s.CacheKind != "none" {
				e.cache = &recCache{e: e}
				switch s.CacheKind {
				case "empty":
				case "readerr":
					e.cache.rfail = true
				case "garbage":
					e.cache.data = []byte(s.Raw)
					if s.Raw == "" {
						e.cache.data = []byte(`{"a":{"secret":null}`)
					}
				case "doc":
					e.cache.data = e.renderDoc(s.CacheDoc)
				}
			}
		}
		e.mu.Lock()
		e.handles = map[string]setec.Secret{}
		e.mu.Unlock()
		kind := "none"
		var doc []docEntry = []docEntry{}
		if e.cache != nil {
			cfg.Cache = e.cache
			kind = "empty"
			if e.cache.rfail {
				kind = "readerr"
			} else if len(e.cache.data) > 0 {
				if d, ok := e.parseDoc(e.cache.data); ok && validShape(e.cache.data) {
					kind, doc = "doc", d
				} else {
					kind = "garbage"
				}
			}
			if s.ForceKind != "" {
				kind, doc = s.ForceKind, []docEntry{}
			}
		}
		if s.Auto {
			e.ticker = &fakeTicker{e: e, ch: make(chan time.Time)}
			cfg.PollTicker = e.ticker
			cfg.PollInterval = time.Hour
		}
		bad := false
		switch s.Bad {
		case "noclient":
			cfg.Client, bad = nil, true
		case "nosecrets":
			cfg.Secrets, cfg.AllowLookup, bad = nil, false, true
		case "emptyname":
			cfg.Secrets, bad = append(cfg.Secrets, ""), true
		}
		ctx, cancelNew := context.WithCancel(context.Background())
		if s.Deadline > 0 {
			ctx, cancelNew = context.WithTimeout(context.Background(), time.Duration(s.Deadline)*time.Millisecond)
		}
		e.mu.Lock()
		e.cancels["\x00newstore"] = cancelNew
		e.mu.Unlock()
		decl := dedupe(append(append([]string(nil), s.Declared...), s.StructNames...))
		e.Log(Event{"ev": "newstore", "declared": decl, "allowlookup": s.AllowLookup, "expiry": s.Expiry, "auto": s.Auto, "bad": bad,
			"fileclient": false, "structs": append([]string{}, s.StructNames...), "deadline": s.Deadline, "cache": map[string]any{"kind": kind, "doc": doc, "wfail": e.cache != nil && e.cache.wfail}})
		go func() {
			var st *setec.Store
			var err error
			func() {
				defer func() {
					if r := recover(); r != nil {
						err = fmt.Errorf("PANIC: %v", r)
						e.Note("NewStore panicked: %v", r)
					}
				}()
				st, err = setec.NewStore(ctx, cfg)
			}()
			res := "ok"
			if err != nil {
				res = "err"
			} else {
				e.mu.Lock()
				e.store = st
				e.mu.Unlock()
			}
			e.Log(Event{"ev": "ret", "call": "newstore", "caller": "", "res": res})
		}()
	case "respond": // Name is a key of Pending(): "<name>/<kind>"
		e.mu.Lock()
		p := e.pend[s.Name]
		e.mu.Unlock()
		if p == nil {
			return false
		}
		p.release <- s.ForceErr
		<-p.done
	case "svc":
		e.mu.Lock()
		e.svc[s.Name].ver = s.Ver
		e.mu.Unlock()
		e.Log(Event{"ev": "svc", "name": s.Name, "ver": s.Ver})
	case "svcmode":
		e.mu.Lock()
		e.svc[s.Name].mode = s.Mode
		e.mu.Unlock()
		e.Log(Event{"ev": "svcmode", "name": s.Name, "mode": s.Mode})
	case "advance":
		target := e.T() + s.Ms
		time.Sleep(time.Duration(s.Ms) * time.Millisecond)
		synctest.Wait()
		e.Log(Event{"ev": "adv", "t": target})
	case "refresh":
		st := e.theStore()
		if st == nil {
			return false
		}
		ctx, cancel := context.WithCancel(context.Background())
		if s.Deadline > 0 {
			ctx, cancel = context.WithTimeout(context.Background(), time.Duration(s.Deadline)*time.Millisecond)
		}
		e.mu.Lock()
		if e.active[s.Caller] {
			e.mu.Unlock()
			cancel()
			return false // this caller is still in a call
		}
		e.active[s.Caller] = true
		e.cancels[s.Caller] = cancel
		e.mu.Unlock()
		e.Log(Event{"ev": "refresh", "caller": s.Caller, "deadline": s.Deadline})
		go func() {
			err := st.Refresh(ctx)
			res := "ok"
			if err != nil {
				res = "err"
				if err == context.Canceled || err == context.DeadlineExceeded {
					res = "ctx" // the caller's own context ended (Refresh returns it bare); a failed round is wrapped
					if ctx.Err() == nil {
						res = "ctx-foreign"
					}
				}
			}
			e.mu.Lock()
			delete(e.cancels, s.Caller)
			delete(e.active, s.Caller)
			e.mu.Unlock()
			e.Log(Event{"ev": "ret", "call": "refresh", "caller": s.Caller, "res": res})
		}()
	case "tick":
		if e.theStore() == nil || e.ticker == nil {
			return false
		}
		e.mu.Lock()
		busy := e.pollerBusy || e.closed
		if !busy {
			e.pollerBusy = true
		}
		e.mu.Unlock()
		if busy {
			return false // the poller is in a round (or gone): no tick can be delivered now
		}
		e.Log(Event{"ev": "tick"})
		e.ticker.ch <- time.Now() // the poller is waiting for exactly this
	case "handle":
		st := e.theStore()
		if st == nil {
			return false
		}
		res := "ok"
		func() {
			defer func() {
				if r := recover(); r != nil {
					res = "panic"
				}
			}()
			h := st.Secret(s.Name)
			if h == nil {
				res = "nil"
			} else {
				e.mu.Lock()
				e.handles[s.Name] = h
				e.mu.Unlock()
			}
		}()
		e.Log(Event{"ev": "handle", "name": s.Name, "res": res})
	case "updfail":
		// a handle is taken (as in "handle"), then an updater is requested on the same name whose builder rejects the value:
		// NewUpdater reports the error -- and the handle taken before is as good as ever (the name stays referenced)
		st := e.theStore()
		if st == nil {
			return false
		}
		res := "ok"
		var h setec.Secret
		func() {
			defer func() {
				if r := recover(); r != nil {
					res = "panic"
				}
			}()
			if h = st.Secret(s.Name); h == nil {
				res = "nil"
			}
		}()
		e.Log(Event{"ev": "handle", "name": s.Name, "res": res})
		if res == "ok" {
			e.mu.Lock()
			e.handles[s.Name] = h
			e.mu.Unlock()
			_, err := setec.NewUpdater(context.Background(), st, s.Name, func(b []byte) (int, error) {
				// the builder is handed the secret's current value: that is a read like any other (it stamps the access time)
				_, ver, _ := ParseValue(b)
				e.Log(Event{"ev": "read", "name": s.Name, "ver": ver})
				return 0, errors.New("builder rejects the value (scripted)")
			})
			if err == nil {
				e.Note("NewUpdater succeeded although its builder failed")
			}
		}
	case "read":
		e.mu.Lock()
		h := e.handles[s.Name]
		e.mu.Unlock()
		if h == nil {
			return false
		}
		done := make(chan int, 1)
		go func() { done <- e.callHandle(s.Name, h) }()
		synctest.Wait()
		select {
		case v := <-done:
			e.Log(Event{"ev": "read", "name": s.Name, "ver": v})
		default:
			e.Note("calling the handle of %q blocked (it waited for something)", s.Name)
			e.Log(Event{"ev": "read", "name": s.Name, "ver": -2})
		}
	case "unpark":
		e.mu.Lock()
		g := e.parked[s.Caller]
		delete(e.parked, s.Caller)
		e.mu.Unlock()
		if g == nil {
			return false
		}
		close(g)
	case "lookup":
		st := e.theStore()
		if st == nil {
			return false
		}
		ctx, cancel := context.WithCancel(context.Background())
		if s.Deadline > 0 {
			ctx, cancel = context.WithTimeout(context.Background(), time.Duration(s.Deadline)*time.Millisecond)
		}
		e.mu.Lock()
		if e.active[s.Caller] {
			e.mu.Unlock()
			cancel()
			return false // this caller is still in a call
		}
		e.active[s.Caller] = true
		e.mu.Unlock()
		if s.Park {
			// a scheduling gate between "the name is not known" and entering the flight for it: the store asks
			// the context for its deadline exactly there
			g := make(chan struct{})
			e.mu.Lock()
			e.parked[s.Caller] = g
			e.mu.Unlock()
			ctx = parkCtx{Context: ctx, gate: g}
		}
		e.mu.Lock()
		e.cancels[s.Caller] = cancel
		e.mu.Unlock()
		e.Log(Event{"ev": "lookup", "caller": s.Caller, "name": s.Name, "deadline": s.Deadline})
		go func() {
			var h setec.Secret
			var err error
			func() {
				defer func() {
					if r := recover(); r != nil {
						err = fmt.Errorf("PANIC %v", r)
						e.Note("LookupSecret panicked: %v", r)
					}
				}()
				h, err = st.LookupSecret(ctx, s.Name)
			}()
			res := "ok"
			switch {
			case err == nil:
				e.mu.Lock()
				e.handles[s.Name] = h
				e.mu.Unlock()
			case errors.Is(err, context.Canceled), errors.Is(err, context.DeadlineExceeded):
				res = "ctx"
				if ctx.Err() == nil && s.Deadline != 0 {
					// failed by somebody else's context: its own is alive (a caller without a deadline has the store's
					// safety limit as its context, which the driver cannot see: the specification bounds that one)
					res = "ctx-foreign"
				}
			default:
				res = "err"
			}
			e.mu.Lock()
			delete(e.cancels, s.Caller)
			delete(e.active, s.Caller)
			e.mu.Unlock()
			e.Log(Event{"ev": "ret", "call": "lookup", "caller": s.Caller, "res": res})
		}()
	case "cancel":
		e.mu.Lock()
		c := e.cancels[s.Caller]
		delete(e.cancels, s.Caller) // a context is cancelled once
		g := e.parked[s.Caller]
		delete(e.parked, s.Caller)
		e.mu.Unlock()
		if c == nil {
			return false
		}
		e.Log(Event{"ev": "cancel", "caller": s.Caller})
		c()
		if g != nil {
			close(g) // a caller held at the gate goes on (with its dead context)
		}
	case "close":
		st := e.theStore()
		if st == nil {
			return false
		}
		if e.closed {
			return false // Close is called once per store
		}
		e.Log(Event{"ev": "close"})
		e.closed = true
		go func() {
			st.Close()
			e.Log(Event{"ev": "ret", "call": "close", "caller": "", "res": "ok"})
		}()
	case "cachefault":
		if e.cache == nil {
			return false
		}
		e.cache.wfail = s.WFail
		e.Log(Event{"ev": "cachefault", "wfail": s.WFail})
	default:
		panic("unknown step " + s.Do)
	}
	return true
}

// UnparkAll lets every caller held at the gate go on, one at a time.
func (e *Env) UnparkAll() {
	for {
		e.mu.Lock()
		var ps []string
		for k := range e.parked {
			ps = append(ps, k)
		}
		e.mu.Unlock()
		if len(ps) == 0 {
			return
		}
		sort.Strings(ps)
		e.Apply(Step{Do: "unpark", Caller: ps[0]})
	}
}

// Metrics: what the running store exports (counters that are functions of the history), for the "end" line.
func (e *Env) Metrics() map[string]any {
	st := e.theStore()
	if st == nil {
		return map[string]any{"known": "f", "polls": 0, "pollerrs": 0, "fetches": 0}
	}
	out := map[string]any{"known": "t", "polls": 0, "pollerrs": 0, "fetches": 0}
	st.Metrics().Do(func(kv expvar.KeyValue) {
		if iv, ok := kv.Value.(*expvar.Int); ok {
			switch kv.Key {
			case "counter_poll_initiated":
				out["polls"] = int(iv.Value())
			case "counter_poll_errors":
				out["pollerrs"] = int(iv.Value())
			case "counter_secret_fetch":
				out["fetches"] = int(iv.Value())
			}
		}
	})
	return out
}

func (e *Env) theStore() *setec.Store { e.mu.Lock(); defer e.mu.Unlock(); return e.store }

func (e *Env) Pending() []string {
	e.mu.Lock()
	defer e.mu.Unlock()
	var out []string
	for n := range e.pend {
		out = append(out, n)
	}
	sort.Strings(out)
	return out
}

func dedupe(xs []string) []string {
	m := map[string]bool{}
	out := []string{}
	for _, x := range xs {
		if !m[x] && x != "" {
			m[x] = true
			out = append(out, x)
		}
	}
	sort.Strings(out)
	return out
}

// validShape: the three-clause predicate of the documented cache shape (non-empty keys,
// non-null entries with a secret).
func validShape(data []byte) bool {
	var raw map[string]*struct {
		Secret *json.RawMessage `json:"secret"`
	}
	if err := json.Unmarshal(data, &raw); err != nil {
		return false
	}
	for k, v := range raw {
		if k == "" || v == nil || v.Secret == nil || string(*v.Secret) == "null" {
			return false
		}
	}
	return true
}
