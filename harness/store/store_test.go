package store

import (
	"bufio"
	"context"
	"encoding/json"
	"fmt"
	"sync"
	"os"
	"path/filepath"
	"strings"
	"sync/atomic"
	"testing"
	"testing/synctest"
	"time"

	"github.com/tailscale/setec/client/setec"
	"github.com/tailscale/setec/types/api"
	"verifharness/vh"
)

var allNames = []string{"a", "b", "x"}
var allCallers = []string{"k1", "k2", "k3"}

var profiles = map[string]Profile{
	"init": {Name: "init", Names: allNames, Callers: allCallers, Declared: [][]string{{"a"}, {"a", "b"}, {"b", "a", "b"}, {"a", "a"}},
		AllowLookup: []bool{false, true}, Expiry: []int64{0, 0, 30000}, CacheKinds: []string{"none", "empty", "readerr", "garbage", "partial", "complete", "stale", "zerostamp"},
		Deadlines: []int64{0, 0, 3, 700, 10000}, LookupDl: []int64{0}, AdvanceMs: []int64{1, 2, 5, 100, 1000, 4096, 5000},
		Weights: map[string]int{"respond": 30, "fail": 25, "svc": 10, "advance": 35, "read": 2, "handle": 3}, Steps: 40, StructPct: 30},
	"poll": {Name: "poll", Names: allNames, Callers: allCallers, Declared: [][]string{{"a", "b"}, {"a"}},
		AllowLookup: []bool{false, true}, Expiry: []int64{0}, CacheKinds: []string{"none", "empty", "complete"},
		Deadlines: []int64{0}, LookupDl: []int64{0}, AdvanceMs: []int64{1000, 10000}, RefreshDl: []int64{0, 0, 10000, 3000},
		Weights: map[string]int{"respond": 36, "fail": 8, "svc": 20, "advance": 8, "refresh": 16, "read": 8, "handle": 6, "cachefault": 2, "restart": 2, "cancel": 3}, Steps: 60},
	"tick": {Name: "tick", Names: allNames, Callers: allCallers, Declared: [][]string{{"a", "b"}}, Auto: true,
		AllowLookup: []bool{true}, Expiry: []int64{0}, CacheKinds: []string{"empty", "complete"},
		Deadlines: []int64{0}, LookupDl: []int64{0}, AdvanceMs: []int64{1000},
		Weights: map[string]int{"respond": 40, "fail": 8, "svc": 20, "advance": 4, "refresh": 6, "tick": 10, "read": 8, "handle": 6, "close": 2, "restart": 3, "lookup": 3}, Steps: 60},
	"lookup": {Name: "lookup", Names: allNames, Callers: allCallers, Declared: [][]string{{"a"}},
		AllowLookup: []bool{true, true, false}, Expiry: []int64{0}, CacheKinds: []string{"none", "empty"},
		Deadlines: []int64{0}, LookupDl: []int64{0, 0, 10000, 60000}, AdvanceMs: []int64{5000, 10000, 100000, 300000},
		Weights: map[string]int{"respond": 20, "fail": 10, "svc": 6, "advance": 22, "lookup": 25, "cancel": 8, "read": 5, "handle": 4, "refresh": 4}, Steps: 50},
	// long histories dominated by lookups that fail (service errors, cancelled and expired callers): whatever a failed lookup
	// leaves behind must not wear the store out -- the next lookup of a healthy name is sent and answered as the first was
	"lookupwear": {Name: "lookupwear", Names: allNames, Callers: allCallers, Declared: [][]string{{"a"}},
		AllowLookup: []bool{true}, Expiry: []int64{0}, CacheKinds: []string{"none", "empty"},
		Deadlines: []int64{0}, LookupDl: []int64{0, 10000, 10000, 60000}, AdvanceMs: []int64{5000, 10000, 300000},
		Weights: map[string]int{"respond": 14, "fail": 28, "svc": 4, "advance": 12, "lookup": 34, "cancel": 6, "read": 2}, Steps: 140},
	"reads": {Name: "reads", Names: allNames, Callers: allCallers, Declared: [][]string{{"a"}, {"a", "b"}}, Auto: true,
		AllowLookup: []bool{true, true, false}, Expiry: []int64{0, 30000}, CacheKinds: []string{"undeclared", "empty", "complete"},
		Deadlines: []int64{0}, LookupDl: []int64{0, 10000}, AdvanceMs: []int64{1000, 31000},
		Weights: map[string]int{"respond": 30, "fail": 6, "svc": 16, "advance": 8, "refresh": 10, "tick": 6, "read": 16, "handle": 10, "lookup": 6, "close": 2, "restart": 2}, Steps: 70},
	"creads": {Name: "creads", Names: allNames, Callers: allCallers, Declared: [][]string{{"a"}, {"a", "b"}}, Auto: true, Readers: 3,
		AllowLookup: []bool{true, true, false}, Expiry: []int64{0, 30000}, CacheKinds: []string{"undeclared", "empty", "complete"},
		Deadlines: []int64{0}, LookupDl: []int64{0, 10000}, AdvanceMs: []int64{1000, 31000},
		Weights: map[string]int{"respond": 34, "fail": 5, "svc": 16, "advance": 8, "refresh": 10, "tick": 6, "read": 2, "handle": 10, "lookup": 6, "close": 2, "restart": 2}, Steps: 45},
	"lookupx": {Name: "lookupx", Names: []string{"a", "x"}, Callers: allCallers, Declared: [][]string{{"a"}},
		AllowLookup: []bool{true}, Expiry: []int64{0}, CacheKinds: []string{"none", "empty"},
		Deadlines: []int64{0}, LookupDl: []int64{0, 10000, 10000, 60000}, AdvanceMs: []int64{5000, 10000, 300000}, ParkPct: 35,
		Weights: map[string]int{"respond": 16, "fail": 6, "svc": 6, "advance": 22, "lookup": 30, "cancel": 8, "unpark": 12, "read": 6, "handle": 4, "refresh": 6}, Steps: 50},
	"cache": {Name: "cache", Names: allNames, Callers: allCallers, Declared: [][]string{{"a"}, {"a", "b"}}, Auto: true,
		AllowLookup: []bool{true}, Expiry: []int64{0, 30000}, CacheKinds: []string{"empty", "partial", "undeclared", "garbage", "readerr", "complete"},
		Deadlines: []int64{0}, LookupDl: []int64{0}, AdvanceMs: []int64{1000, 31000}, DeadRestartPct: 60,
		Weights: map[string]int{"respond": 34, "fail": 5, "svc": 14, "advance": 8, "refresh": 10, "tick": 6, "read": 6, "handle": 6, "lookup": 8, "close": 3, "restart": 10, "cachefault": 3}, Steps: 60},
	"expiryauto": {Name: "expiryauto", Names: allNames, Callers: allCallers, Declared: [][]string{{"a"}, {"a", "x"}}, Auto: true,
		AllowLookup: []bool{true}, Expiry: []int64{30000, 30000, 0}, CacheKinds: []string{"undeclared", "zerostamp", "empty"},
		Deadlines: []int64{0}, LookupDl: []int64{0}, AdvanceMs: []int64{10000, 30000, 31000, 1000}, ParkPct: 30,
		Weights: map[string]int{"respond": 35, "fail": 4, "svc": 8, "advance": 18, "refresh": 8, "tick": 10, "read": 10, "handle": 6, "lookup": 8, "unpark": 6, "restart": 8, "close": 4, "updfail": 4}, Steps: 60},
	"expiry": {Name: "expiry", Names: allNames, Callers: allCallers, Declared: [][]string{{"a"}, {"a"}, {"a", "x"}, {"b"}},
		AllowLookup: []bool{true}, Expiry: []int64{0, 30000, 30000}, CacheKinds: []string{"undeclared", "zerostamp", "empty"},
		Deadlines: []int64{0}, LookupDl: []int64{0}, AdvanceMs: []int64{10000, 30000, 31000, 1000},
		Weights: map[string]int{"respond": 35, "fail": 4, "svc": 8, "advance": 18, "refresh": 16, "read": 8, "handle": 6, "lookup": 5, "restart": 5, "updfail": 4}, Steps: 60},
}

// TestStoreRandom records random histories of the real store (one synctest bubble each).
func TestStoreRandom(t *testing.T) {
	dir := vh.Dir(t)
	res := vh.NewResult(t, "store-random")
	prof := os.Getenv("VERIF_PROFILE")
	p, ok := profiles[prof]
	if !ok {
		t.Fatalf("unknown profile %q", prof)
	}
	n := vh.EnvInt("VERIF_TRACES", 50)
	w := vh.NewNDJSON(t, filepath.Join(dir, "trace.ndjson"))
	events := 0
	if os.Getenv("VERIF_FILECLIENT") != "" {
		FileClientDir = dir
		defer func() { res.Set("fileclient_checks", int(FileClientChecks.Load())) }()
	}
	var curEnv atomic.Pointer[Env]
	stop := startWatchdog(t, res, func() []Event {
		if e := curEnv.Load(); e != nil {
			return e.Events()
		}
		return nil
	})
	defer stop()
	for h := 0; h < n; h++ {
		r := vh.Rand(int64(1000*h) + int64(len(prof)))
		var evs []Event
		var notes []string
		var met map[string]any
		synctest.Test(t, func(t *testing.T) {
			e := NewEnv(p.Names)
			// construction must give up promptly when the caller's context ends whatever error the client reports for
			// the abandoned request; lookups and polls tell their own context from somebody else's by the error, so
			// there the client wraps context errors as the HTTP client does
			e.OpaqueCtxErr = prof == "init" && h%3 == 2
			curEnv.Store(e)
			RandomHistory(e, r, p)
			met = e.Metrics()
			evs = e.Events()
			notes = append(notes, e.Notes...)
			e.Cleanup()
		})
		w.Put(Event{"ev": "reset", "t": 0})
		for _, ev := range evs {
			w.Put(ev)
		}
		last := int64(0)
		if len(evs) > 0 {
			last = evs[len(evs)-1]["t"].(int64)
		}
		w.Put(Event{"ev": "end", "t": last, "metrics": met})
		events += len(evs)
		for _, nt := range notes {
			res.Violate("store-note "+firstWords(nt), fmt.Sprintf("history %d (%s): %s", h, prof, nt), map[string]any{"history": evs})
		}
		if h < 2 {
			var kinds []string
			for _, ev := range evs {
				kinds = append(kinds, ev["ev"].(string))
			}
			res.Sample(map[string]any{"profile": prof, "events": strings.Join(kinds, " ")})
		}
	}
	w.Close()
	dw := vh.NewNDJSON(t, filepath.Join(dir, "dict.ndjson"))
	dw.Put(map[string]any{"names": p.Names, "callers": p.Callers, "readers": []string{"r1", "r2", "r3"}, "maxver": 3})
	dw.Close()
	res.Set("histories", n)
	res.Set("events", events)
	res.Write(t)
}

func firstWords(s string) string {
	if len(s) > 60 {
		return s[:60]
	}
	return s
}

// startWatchdog runs outside any bubble, on the real clock: a handle call that has been in progress
// for 20 s of real time while no other handle call completed is a call that waited for something
// (handle calls take nanoseconds). The history so far is reported and the process ends, because a
// bubble with a goroutine stuck on a lock can never become idle.
func startWatchdog(t *testing.T, res *vh.Result, allEvents func() []Event) (stop func()) {
	events := func() []Event { // a spinning store can have logged millions of requests: keep the beginning and the end
		evs := allEvents()
		if len(evs) > 400 {
			evs = append(append([]Event{}, evs[:200]...), evs[len(evs)-200:]...)
		}
		return evs
	}
	quit := make(chan struct{})
	go func() {
		last, since := ReadsDone.Load(), time.Now()
		lastStep, stepSince := StepsDone.Load(), time.Now()
		for {
			select {
			case <-quit:
				return
			case <-time.After(200 * time.Millisecond):
			}
			if d := StepsDone.Load(); d != lastStep || StepBusy.Load() == 0 {
				lastStep, stepSince = d, time.Now()
			} else if time.Since(stepSince) > 30*time.Second && InRead.Load() == 0 {
				res.Violate("store-note bubble never idle", "the virtual-time bubble did not become idle for 30 s of real time after a driver step: a goroutine of the store spins "+
					"(e.g. retries without waiting) or waits on a lock; history so far attached", map[string]any{"history": events()})
				res.Write(t)
				os.Exit(0)
			}
			if d := ReadsDone.Load(); d != last || InRead.Load() == 0 {
				last, since = d, time.Now()
				continue
			}
			if time.Since(since) > 20*time.Second {
				res.Violate("store-note handle call blocked", "a handle call has been blocked for 20 s of real time (it waits for a lock or a request); history so far attached",
					map[string]any{"history": events()})
				res.Write(t)
				os.Exit(0)
			}
		}
	}()
	return func() { close(quit) }
}

// stressClient serves ever-increasing versions; every poll finds a new one for every name.
type stressClient struct {
	mu  sync.Mutex
	ver map[string]int
}

func (c *stressClient) bump() {
	c.mu.Lock()
	for n := range c.ver {
		c.ver[n]++
	}
	c.mu.Unlock()
}
func (c *stressClient) Get(ctx context.Context, name string) (*api.SecretValue, error) {
	c.mu.Lock()
	defer c.mu.Unlock()
	v, ok := c.ver[name]
	if !ok {
		return nil, api.ErrNotFound
	}
	return &api.SecretValue{Value: Value(name, v), Version: api.SecretVersion(v)}, nil
}
func (c *stressClient) GetIfChanged(ctx context.Context, name string, old api.SecretVersion) (*api.SecretValue, error) {
	c.mu.Lock()
	defer c.mu.Unlock()
	v := c.ver[name]
	if int(old) == v {
		return nil, api.ErrValueNotChanged
	}
	return &api.SecretValue{Value: Value(name, v), Version: api.SecretVersion(v)}, nil
}

// TestReadStress (C12, under the race detector): 8 reader goroutines call handles as fast as they can while
// polls install new versions, new names are looked up, the expiry sweep runs and finally Close is called.
// The service's versions only grow and each poll installs what it found, so every reader must see, per name,
// whole values of that name with non-decreasing versions, and after a completed poll nothing older than it
// installed. The interleavings are the scheduler's; the oracle is the order property of Store.tla (InstLast).
func TestReadStress(t *testing.T) {
	res := vh.NewResult(t, "store-stress")
	runs := vh.EnvInt("VERIF_TRACES", 10)
	reads := 0
	for run := 0; run < runs; run++ {
		cl := &stressClient{ver: map[string]int{"a": 1, "b": 1, "x": 1, "y": 1}}
		var clock atomic.Int64
		clock.Store(1_000_000)
		st, err := setec.NewStore(context.Background(), setec.StoreConfig{Client: cl, Secrets: []string{"a", "b"}, AllowLookup: true,
			PollInterval: -1, ExpiryAge: 30 * time.Second, Logf: func(string, ...any) {}, Cache: setec.NewMemCache(""),
			TimeNow: func() time.Time { return time.Unix(clock.Load(), 0) }})
		if err != nil {
			t.Fatal(err)
		}
		var floor [4]atomic.Int64 // per name: version installed by the last completed poll
		idx := map[string]int{"a": 0, "b": 1, "x": 2, "y": 3}
		var wg sync.WaitGroup
		stop := make(chan struct{})
		var nreads atomic.Int64
		for g := 0; g < 8; g++ {
			wg.Add(1)
			go func(g int) {
				defer wg.Done()
				hs := map[string]setec.Secret{"a": st.Secret("a"), "b": st.Secret("b")}
				last := map[string]int{}
				for i := 0; ; i++ {
					select {
					case <-stop:
						return
					default:
					}
					if i%50 == g && len(hs) < 4 {
						for _, n := range []string{"x", "y"} {
							if h, err := st.LookupSecret(context.Background(), n); err == nil {
								hs[n] = h
							}
						}
					}
					for n, h := range hs {
						fl := int(floor[idx[n]].Load())
						b := h.Get()
						nreads.Add(1)
						pn, v, whole := ParseValue(b)
						if !whole || pn != n {
							res.Violate("store-stress torn", fmt.Sprintf("handle of %q returned a torn or foreign value %q", n, b), nil)
							return
						}
						if v < last[n] {
							res.Violate("store-stress order", fmt.Sprintf("reader %d saw %q go back from version %d to %d", g, n, last[n], v), nil)
							return
						}
						if v < fl {
							res.Violate("store-stress stale", fmt.Sprintf("reader %d read version %d of %q after a poll that installed %d had completed", g, v, n, fl), nil)
							return
						}
						last[n] = v
					}
				}
			}(g)
		}
		for p := 0; p < 60; p++ {
			cl.bump()
			clock.Add(7)
			if err := st.Refresh(context.Background()); err != nil {
				res.Violate("store-stress refresh", fmt.Sprintf("Refresh failed: %v", err), nil)
			}
			cl.mu.Lock()
			for n, i := range idx {
				if n == "a" || n == "b" {
					floor[i].Store(int64(cl.ver[n]))
				}
			}
			cl.mu.Unlock()
		}
		st.Close()
		time.Sleep(2 * time.Millisecond)
		close(stop)
		wg.Wait()
		reads += int(nreads.Load())
	}
	res.Set("runs", runs)
	res.Set("reads", reads)
	res.Write(t)
}

// TestStoreScript forces behaviours generated by TLC from Store.tla on the real store: each script is the
// sequence of environment steps of one simulated behaviour. Steps that are not applicable in the real
// state (e.g. the release of a request the real store has not sent) are skipped and counted; the verdict
// always comes from validating what was recorded.
func TestStoreScript(t *testing.T) {
	dir := vh.Dir(t)
	res := vh.NewResult(t, "store-script")
	f, err := os.Open(os.Getenv("VERIF_SCRIPTS"))
	if err != nil {
		t.Fatal(err)
	}
	defer f.Close()
	w := vh.NewNDJSON(t, filepath.Join(dir, "trace.ndjson"))
	var curEnv atomic.Pointer[Env]
	stop := startWatchdog(t, res, func() []Event {
		if e := curEnv.Load(); e != nil {
			return e.Events()
		}
		return nil
	})
	defer stop()
	sc := bufio.NewScanner(f)
	sc.Buffer(make([]byte, 1<<20), 1<<26)
	n, applied, skipped := 0, 0, 0
	for sc.Scan() {
		var steps []Step
		if err := json.Unmarshal(sc.Bytes(), &steps); err != nil {
			t.Fatal(err)
		}
		n++
		var evs []Event
		var notes []string
		var met map[string]any
		synctest.Test(t, func(t *testing.T) {
			e := NewEnv(allNames)
			curEnv.Store(e)
			for _, s := range steps {
				if s.Do == "advance" {
					e.mu.Lock()
					np := len(e.parked)
					e.mu.Unlock()
					if np > 0 {
						skipped++
						continue
					}
				}
				if e.Apply(s) {
					applied++
				} else {
					skipped++
				}
			}
			e.UnparkAll()
			synctest.Wait()
			met = e.Metrics()
			evs = e.Events()
			notes = append(notes, e.Notes...)
			e.Cleanup()
		})
		w.Put(Event{"ev": "reset", "t": 0})
		for _, ev := range evs {
			w.Put(ev)
		}
		last := int64(0)
		if len(evs) > 0 {
			last = evs[len(evs)-1]["t"].(int64)
		}
		w.Put(Event{"ev": "end", "t": last, "metrics": met})
		for _, nt := range notes {
			res.Violate("store-note "+firstWords(nt), fmt.Sprintf("script %d: %s", n, nt), map[string]any{"script": steps, "history": evs})
		}
	}
	w.Close()
	dw := vh.NewNDJSON(t, filepath.Join(dir, "dict.ndjson"))
	dw.Put(map[string]any{"names": allNames, "callers": allCallers, "readers": []string{"r1", "r2", "r3"}, "maxver": 3})
	dw.Close()
	res.Set("scripts", n)
	res.Set("applied", applied)
	res.Set("skipped", skipped)
	res.Write(t)
}

// slowCache: a cache whose writes take a while (a slow disk), so that concurrent installs overlap their flushes.
type slowCache struct {
	mu    sync.Mutex
	data  []byte
	seed  atomic.Int64
	count atomic.Int64
}

func (c *slowCache) Write(b []byte) error {
	k := c.count.Add(1)
	time.Sleep(time.Duration((k*7+c.seed.Load())%4) * time.Millisecond)
	c.mu.Lock()
	c.data = append([]byte(nil), b...)
	c.mu.Unlock()
	return nil
}
func (c *slowCache) Read() ([]byte, error) { c.mu.Lock(); defer c.mu.Unlock(); return c.data, nil }

// TestCacheOrder (C13, real concurrency, race detector): lookups of new names and installing polls run
// concurrently against a slow cache. Every install rewrites the whole document; whatever the interleaving,
// once everything is quiet the document must hold every known secret at its installed version (the last
// write is the one made with the last state) -- so a successor started from it with the service unreachable
// serves exactly those values, and a FileClient agrees.
func TestCacheOrder(t *testing.T) {
	res := vh.NewResult(t, "store-cacheorder")
	runs := vh.EnvInt("VERIF_TRACES", 20)
	for run := 0; run < runs; run++ {
		cl := &stressClient{ver: map[string]int{"a": 1, "x1": 1, "x2": 1, "x3": 1, "x4": 1}}
		cache := &slowCache{}
		cache.seed.Store(int64(run))
		st, err := setec.NewStore(context.Background(), setec.StoreConfig{Client: cl, Secrets: []string{"a"}, AllowLookup: true,
			PollInterval: -1, Logf: func(string, ...any) {}, Cache: cache})
		if err != nil {
			t.Fatal(err)
		}
		var wg sync.WaitGroup
		for g, names := range [][]string{{"x1", "x2"}, {"x3", "x4"}} {
			wg.Add(1)
			go func(g int, names []string) {
				defer wg.Done()
				for _, n := range names {
					if _, err := st.LookupSecret(context.Background(), n); err != nil {
						res.Violate("cacheorder lookup", fmt.Sprintf("lookup of %q failed: %v", n, err), nil)
					}
				}
			}(g, names)
		}
		wg.Add(1)
		go func() {
			defer wg.Done()
			for p := 0; p < 4; p++ {
				cl.bump()
				if err := st.Refresh(context.Background()); err != nil {
					res.Violate("cacheorder refresh", fmt.Sprintf("Refresh failed: %v", err), nil)
				}
			}
		}()
		wg.Wait()
		// quiet: compare the document with what the store serves
		doc, _ := cache.Read()
		for _, n := range []string{"a", "x1", "x2", "x3", "x4"} {
			h := st.Secret(n)
			if h == nil {
				res.Violate("cacheorder missing handle", fmt.Sprintf("run %d: %q is not known after its lookup returned", run, n), nil)
				continue
			}
			_, ver, _ := ParseValue(h.Get())
			e := NewEnv(nil)
			entries, whole := e.parseDoc(doc)
			if !whole {
				res.Violate("cacheorder torn", fmt.Sprintf("run %d: the cache document carries a torn value", run), nil)
			}
			found := false
			for _, d := range entries {
				if d.Name == n {
					found = true
					if d.Ver != ver {
						res.Violate("cacheorder stale "+n, fmt.Sprintf("run %d: when everything is quiet the store serves %q version %d but the cache document holds version %d "+
							"(an older document overwrote a newer one)", run, n, ver, d.Ver), map[string]any{"doc": string(doc)})
					}
				}
			}
			if !found {
				res.Violate("cacheorder absent "+n, fmt.Sprintf("run %d: when everything is quiet the store serves %q (version %d) but the cache document does not hold it "+
					"(an older document overwrote a newer one)", run, n, ver), map[string]any{"doc": string(doc)})
			}
		}
		st.Close()
	}
	res.Set("runs", runs)
	res.Write(t)
}
