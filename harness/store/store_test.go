package store

import (
	"fmt"
	"os"
	"path/filepath"
	"strings"
	"testing"
	"testing/synctest"

	"verifharness/vh"
)

var allNames = []string{"a", "b", "x"}
var allCallers = []string{"k1", "k2", "k3"}

var profiles = map[string]Profile{
	"init": {Name: "init", Names: allNames, Callers: allCallers, Declared: [][]string{{"a"}, {"a", "b"}, {"b", "a", "b"}, {"a", "a"}},
		AllowLookup: []bool{false, true}, Expiry: []int64{0}, CacheKinds: []string{"none", "empty", "readerr", "garbage", "partial", "complete", "stale"},
		Deadlines: []int64{0, 0, 3, 700, 10000}, LookupDl: []int64{0}, AdvanceMs: []int64{1, 2, 5, 100, 1000, 4096, 5000},
		Weights: map[string]int{"respond": 30, "fail": 25, "svc": 10, "advance": 35, "read": 2, "handle": 3}, Steps: 40},
	"poll": {Name: "poll", Names: allNames, Callers: allCallers, Declared: [][]string{{"a", "b"}, {"a"}},
		AllowLookup: []bool{false, true}, Expiry: []int64{0}, CacheKinds: []string{"none", "empty", "complete"},
		Deadlines: []int64{0}, LookupDl: []int64{0}, AdvanceMs: []int64{1000},
		Weights: map[string]int{"respond": 40, "fail": 8, "svc": 20, "advance": 4, "refresh": 14, "read": 8, "handle": 6, "cachefault": 2, "restart": 2}, Steps: 60},
	"tick": {Name: "tick", Names: allNames, Callers: allCallers, Declared: [][]string{{"a", "b"}}, Auto: true,
		AllowLookup: []bool{true}, Expiry: []int64{0}, CacheKinds: []string{"empty", "complete"},
		Deadlines: []int64{0}, LookupDl: []int64{0}, AdvanceMs: []int64{1000},
		Weights: map[string]int{"respond": 40, "fail": 8, "svc": 20, "advance": 4, "refresh": 6, "tick": 10, "read": 8, "handle": 6, "close": 2, "restart": 3, "lookup": 3}, Steps: 60},
	"lookup": {Name: "lookup", Names: allNames, Callers: allCallers, Declared: [][]string{{"a"}},
		AllowLookup: []bool{true, true, false}, Expiry: []int64{0}, CacheKinds: []string{"none", "empty"},
		Deadlines: []int64{0}, LookupDl: []int64{0, 0, 10000, 60000}, AdvanceMs: []int64{5000, 10000, 100000, 300000},
		Weights: map[string]int{"respond": 20, "fail": 10, "svc": 6, "advance": 22, "lookup": 25, "cancel": 8, "read": 5, "handle": 4, "refresh": 4}, Steps: 50},
	"expiry": {Name: "expiry", Names: allNames, Callers: allCallers, Declared: [][]string{{"a"}},
		AllowLookup: []bool{true}, Expiry: []int64{0, 30000, 30000}, CacheKinds: []string{"undeclared", "zerostamp", "empty"},
		Deadlines: []int64{0}, LookupDl: []int64{0}, AdvanceMs: []int64{10000, 30000, 31000, 1000},
		Weights: map[string]int{"respond": 35, "fail": 4, "svc": 8, "advance": 18, "refresh": 16, "read": 8, "handle": 6, "lookup": 5, "restart": 5}, Steps: 60},
}

// TestStoreRandom records random histories of the real store (one synctest bubble each).
func TestStoreRandom(t *testing.T) {
	dir := vh.Dir(t)
	res := vh.NewResult(t, "store-random")
	prof := os.Getenv("VERIF_PROFILE")
	p, ok := profiles[prof]
	if !ok {
		t.Fatalf("unknown profile %q", prof)
	}
	n := vh.EnvInt("VERIF_TRACES", 50)
	w := vh.NewNDJSON(t, filepath.Join(dir, "trace.ndjson"))
	events := 0
	for h := 0; h < n; h++ {
		r := vh.Rand(int64(1000*h) + int64(len(prof)))
		var evs []Event
		var notes []string
		synctest.Test(t, func(t *testing.T) {
			e := NewEnv(p.Names)
			RandomHistory(e, r, p)
			evs = e.Events()
			notes = append(notes, e.Notes...)
			e.Cleanup()
		})
		w.Put(Event{"ev": "reset", "t": 0})
		for _, ev := range evs {
			w.Put(ev)
		}
		last := int64(0)
		if len(evs) > 0 {
			last = evs[len(evs)-1]["t"].(int64)
		}
		w.Put(Event{"ev": "end", "t": last})
		events += len(evs)
		for _, nt := range notes {
			res.Violate("store-note "+firstWords(nt), fmt.Sprintf("history %d (%s): %s", h, prof, nt), map[string]any{"history": evs})
		}
		if h < 2 {
			var kinds []string
			for _, ev := range evs {
				kinds = append(kinds, ev["ev"].(string))
			}
			res.Sample(map[string]any{"profile": prof, "events": strings.Join(kinds, " ")})
		}
	}
	w.Close()
	dw := vh.NewNDJSON(t, filepath.Join(dir, "dict.ndjson"))
	dw.Put(map[string]any{"names": p.Names, "callers": p.Callers, "maxver": 3})
	dw.Close()
	res.Set("histories", n)
	res.Set("events", events)
	res.Write(t)
}

func firstWords(s string) string {
	if len(s) > 60 {
		return s[:60]
	}
	return s
}
