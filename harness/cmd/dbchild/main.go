// dbchild performs ONE mutating operation of the real code on a state directory,
// bracketed by marker writes, so that the parent can trace it with strace, inject a
// failing system call or a SIGKILL at any point, and inspect what is left.
//
//	dbchild -dir D -kek keyset.json -setup put:a:x,put:a:y -op delver:a:2
//	dbchild -dir D -op cachewrite:<file-with-bytes>
package main

import (
	"encoding/json"
	"flag"
	"fmt"
	"os"
	"path/filepath"
	"runtime"
	"strconv"
	"strings"

	"github.com/tailscale/setec/client/setec"
	"verifharness/vault"
)

type result struct {
	Op       string           `json:"op"`
	Err      string           `json:"err"`
	Class    string           `json:"class"`
	State    []vault.SecState `json:"state"`    // what the running process serves after the call
	Retry    string           `json:"retry"`    // "ok" | "error:..." | "" (not retried)
	After    []vault.SecState `json:"after"`    // served state after the retry
	OpenErr  string           `json:"openerr"`  // failure before the operation (setup)
	CacheGot string           `json:"cachegot"` // cachewrite: what Read returns afterwards
	LiveSize int64            `json:"livesize"` // size of the live file right after the operation (before any retry)
}

func sizeOf(p string) int64 {
	if fi, err := os.Stat(p); err == nil {
		return fi.Size()
	}
	return 0
}

func mark(s string) { os.Stderr.WriteString(s + "\n") }

func doOp(sys *vault.Sys, spec string) vault.Outcome {
	p := strings.Split(spec, ":")
	c := vault.Call{Op: p[0], Who: "su", Rules: vault.SuRules(), Val: "Nil", Fault: "none"}
	if len(p) > 1 {
		c.Name = p[1]
	}
	switch p[0] {
	case "put":
		c.Val = p[2]
	case "activate", "delver":
		c.Ver, _ = strconv.Atoi(p[2])
	}
	return sys.DoConc(c)
}

func main() {
	dir := flag.String("dir", "", "state directory")
	kekPath := flag.String("kek", "", "cleartext keyset")
	setup := flag.String("setup", "", "comma separated setup operations")
	op := flag.String("op", "", "the operation under test")
	flag.Parse()
	runtime.GOMAXPROCS(1)
	runtime.LockOSThread()
	res := result{Op: *op}
	out := func() {
		b, _ := json.Marshal(res)
		fmt.Println(string(b))
	}
	if strings.HasPrefix(*op, "cachewrite:") {
		data, err := os.ReadFile(strings.TrimPrefix(*op, "cachewrite:"))
		if err != nil {
			res.OpenErr = err.Error()
			out()
			return
		}
		fc, err := setec.NewFileCache(filepath.Join(*dir, "cache", "secrets.json"))
		if err != nil {
			res.OpenErr = err.Error()
			out()
			return
		}
		mark("MARK-BEGIN")
		err = fc.Write(data)
		mark("MARK-END")
		res.LiveSize = sizeOf(filepath.Join(*dir, "cache", "secrets.json"))
		res.Class = "ok"
		if err != nil {
			res.Err, res.Class = err.Error(), "error"
			if b, err := os.ReadFile(filepath.Join(*dir, "cache", "secrets.json")); err == nil {
				os.WriteFile(filepath.Join(*dir, "after-error.cache"), b, 0o600)
			}
			if err2 := fc.Write(data); err2 != nil {
				res.Retry = "error:" + err2.Error()
			} else {
				res.Retry = "ok"
			}
		}
		got, _ := fc.Read()
		res.CacheGot = string(got)
		out()
		return
	}
	kek, err := vault.KEKFromFile(*kekPath)
	if err != nil {
		res.OpenErr = err.Error()
		out()
		return
	}
	d := vault.NewDict(0)
	d.NoSubst()
	for _, n := range []string{"a", "b"} {
		d.Name(n)
	}
	for _, tok := range []string{"x", "y", "later"} {
		d.Val(tok)
	}
	if *op == "create" {
		mark("MARK-BEGIN")
		sys, err := vault.OpenSys(*dir, kek, d)
		mark("MARK-END")
		res.LiveSize = sizeOf(filepath.Join(*dir, "db", "state.db"))
		res.Class = "ok"
		if err != nil {
			res.Err, res.Class = err.Error(), "error"
			sys, err = vault.OpenSys(*dir, kek, d)
			if err != nil {
				res.Retry = "error:" + err.Error()
				out()
				return
			}
			res.Retry = "ok"
		}
		res.State, _ = sys.Observe(false)
		res.After = res.State
		out()
		return
	}
	sys, err := vault.OpenSys(*dir, kek, d)
	if err != nil {
		res.OpenErr = err.Error()
		out()
		return
	}
	for _, s := range strings.Split(*setup, ",") {
		if s == "" {
			continue
		}
		if o := doOp(sys, s); o.Class != "ok" {
			res.OpenErr = "setup " + s + ": " + o.Class
			out()
			return
		}
	}
	if *op == "" {
		res.State, _ = sys.Observe(false)
		out()
		return
	}
	mark("MARK-BEGIN")
	o := doOp(sys, *op)
	mark("MARK-END")
	res.LiveSize = sizeOf(filepath.Join(*dir, "db", "state.db"))
	res.Class = o.Class
	if len(o.Notes) > 0 {
		res.Err = strings.Join(o.Notes, ";")
	}
	res.State, _ = sys.Observe(false)
	if o.Class != "ok" {
		// what is on disk right now (before the retry), for the parent to open
		if b, err := os.ReadFile(filepath.Join(*dir, "db", "state.db")); err == nil {
			os.MkdirAll(filepath.Join(*dir, "after-error", "db"), 0o700)
			os.WriteFile(filepath.Join(*dir, "after-error", "db", "state.db"), b, 0o600)
		}
		// later calls must succeed normally
		o2 := doOp(sys, *op)
		res.Retry = o2.Class
		res.After, _ = sys.Observe(false)
	}
	out()
}
