// Package updater binds spec/Updater.tla to the real setec.Updater / watcher code: real
// updaters on a real Store (scripted service), every observable step logged under one mutex,
// the trace validated by TLC (UpdaterTrace), which places the unlogged steps.
package updater

import (
	"context"
	"errors"
	"fmt"
	"math/rand"
	"path/filepath"
	"runtime"
	"sort"
	"sync"
	"sync/atomic"
	"testing"
	"time"

	"github.com/tailscale/setec/client/setec"
	"github.com/tailscale/setec/types/api"
	"verifharness/store"
	"verifharness/vh"
)

type Event = map[string]any

var names = []string{"a", "b", "x"} // x is not declared: it enters the store through lookups
var upds = []string{"u1", "u2", "u3"}
var getters = []string{"t1", "t2", "t3", "t4"}

type svc struct {
	mu  sync.Mutex
	ver map[string]int
	// content of each version: a new version usually carries new bytes, but now and then it carries the bytes of the version
	// before the previous one again (a value rolled back and forth, a key re-issued). cv[name][v] is the version whose bytes
	// version v carries; the bytes handed to a builder therefore stand for every install with that content.
	cv map[string]map[int]int
}

func (s *svc) content(name string, v int) int {
	if m := s.cv[name]; m != nil {
		if c, ok := m[v]; ok {
			return c
		}
	}
	return v
}

// bump installs the next version of name (caller holds s.mu).
func (s *svc) bump(name string) {
	s.ver[name]++
	v := s.ver[name]
	if s.cv == nil {
		s.cv = map[string]map[int]int{}
	}
	if s.cv[name] == nil {
		s.cv[name] = map[int]int{}
	}
	c := v
	if v >= 3 && (v*7+len(name))%3 == 0 {
		c = s.content(name, v-2)
	}
	s.cv[name][v] = c
}

// installsWith: the installs (0-based: version - 1) whose content is the one of content version c.
func (s *svc) installsWith(name string, c int) []int {
	s.mu.Lock()
	defer s.mu.Unlock()
	out := []int{}
	for v := 1; v <= s.ver[name]; v++ {
		if s.content(name, v) == c {
			out = append(out, v-1)
		}
	}
	if len(out) == 0 {
		out = append(out, c-1)
	}
	return out
}

func (s *svc) Get(ctx context.Context, name string) (*api.SecretValue, error) {
	s.mu.Lock()
	defer s.mu.Unlock()
	v := s.ver[name]
	return &api.SecretValue{Value: store.Value(name, s.content(name, v)), Version: api.SecretVersion(v)}, nil
}
func (s *svc) GetIfChanged(ctx context.Context, name string, old api.SecretVersion) (*api.SecretValue, error) {
	s.mu.Lock()
	defer s.mu.Unlock()
	v := s.ver[name]
	if int(old) == v {
		return nil, api.ErrValueNotChanged
	}
	return &api.SecretValue{Value: store.Value(name, s.content(name, v)), Version: api.SecretVersion(v)}, nil
}

// flakyCache: a cache whose writes fail on demand (a full disk); the store must still notify watchers.
type flakyCache struct {
	fail atomic.Bool
	mu   sync.Mutex
	data []byte
}

func (c *flakyCache) Write(b []byte) error {
	if c.fail.Load() {
		return errors.New("cache write failed (scripted)")
	}
	c.mu.Lock()
	c.data = append([]byte(nil), b...)
	c.mu.Unlock()
	return nil
}
func (c *flakyCache) Read() ([]byte, error) { c.mu.Lock(); defer c.mu.Unlock(); return c.data, nil }

// cval is the value type T of the updaters: it knows what it was built from and counts its Close calls.
type cval struct {
	h      *hist
	from   []int
	id     int
	closed atomic.Int32
}

func (c *cval) Close() error {
	n := c.closed.Add(1)
	c.h.log(Event{"ev": "vclose", "id": c.id})
	if n > 1 {
		c.h.note("value %d (built from install %v) was closed %d times", c.id, c.from, n)
	}
	return nil
}

type hist struct {
	mu      sync.Mutex
	events  []Event
	notes   []string
	nextID  int
	failing map[string]bool
	created map[string]bool
	st      *setec.Store
	sv      *svc
	us      map[string]*setec.Updater[*cval]
	uname   map[string]string
	cache   *flakyCache
	gate    map[string]chan struct{} // builder of updater x blocks here (after logging its call) until closed
	entered chan string              // a gated builder reports that it has been entered
}

func tf(b bool) string {
	if b {
		return "t"
	}
	return "f"
}

func (h *hist) log(e Event) { h.mu.Lock(); h.events = append(h.events, e); h.mu.Unlock() }
func (h *hist) note(f string, a ...any) {
	h.mu.Lock()
	h.notes = append(h.notes, fmt.Sprintf(f, a...))
	h.mu.Unlock()
}

func newHist(t *testing.T) *hist {
	h := &hist{nextID: 1, failing: map[string]bool{}, created: map[string]bool{}, us: map[string]*setec.Updater[*cval]{}, uname: map[string]string{}, gate: map[string]chan struct{}{}, entered: make(chan string, 8),
		sv: &svc{ver: map[string]int{}}}
	for _, n := range names {
		h.sv.ver[n] = 1
	}
	h.cache = &flakyCache{}
	st, err := setec.NewStore(context.Background(), setec.StoreConfig{Client: h.sv, Secrets: []string{"a", "b"}, AllowLookup: true, PollInterval: -1,
		Logf: func(string, ...any) {}, Cache: h.cache})
	if err != nil {
		t.Fatal(err)
	}
	h.st = st
	return h
}

func (h *hist) builder(x, name string) func([]byte) (*cval, error) {
	return func(b []byte) (*cval, error) {
		n, ver, whole := store.ParseValue(b)
		if !whole || n != name {
			h.note("builder of %s was given a torn or foreign value %q", x, b)
		}
		from := h.sv.installsWith(name, ver) // every install these bytes stand for
		h.mu.Lock()
		defer h.mu.Unlock()
		init := !h.created[x]
		if h.failing[x] {
			h.events = append(h.events, Event{"ev": "build", "u": x, "from": from, "id": 0, "ok": "f", "init": tf(init)})
			return nil, errors.New("builder fails (scripted)")
		}
		id := h.nextID
		h.nextID++
		h.events = append(h.events, Event{"ev": "build", "u": x, "from": from, "id": id, "ok": "t", "init": tf(init)})
		if g := h.gate[x]; g != nil {
			// a slow builder: whatever happens now happens between "the secret was read" and "the value is in place"
			h.mu.Unlock()
			h.entered <- x
			<-g
			h.mu.Lock()
		}
		return &cval{h: h, from: from, id: id}, nil
	}
}

func (h *hist) install(S []string) {
	sort.Strings(S)
	h.log(Event{"ev": "ibegin", "names": S})
	h.sv.mu.Lock()
	for _, n := range S {
		h.sv.bump(n)
	}
	h.sv.mu.Unlock()
	if err := h.st.Refresh(context.Background()); err != nil && !h.cache.fail.Load() {
		h.note("Refresh failed: %v", err)
	}
	h.log(Event{"ev": "iend"})
}

func (h *hist) newUpdater(x, name string) { h.newUpdaterCtx(context.Background(), x, name) }

// parkCtx blocks in Deadline(): the store asks a lookup's context for its deadline between "the name is not
// known" and entering the flight for it, so a caller can be held exactly there.
type parkCtx struct {
	context.Context
	gate chan struct{}
}

func (p parkCtx) Deadline() (time.Time, bool) { <-p.gate; return p.Context.Deadline() }

func (h *hist) newUpdaterCtx(ctx context.Context, x, name string) {
	h.log(Event{"ev": "nbegin", "u": x, "name": name})
	u, err := setec.NewUpdater(ctx, h.st, name, h.builder(x, name))
	h.mu.Lock()
	h.created[x] = true
	if err == nil {
		h.us[x] = u
		h.uname[x] = name
	}
	h.events = append(h.events, Event{"ev": "nend", "u": x, "ok": tf(err == nil)})
	h.mu.Unlock()
}

func (h *hist) get(t, x string, withErr bool) {
	h.mu.Lock()
	u := h.us[x]
	h.mu.Unlock()
	if u == nil {
		return
	}
	h.log(Event{"ev": "gbegin", "t": t, "u": x})
	v := u.Get()
	e := "na"
	if withErr {
		e = tf(u.Err() != nil)
	}
	if v == nil {
		h.note("Get of %s returned nil", x)
		h.log(Event{"ev": "gend", "t": t, "u": x, "id": -1, "from": []int{-1}, "err": e})
		return
	}
	if withErr && v.closed.Load() != 0 {
		// (only when no other Get can run: with concurrent callers a later Get may legitimately have replaced
		// and closed this value by the time we look; TLC checks CloseOnce on the logged vclose lines instead)
		h.note("Get of %s returned value %d which has been closed", x, v.id)
	}
	h.log(Event{"ev": "gend", "t": t, "u": x, "id": v.id, "from": v.from, "err": e})
}

func (h *hist) setfail(x string, b bool) {
	h.mu.Lock()
	if h.failing[x] != b {
		h.failing[x] = b
		h.events = append(h.events, Event{"ev": "setfail", "u": x, "fail": tf(b)})
	}
	h.mu.Unlock()
}

func (h *hist) liveUpds() []string {
	h.mu.Lock()
	defer h.mu.Unlock()
	var out []string
	for x := range h.us {
		out = append(out, x)
	}
	sort.Strings(out)
	return out
}

func (h *hist) freeUpds() []string {
	h.mu.Lock()
	defer h.mu.Unlock()
	var out []string
	for _, x := range upds {
		if !h.created[x] {
			out = append(out, x)
		}
	}
	return out
}

func subset(r *rand.Rand) []string {
	switch r.Intn(4) {
	case 0:
		return []string{"a", "b"}
	case 1:
		return []string{"b"}
	default:
		return []string{"a"}
	}
}

func sequential(t *testing.T, r *rand.Rand, steps int) *hist {
	h := newHist(t)
	h.newUpdater("u1", "a")
	for i := 0; i < steps; i++ {
		switch k := r.Intn(20); {
		case k < 6:
			for j := r.Intn(3) + 1; j > 0; j-- { // bursts: several installs between Gets
				h.install(subset(r))
			}
		case k < 14:
			if l := h.liveUpds(); len(l) > 0 {
				h.get("t1", l[r.Intn(len(l))], true)
			}
		case k < 16:
			h.setfail(upds[r.Intn(len(upds))], r.Intn(2) == 0)
		case k < 17:
			h.cache.fail.Store(r.Intn(2) == 0) // the cache starts or stops failing its writes
		default:
			if f := h.freeUpds(); len(f) > 0 {
				h.newUpdater(f[0], names[r.Intn(2)*r.Intn(2)])
			}
		}
	}
	for _, x := range h.liveUpds() {
		h.get("t1", x, true)
	}
	h.st.Close()
	return h
}

func (h *hist) setGate(x string) chan struct{} {
	g := make(chan struct{})
	h.mu.Lock()
	h.gate[x] = g
	h.mu.Unlock()
	return g
}
func (h *hist) openGate(x string, g chan struct{}) {
	h.mu.Lock()
	delete(h.gate, x)
	h.mu.Unlock()
	close(g)
}

// gated: the builder is held open (it is the caller's code, it may be slow) while installs and other Get
// callers arrive: an updater created while an update is in flight; a Get overtaken by installs and by
// another Get caller.
func gated(t *testing.T, r *rand.Rand) *hist {
	h := newHist(t)
	h.newUpdater("u1", "a")
	if r.Intn(3) == 0 {
		// two updaters on an undeclared name, created by racing lookups: the second caller found the name unknown
		// but enters the flight only after the first caller's lookup has installed it (and fetches again)
		g := make(chan struct{})
		done := make(chan struct{})
		go func() { h.newUpdaterCtx(parkCtx{Context: context.Background(), gate: g}, "u2", "x"); close(done) }()
		time.Sleep(2 * time.Millisecond) // let it reach the gate (if it has not, the race simply does not happen)
		h.newUpdater("u3", "x")
		close(g)
		<-done
		for k := 1 + r.Intn(2); k > 0; k-- {
			h.install([]string{"x"})
			h.get("t1", "u2", true)
			h.get("t1", "u3", true)
		}
	}
	for round := 0; round < 2+r.Intn(2); round++ {
		switch r.Intn(3) {
		case 0: // creation with a slow first build
			free := h.freeUpds()
			if len(free) == 0 {
				continue
			}
			x := free[0]
			g := h.setGate(x)
			done := make(chan struct{})
			go func() { h.newUpdater(x, "a"); close(done) }()
			<-h.entered
			for k := r.Intn(3); k > 0; k-- {
				h.install([]string{"a"})
			}
			h.openGate(x, g)
			<-done
			h.get("t1", x, true)
		default: // a Get with a slow rebuild, overtaken by installs and a second caller
			l := h.liveUpds()
			x := l[r.Intn(len(l))]
			h.install([]string{h.uname[x]}) // make a rebuild due
			g := h.setGate(x)
			d1, d2 := make(chan struct{}), make(chan struct{})
			go func() { h.get("t1", x, false); close(d1) }()
			select {
			case <-h.entered:
			case <-d1: // no rebuild happened (that is for TLC to judge)
				h.openGate(x, g)
				continue
			}
			for k := r.Intn(3); k > 0; k-- {
				h.install([]string{h.uname[x]})
			}
			go func() { h.get("t2", x, false); close(d2) }()
			time.Sleep(3 * time.Millisecond) // the second caller must be waiting for the first; give it time to do otherwise
			h.openGate(x, g)
			<-d1
			select { // the second caller's own rebuild is not gated (the gate is gone)
			case <-d2:
			case <-h.entered:
				<-d2
			}
			h.get("t1", x, true)
		}
	}
	for _, x := range h.liveUpds() {
		h.get("t1", x, true)
	}
	h.st.Close()
	return h
}

func concurrent(t *testing.T, r *rand.Rand) *hist {
	h := newHist(t)
	h.newUpdater("u1", "a")
	if r.Intn(2) == 0 {
		h.newUpdater("u2", names[r.Intn(2)])
	}
	var wg sync.WaitGroup
	ninst := 1 + r.Intn(3)
	h.cache.fail.Store(r.Intn(5) == 0)
	seeds := []int64{r.Int63(), r.Int63(), r.Int63(), r.Int63(), r.Int63()}
	wg.Add(1)
	go func() {
		defer wg.Done()
		rr := rand.New(rand.NewSource(seeds[0]))
		for i := 0; i < ninst; i++ {
			h.install(subset(rr))
			if rr.Intn(2) == 0 {
				runtime.Gosched()
			}
		}
	}()
	ng := 2 + r.Intn(2)
	for gi := 0; gi < ng; gi++ {
		wg.Add(1)
		go func(gi int) {
			defer wg.Done()
			rr := rand.New(rand.NewSource(seeds[1+gi]))
			for i := 0; i < 2+rr.Intn(2); i++ {
				if l := h.liveUpds(); len(l) > 0 {
					h.get(getters[gi], l[rr.Intn(len(l))], false)
				}
				if rr.Intn(2) == 0 {
					runtime.Gosched()
				}
			}
		}(gi)
	}
	if r.Intn(2) == 0 {
		wg.Add(1)
		go func() { // an updater created while updates are in flight
			defer wg.Done()
			h.newUpdater("u3", "a")
			h.get("t4", "u3", false)
		}()
	}
	if r.Intn(3) == 0 {
		wg.Add(1)
		go func() {
			defer wg.Done()
			h.setfail("u1", true)
			runtime.Gosched()
			h.setfail("u1", false)
		}()
	}
	wg.Wait()
	for _, x := range h.liveUpds() {
		h.get("t1", x, true)
	}
	h.st.Close()
	return h
}

func TestUpdaterHistories(t *testing.T) {
	dir := vh.Dir(t)
	res := vh.NewResult(t, "updater-histories")
	mode := vh.EnvInt("VERIF_CONC", 0)
	n := vh.EnvInt("VERIF_TRACES", 50)
	w := vh.NewNDJSON(t, filepath.Join(dir, "trace.ndjson"))
	events, gets, builds := 0, 0, 0
	for i := 0; i < n; i++ {
		r := vh.Rand(int64(7919*i + mode))
		var h *hist
		if mode == 1 {
			old := runtime.GOMAXPROCS([]int{2, 4, 8, 16}[i%4])
			h = concurrent(t, r)
			runtime.GOMAXPROCS(old)
		} else if mode == 2 {
			h = gated(t, r)
		} else {
			h = sequential(t, r, 25)
		}
		w.Put(Event{"ev": "reset"})
		for _, e := range h.events {
			w.Put(e)
			switch e["ev"] {
			case "gend":
				gets++
			case "build":
				builds++
			}
		}
		w.Put(Event{"ev": "end"})
		events += len(h.events)
		for _, nt := range h.notes {
			res.Violate("updater-note "+first(nt, 50), fmt.Sprintf("history %d: %s", i, nt), map[string]any{"history": h.events})
		}
		if i < 2 {
			res.Sample(map[string]any{"mode": mode, "events": h.events[:min(len(h.events), 14)]})
		}
	}
	w.Close()
	dw := vh.NewNDJSON(t, filepath.Join(dir, "dict.ndjson"))
	dw.Put(map[string]any{"names": names, "upds": upds, "getters": getters})
	dw.Close()
	res.Set("histories", n)
	res.Set("events", events)
	res.Set("gets", gets)
	res.Set("builds", builds)
	res.Write(t)
}

func first(s string, n int) string {
	if len(s) > n {
		return s[:n]
	}
	return s
}
