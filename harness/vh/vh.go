// Package vh holds the small amount of plumbing shared by all conformance
// drivers: where inputs come from (files written by the orchestrator from TLC
// output), where traces and results go, seeding, and the result record.
package vh

import (
	"bufio"
	"encoding/json"
	"fmt"
	"math/rand"
	"os"
	"path/filepath"
	"strconv"
	"sync"
	"testing"
)

// Dir is the scratch directory for this driver run (VERIF_DIR).
func Dir(t testing.TB) string {
	d := os.Getenv("VERIF_DIR")
	if d == "" {
		t.Skip("VERIF_DIR not set: drivers are run by /verif/check")
	}
	return d
}

func Seed() int64 {
	s, err := strconv.ParseInt(os.Getenv("VERIF_SEED"), 10, 64)
	if err != nil {
		return 1
	}
	return s
}

func Tier() string {
	if os.Getenv("VERIF_TIER") == "thorough" {
		return "thorough"
	}
	return "quick"
}

func Thorough() bool { return Tier() == "thorough" }

func EnvInt(name string, def int) int {
	if v, err := strconv.Atoi(os.Getenv(name)); err == nil {
		return v
	}
	return def
}

func Rand(salt int64) *rand.Rand { return rand.New(rand.NewSource(Seed()*1000003 + salt)) }

// Violation is one disagreement between the real code and the specification.
type Violation struct {
	Key    string `json:"key"`    // stable identifier of the failing case (for known-findings matching)
	What   string `json:"what"`   // human description
	Replay any    `json:"replay"` // the concrete case, replayable
}

// Result is what a driver reports back to the orchestrator.
type Result struct {
	mu         sync.Mutex
	Name       string         `json:"name"`
	Counters   map[string]int `json:"counters"`
	Samples    []any          `json:"samples"`
	Violations []Violation    `json:"violations"`
	Notes      []string       `json:"notes"`
	Extra      map[string]any `json:"extra"`
	path       string
}

func NewResult(t testing.TB, name string) *Result {
	return &Result{Name: name, Counters: map[string]int{}, path: filepath.Join(Dir(t), name+".result.json")}
}

func (r *Result) Add(k string, n int) { r.mu.Lock(); r.Counters[k] += n; r.mu.Unlock() }
func (r *Result) SetExtra(k string, v any) {
	r.mu.Lock()
	if r.Extra == nil {
		r.Extra = map[string]any{}
	}
	r.Extra[k] = v
	r.mu.Unlock()
}
func (r *Result) Set(k string, n int) { r.mu.Lock(); r.Counters[k] = n; r.mu.Unlock() }
func (r *Result) Sample(v any) {
	r.mu.Lock()
	if len(r.Samples) < 6 {
		r.Samples = append(r.Samples, v)
	}
	r.mu.Unlock()
}
func (r *Result) Note(f string, a ...any) {
	r.mu.Lock()
	r.Notes = append(r.Notes, fmt.Sprintf(f, a...))
	r.mu.Unlock()
}
func (r *Result) Violate(key, what string, replay any) {
	r.mu.Lock()
	if len(r.Violations) < 50 {
		r.Violations = append(r.Violations, Violation{Key: key, What: what, Replay: replay})
	}
	r.Counters["violations"]++
	r.mu.Unlock()
}
func (r *Result) NViol() int { r.mu.Lock(); defer r.mu.Unlock(); return r.Counters["violations"] }

// Write stores the result; a driver that does not reach Write is "dead" and
// the orchestrator reports tool trouble (exit 2), never a verdict.
func (r *Result) Write(t testing.TB) {
	r.mu.Lock()
	defer r.mu.Unlock()
	b, err := json.Marshal(r)
	if err != nil {
		t.Fatalf("encode result: %v", err)
	}
	if err := os.WriteFile(r.path, b, 0o644); err != nil {
		t.Fatalf("write result: %v", err)
	}
}

// ReadNDJSON decodes one JSON value per line of path into fn.
func ReadNDJSON[T any](t testing.TB, path string, fn func(T)) {
	f, err := os.Open(path)
	if err != nil {
		t.Fatalf("open %s: %v", path, err)
	}
	defer f.Close()
	sc := bufio.NewScanner(f)
	sc.Buffer(make([]byte, 1<<20), 1<<28)
	for sc.Scan() {
		if len(sc.Bytes()) == 0 {
			continue
		}
		var v T
		if err := json.Unmarshal(sc.Bytes(), &v); err != nil {
			t.Fatalf("decode %s: %v: %.200s", path, err, sc.Bytes())
		}
		fn(v)
	}
	if err := sc.Err(); err != nil {
		t.Fatalf("scan %s: %v", path, err)
	}
}

// NDJSONWriter writes one JSON value per line.
type NDJSONWriter struct {
	f *os.File
	w *bufio.Writer
	N int
}

func NewNDJSON(t testing.TB, path string) *NDJSONWriter {
	f, err := os.Create(path)
	if err != nil {
		t.Fatalf("create %s: %v", path, err)
	}
	return &NDJSONWriter{f: f, w: bufio.NewWriterSize(f, 1<<20)}
}

func (w *NDJSONWriter) Put(v any) {
	b, err := json.Marshal(v)
	if err != nil {
		panic(err)
	}
	w.w.Write(b)
	w.w.WriteByte('\n')
	w.N++
}

func (w *NDJSONWriter) Close() { w.w.Flush(); w.f.Close() }

// Runes converts a string to its code points (the form the specification uses).
func Runes(s string) []int {
	out := []int{}
	for _, r := range s {
		out = append(out, int(r))
	}
	return out
}

func FromRunes(cps []int) string {
	rs := make([]rune, len(cps))
	for i, c := range cps {
		rs[i] = rune(c)
	}
	return string(rs)
}
