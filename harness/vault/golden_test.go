package vault

import (
	"bytes"
	"encoding/json"
	"fmt"
	"os"
	"path/filepath"
	"sort"
	"testing"

	"github.com/tink-crypto/tink-go/v2/aead"
	"github.com/tink-crypto/tink-go/v2/insecurecleartextkeyset"
	"github.com/tink-crypto/tink-go/v2/keyset"
	"verifharness/vh"
)

func goldenRoot() string { return filepath.Join(os.Getenv("VERIF_ROOT"), "golden") }

type goldenMeta struct {
	Vals   map[string][]byte `json:"vals"`
	MaxVer int               `json:"maxver"`
	Final  []SecState        `json:"final"`
	Commit string            `json:"commit"`
}

// TestGenGolden writes golden database files. It is run ONCE, by hand, with the
// harness pointed at a worktree of the pinned commit (see golden/README.md), never by a check.
func TestGenGolden(t *testing.T) {
	out := os.Getenv("VERIF_GOLDEN_OUT")
	if out == "" {
		t.Skip("VERIF_GOLDEN_OUT not set")
	}
	os.MkdirAll(out, 0o755)
	h, err := keyset.NewHandle(aead.AES256GCMKeyTemplate())
	if err != nil {
		t.Fatal(err)
	}
	var kb bytes.Buffer
	if err := insecurecleartextkeyset.Write(h, keyset.NewJSONWriter(&kb)); err != nil {
		t.Fatal(err)
	}
	os.WriteFile(filepath.Join(out, "test-kek.cleartext.json"), kb.Bytes(), 0o644)
	r := vh.Rand(4242)
	for k := 0; k < vh.EnvInt("VERIF_N", 12); k++ {
		kek, err := KEKFromFile(filepath.Join(out, "test-kek.cleartext.json"))
		if err != nil {
			t.Fatal(err)
		}
		d := NewDict(0)
		d.sigma = map[rune]rune{}
		for i, tok := range valToks[1:] {
			b := make([]byte, 8+i*40)
			r.Read(b)
			if i == 0 {
				b = append([]byte{0, 0xff, '\n'}, b...)
			}
			d.vals[tok] = b
		}
		dir := filepath.Join(out, fmt.Sprintf("v1-%02d", k))
		os.MkdirAll(dir, 0o755)
		tmp := t.TempDir()
		os.Mkdir(filepath.Join(tmp, "db"), 0o700)
		sys := &Sys{Dir: tmp, Path: filepath.Join(tmp, "db", "state.db"), KEK: kek, D: d}
		if err := sys.open(); err != nil {
			t.Fatal(err)
		}
		w := vh.NewNDJSON(t, filepath.Join(dir, "trace.ndjson"))
		res := vh.NewResult(t, "gen")
		maxver := 3
		w.Put(resetEvent{Ev: "reset", Kek: 1, Via: "db"})
		genHistory(sys, r, w, res, 50+r.Intn(40), true, "db", &maxver, false)
		w.Close()
		st, _ := sys.Observe(true)
		b, _ := os.ReadFile(sys.Path)
		os.WriteFile(filepath.Join(dir, "state.db"), b, 0o644)
		mb, _ := json.MarshalIndent(goldenMeta{Vals: d.vals, MaxVer: maxver + 2, Final: stateForTrace(st), Commit: os.Getenv("VERIF_PINNED")}, "", " ")
		os.WriteFile(filepath.Join(dir, "meta.json"), mb, 0o644)
	}
}

// TestGolden opens every committed schema-v1 file with the CURRENT build and appends
// what it observes to the history that produced the file; TLC validates the result.
func TestGolden(t *testing.T) {
	dir := vh.Dir(t)
	res := vh.NewResult(t, "vault-golden")
	root := goldenRoot()
	ents, err := os.ReadDir(root)
	if err != nil {
		t.Fatal(err)
	}
	w := vh.NewNDJSON(t, filepath.Join(dir, "trace.ndjson"))
	type nm struct {
		Name string `json:"name"`
		Cps  []int  `json:"cps"`
	}
	names := []nm{}
	for _, n := range namePool {
		names = append(names, nm{n, vh.Runes(n)})
	}
	maxver := 3
	nfiles := 0
	var dirs []string
	for _, e := range ents {
		if e.IsDir() {
			dirs = append(dirs, e.Name())
		}
	}
	sort.Strings(dirs)
	for _, name := range dirs {
		gd := filepath.Join(root, name)
		var meta goldenMeta
		mb, err := os.ReadFile(filepath.Join(gd, "meta.json"))
		if err != nil {
			continue
		}
		json.Unmarshal(mb, &meta)
		if meta.MaxVer > maxver {
			maxver = meta.MaxVer
		}
		kek, err := KEKFromFile(filepath.Join(root, "test-kek.cleartext.json"))
		if err != nil {
			t.Fatal(err)
		}
		d := NewDict(0)
		d.sigma = map[rune]rune{}
		for k, v := range meta.Vals {
			d.vals[k] = v
		}
		for _, n := range namePool {
			d.Name(n)
		}
		tmp := t.TempDir()
		os.Mkdir(filepath.Join(tmp, "db"), 0o700)
		golden, _ := os.ReadFile(filepath.Join(gd, "state.db"))
		sys := &Sys{Dir: tmp, Path: filepath.Join(tmp, "db", "state.db"), KEK: kek, D: d}
		os.WriteFile(sys.Path, golden, 0o600)
		nfiles++
		oerr := func() (err error) {
			defer func() {
				if r := recover(); r != nil {
					err = fmt.Errorf("db.Open panicked: %v", r)
				}
			}()
			return sys.open()
		}()
		if err := oerr; err != nil {
			res.Violate("golden-open "+name, fmt.Sprintf("schema-v1 file golden/%s/state.db written by the pinned build does not open: %v", name, err),
				map[string]any{"kind": "golden", "file": name})
			continue
		}
		after, _ := os.ReadFile(sys.Path)
		st, notes := sys.Observe(true)
		if len(notes) > 0 {
			res.Violate("golden-observe "+name, fmt.Sprint(notes), map[string]any{"kind": "golden", "file": name})
		}
		if StateKey(st, true) != StateKey(meta.Final, true) {
			res.Violate("golden-state "+name, fmt.Sprintf("golden/%s opens to {%s}, the pinned build recorded {%s}", name, StateKey(st, true), StateKey(meta.Final, true)),
				map[string]any{"kind": "golden", "file": name})
		}
		// history that produced the file + what the current build sees after opening it
		vh.ReadNDJSON(t, filepath.Join(gd, "trace.ndjson"), func(m json.RawMessage) { w.Put(m) })
		w.Put(reopenEvent{Ev: "reopen", Kek: OpenKek(sys.KEK.Uses()), FileSame: bytes.Equal(golden, after), State: stateForTrace(st)})
		res.Sample(map[string]any{"file": name, "bytes": len(golden), "opens_to": StateKey(st, true)})
	}
	w.Close()
	dw := vh.NewNDJSON(t, filepath.Join(dir, "dict.ndjson"))
	dw.Put(map[string]any{"names": names, "vals": valToks, "maxver": maxver})
	dw.Close()
	res.Set("files", nfiles)
	res.Write(t)
}
