package vault

import (
	"encoding/json"
	"sync"
)

var sharedKEK struct {
	once sync.Once
	k    *countingAEAD
}

// SharedKEK is one real AES-256-GCM key-encryption key for the lifetime of the process (a server that
// restarts keeps its key).
func SharedKEK() *countingAEAD {
	sharedKEK.once.Do(func() { sharedKEK.k = NewKEK() })
	return sharedKEK.k
}

// CacheEntryValue extracts the bytes a cache document holds for name, reading the documented format
// {"name": {"secret": {"Value": base64, "Version": n}, "lastAccess": "..."}} independently of the store's code.
func CacheEntryValue(doc []byte, name string) ([]byte, bool) {
	var m map[string]struct {
		Secret *struct {
			Value   []byte
			Version int
		} `json:"secret"`
	}
	if err := json.Unmarshal(doc, &m); err != nil {
		return nil, false
	}
	e, ok := m[name]
	if !ok || e.Secret == nil {
		return nil, false
	}
	if e.Secret.Value == nil {
		return []byte{}, true
	}
	return e.Secret.Value, true
}
