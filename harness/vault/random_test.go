package vault

import (
	"fmt"
	"math/rand"
	"os"
	"path/filepath"
	"testing"

	"verifharness/vh"
)

type replyJ struct {
	Class string `json:"class"`
	Ver   int    `json:"ver"`
	Val   string `json:"val"`
	Info  any    `json:"info"`
	List  any    `json:"list"`
}

type opEvent struct {
	Ev    string     `json:"ev"`
	Op    string     `json:"op"`
	Who   string     `json:"who"`
	Rules []RuleJ    `json:"rules"`
	Name  string     `json:"name"`
	Val   string     `json:"val"`
	Ver   int        `json:"ver"`
	Fault string     `json:"fault"`
	Reply replyJ     `json:"reply"`
	Audit []AuditRec `json:"audit"`
	Saved bool       `json:"saved"`
	Kek   int        `json:"kek"`
	State []SecState `json:"state"`
	Via   string     `json:"via"`
}

type reopenEvent struct {
	Ev       string     `json:"ev"`
	Kek      int        `json:"kek"`
	FileSame bool       `json:"filesame"`
	State    []SecState `json:"state"`
}

type resetEvent struct {
	Ev  string `json:"ev"`
	Kek int    `json:"kek"`
	Via string `json:"via"`
}

func stateForTrace(st []SecState) []SecState {
	out := []SecState{}
	for _, s := range st {
		if s.Latest < 0 {
			s.Latest = 0
		}
		if s.Vers == nil {
			s.Vers = []VerVal{}
		}
		out = append(out, s)
	}
	return out
}

func outcomeReply(d *Dict, o Outcome) replyJ {
	none := map[string]any{"some": false}
	r := replyJ{Class: o.Class, Ver: o.Ver, Val: "Nil", Info: none, List: none}
	if o.HasVal {
		r.Val = d.Tok(o.Val)
	}
	if o.Info != nil {
		r.Info = map[string]any{"some": true, "name": o.Info.Name, "active": o.Info.Active, "versions": o.Info.Versions}
	}
	if o.IsList {
		items := []any{}
		for _, in := range o.List {
			items = append(items, map[string]any{"some": true, "name": in.Name, "active": in.Active, "versions": in.Versions})
		}
		r.List = map[string]any{"some": true, "items": items}
	}
	return r
}

var namePool = []string{"a", "a/b", "prod/db\npass", "_internal/x", "", "x*y", "é世\U0001F511", "a.b", "b",
	// names that are different strings but "the same path": the service treats names as opaque strings
	"a/../b", "a/", "./a", "a//b"}
var patPool = []string{"*", "a", "a*", "*/b", "prod/*", "_internal/*", "*\n*", "x*y", "x\\*y", "*b", "a?b", "a.b", "é*", "", "**", "*a*", "b", "a*a", "a/*/b", "b*b", "a*/b", "a/*", "./*"}
var valToks = []string{"E", "v1", "v2", "v3", "v4"}
var actionPool = []string{"get", "info", "put", "activate", "delete"}

// TestRandomHistories runs seeded random histories on the real system (DB API or
// HTTP handlers), with arbitrary rule sets, names from an adversarial pool, injected
// audit/save faults and restarts, and records everything observable as a trace that
// TLC validates against Vault (VaultTrace).
func TestRandomHistories(t *testing.T) {
	dir := vh.Dir(t)
	res := vh.NewResult(t, "vault-random")
	r := vh.Rand(31)
	ntr := vh.EnvInt("VERIF_TRACES", 100)
	nev := vh.EnvInt("VERIF_EVENTS", 40)
	httpMode := os.Getenv("VERIF_MODE") == "http"
	noFaults := os.Getenv("VERIF_NOFAULTS") != ""
	via := "db"
	if httpMode {
		via = "http"
	}
	d := NewDict(0)
	d.sigma = map[rune]rune{}
	for i, tok := range valToks[1:] {
		b := make([]byte, 8+i*40)
		r.Read(b)
		switch i {
		case 0:
			b = append([]byte{0, 0xff, '\n'}, b...)
		case 1:
			b = append([]byte("text \"q\" \\ \r\n"), b...)
		}
		d.vals[tok] = b
	}
	w := vh.NewNDJSON(t, filepath.Join(dir, "trace.ndjson"))
	maxver := 3
	total := 0
	for tr := 0; tr < ntr; tr++ {
		sys, err := NewSys(dir, d, httpMode, nil)
		if err != nil {
			t.Fatal(err)
		}
		sys.ObserveCopy = tr%2 == 1 && !httpMode
		w.Put(resetEvent{Ev: "reset", Kek: OpenKek(sys.KEK.Uses()), Via: via})
		total += genHistory(sys, r, w, res, nev, noFaults, via, &maxver, tr == 0)
		sys.Close()
	}
	w.Close()
	// dictionary for the trace specification
	type nm struct {
		Name string `json:"name"`
		Cps  []int  `json:"cps"`
	}
	names := []nm{}
	for _, n := range namePool {
		names = append(names, nm{n, vh.Runes(n)})
	}
	dw := vh.NewNDJSON(t, filepath.Join(dir, "dict.ndjson"))
	dw.Put(map[string]any{"names": names, "vals": valToks, "maxver": maxver + 2})
	dw.Close()
	res.Set("traces", ntr)
	res.Set("events", total)
	res.Write(t)
}

func genRules(r *rand.Rand) []RuleJ {
	if r.Intn(4) == 0 {
		// one grant naming several actions over several patterns, then narrower grants that add one pattern to one
		// action each: every action must end up with exactly its own patterns
		acts := append([]string(nil), actionPool...)
		r.Shuffle(len(acts), func(i, j int) { acts[i], acts[j] = acts[j], acts[i] })
		first := RuleJ{Action: acts[:2+r.Intn(2)], Secret: [][]int{}}
		for k := []int{3, 5, 6, 7, 2, 4}[r.Intn(6)]; k > 0; k-- {
			first.Secret = append(first.Secret, vh.Runes(patPool[r.Intn(len(patPool))]))
		}
		out := []RuleJ{first}
		for i := 0; i < 2+r.Intn(2); i++ {
			out = append(out, RuleJ{Action: []string{first.Action[i%len(first.Action)]}, Secret: [][]int{vh.Runes(patPool[r.Intn(len(patPool))])}})
		}
		return out
	}
	n := r.Intn(4)
	out := []RuleJ{}
	for i := 0; i < n; i++ {
		ru := RuleJ{Action: []string{}, Secret: [][]int{}}
		for _, a := range actionPool {
			if r.Intn(5) < 2 {
				ru.Action = append(ru.Action, a)
			}
		}
		for k := r.Intn(3); k > 0; k-- {
			ru.Secret = append(ru.Secret, vh.Runes(patPool[r.Intn(len(patPool))]))
		}
		out = append(out, ru)
	}
	return out
}

// saveFaultsToo: also inject failing saves when noFaults is set (marker-scanning runs: a failed save must
// neither leak nor touch the key-encryption key)
var saveFaultsToo = false

// genHistory runs one random history on sys and appends its events to w.
func genHistory(sys *Sys, r *rand.Rand, w *vh.NDJSONWriter, res *vh.Result, nev int, noFaults bool, via string, maxver *int, sample bool) int {
	return genHistoryNames(sys, r, w, res, nev, noFaults, via, maxver, sample, namePool)
}

func genHistoryNames(sys *Sys, r *rand.Rand, w *vh.NDJSONWriter, res *vh.Result, nev int, noFaults bool, via string, maxver *int, sample bool, namePool []string) int {
	d := sys.D
	httpMode := sys.HTTP
	total := 0
	genRules := func() []RuleJ { return genRules(r) }
		callers := map[string][]RuleJ{"su": suRules, "c1": genRules(), "c2": genRules(), "c3": genRules()}
		names := []string{namePool[r.Intn(len(namePool))], namePool[r.Intn(len(namePool))], namePool[r.Intn(len(namePool))]}
		broken := 0
		pendingRelist, lastReadName, lastX := "", "", 0
		for ev := 0; ev < nev; ev++ {
			if broken > 0 {
				broken--
			}
			if r.Intn(30) == 0 || broken == 1 {
				before, _ := os.ReadFile(sys.Path)
				o, _ := sys.Reopen()
				after, _ := os.ReadFile(sys.Path)
				st, notes := sys.Observe(true)
				if len(notes) > 0 || len(o.Notes) > 0 {
					res.Violate("reopen-notes", fmt.Sprint(o.Notes, notes), nil)
				}
				w.Put(reopenEvent{Ev: "reopen", Kek: o.Kek, FileSame: string(before) == string(after), State: stateForTrace(st)})
				broken = 0
				continue
			}
			who := "su"
			if r.Intn(5) < 2 {
				who = []string{"c1", "c2", "c3"}[r.Intn(3)]
			}
			relist := ""
			if pendingRelist != "" {
				// the same principal comes back with another grant (policy changed, or another node of the same user)
				// and asks the same question again, with nothing written in between: every call is decided on the
				// rules presented with it
				who, relist = pendingRelist, pendingRelist
				callers[who] = genRules()
				pendingRelist = ""
			}
			c := Call{Who: who, Rules: callers[who], Name: names[r.Intn(len(names))], Val: "Nil", Fault: "none"}
			if r.Intn(12) == 0 {
				c.Name = namePool[r.Intn(len(namePool))]
			}
			x := r.Intn(100)
			if relist != "" {
				x = lastX // the same question again
				c.Name = lastReadName
			} else if who != "su" && x >= 30 && x < 68 && (r.Intn(4) == 0 || x >= 63) {
				pendingRelist = who
			}
			lastReadName, lastX = c.Name, x
			switch {
			case x < 30:
				c.Op, c.Val = "put", valToks[r.Intn(len(valToks))]
			case x < 38:
				c.Op = "get"
			case x < 48:
				c.Op, c.Ver = "getver", r.Intn((*maxver)+2)
			case x < 58:
				c.Op, c.Ver = "getcond", r.Intn((*maxver)+2)
			case x < 63:
				c.Op = "info"
			case x < 68:
				c.Op, c.Name = "list", ""
			case x < 80:
				c.Op, c.Ver = "activate", r.Intn((*maxver)+2)
			case x < 93:
				c.Op, c.Ver = "delver", r.Intn((*maxver)+2)
			default:
				c.Op = "delete"
			}
			if httpMode && (c.Op == "getver" || c.Op == "getcond") && c.Ver == 0 {
				c.Ver = 1
			}
			if saveFaultsToo && r.Intn(9) == 0 && (c.Op == "put" || c.Op == "activate" || c.Op == "delver" || c.Op == "delete") {
				c.Fault = "save"
			}
			if !noFaults && r.Intn(40) == 0 {
				c.Fault = []string{"auditWrite", "auditSync", "save"}[r.Intn(3)]
				if c.Fault == "save" && (c.Op == "get" || c.Op == "getver" || c.Op == "getcond" || c.Op == "info" || c.Op == "list") {
					c.Fault = "none"
				}
			}
			out := sys.Do(c)
			if c.Fault == "auditWrite" {
				broken = 2 + r.Intn(3)
			}
			if out.Ver+1 > (*maxver) {
				(*maxver) = out.Ver + 1
			}
			st, notes := sys.Observe(true)
			if out.Class == "panic" || len(out.Notes) > 0 || len(notes) > 0 {
				res.Violate(fmt.Sprintf("protocol %s %v", c.Op, append(out.Notes, notes...)),
					fmt.Sprintf("%s(%s,%q): %v %v", c.Op, c.Who, c.Name, out.Notes, notes), map[string]any{"call": c})
			}
			if out.Audit == nil {
				out.Audit = []AuditRec{}
			}
			e := opEvent{Ev: "op", Op: c.Op, Who: c.Who, Rules: c.Rules, Name: c.Name, Val: c.Val, Ver: c.Ver, Fault: c.Fault,
				Reply: outcomeReply(d, out), Audit: out.Audit, Saved: out.Saved, Kek: out.Kek, State: stateForTrace(st), Via: via}
			if e.Rules == nil {
				e.Rules = []RuleJ{}
			}
			w.Put(e)
			total++
			if sample && ev < 3 {
				res.Sample(e)
			}
		}
	return total
}
