package vault

import (
	"bytes"
	"encoding/base64"
	"encoding/hex"
	"encoding/json"
	"fmt"
	"io"
	"os"
	"path/filepath"
	"strings"
	"testing"

	"github.com/tailscale/setec/audit"
	"github.com/tailscale/setec/db"
	"verifharness/vh"
)

// openCopy opens a byte image as a database with the given key and projects it.
func openCopy(dir string, img []byte, kek *countingAEAD, d *Dict) (string, error) {
	p := filepath.Join(dir, "tamper.db")
	if err := os.WriteFile(p, img, 0o600); err != nil {
		return "", err
	}
	defer os.Remove(p)
	var adb *db.DB
	var err error
	func() {
		defer func() {
			if r := recover(); r != nil {
				err = fmt.Errorf("PANIC: %v", r)
			}
		}()
		adb, err = db.Open(p, kek.inner, audit.New(io.Discard))
	}()
	if err != nil {
		return "", err
	}
	s := &Sys{Dir: dir, Path: p, KEK: kek, D: d, DB: adb, Sink: &Sink{}}
	st, notes := s.Observe(false)
	if len(notes) > 0 {
		return StateKey(st, false) + " notes:" + strings.Join(notes, ";"), nil
	}
	return StateKey(st, false), nil
}

func buildDB(t *testing.T, base string, d *Dict, kek *countingAEAD, n int, salt string) (*Sys, []byte, string) {
	dir, _ := os.MkdirTemp(base, "tamper-")
	os.Mkdir(filepath.Join(dir, "db"), 0o700)
	s := &Sys{Dir: dir, Path: filepath.Join(dir, "db", "state.db"), KEK: kek, D: d}
	if err := s.open(); err != nil {
		t.Fatal(err)
	}
	for i := 0; i < n; i++ {
		name := fmt.Sprintf("%s/secret-%02d", salt, i)
		for v := 0; v < 1+i%3; v++ {
			o := s.Do(Call{Op: "put", Who: "su", Rules: suRules, Name: name, Val: fmt.Sprintf("%s-val-%d-%d", salt, i, v), Fault: "none"})
			if o.Class != "ok" {
				t.Fatalf("setup put: %v", o)
			}
		}
	}
	img, _ := os.ReadFile(s.Path)
	st, _ := s.Observe(false)
	return s, img, StateKey(st, false)
}

// TestTamper instantiates every tamper class of Envelope.tla exhaustively on real
// files written with a real AES-256-GCM key-encryption key: every single-bit flip,
// every truncation length, every field splice between valid databases (same and
// different KEK), cross-field moves and foreign keys.  Oracle (TamperEvident): the
// open fails, or the contents are exactly the original ones.
func TestTamper(t *testing.T) {
	dir := vh.Dir(t)
	res := vh.NewResult(t, "vault-tamper")
	base := dir
	if shmRoot != "" {
		base = shmRoot
	}
	work, _ := os.MkdirTemp(base, "verif-tamperwork-")
	defer os.RemoveAll(work)
	d := NewDict(0)
	d.NoSubst()
	k1, k2 := NewKEK(), NewKEK()
	nsec := 2
	if vh.Thorough() {
		nsec = 20
	}
	sA, imgA, keyA := buildDB(t, work, d, k1, nsec, "alpha")
	_, imgB, keyB := buildDB(t, work, d, k1, 3, "bravo") // another database, same KEK
	_, imgC, _ := buildDB(t, work, d, k2, 3, "charlie")  // another database, another KEK
	defer sA.Close()
	if keyA == keyB {
		t.Fatal("setup: databases do not differ")
	}
	evals := 0
	check := func(class, what string, img []byte, kek *countingAEAD, mustFail bool) {
		evals++
		got, err := openCopy(work, img, kek, d)
		res.Add("class_"+class, 1)
		if err != nil {
			if strings.HasPrefix(err.Error(), "PANIC") {
				res.Violate("tamper-panic "+class, fmt.Sprintf("%s: opening panicked: %v", what, err), map[string]any{"class": class, "what": what})
			}
			return
		}
		if mustFail {
			res.Violate("tamper-opened "+class, fmt.Sprintf("%s: the database opened (contents {%s}) although it must not", what, got), map[string]any{"class": class, "what": what})
			return
		}
		if got != keyA {
			res.Violate("tamper-different "+class, fmt.Sprintf("%s: the database opened with DIFFERENT contents {%.200s}, original {%.200s}", what, got, keyA), map[string]any{"class": class, "what": what})
		} else {
			res.Add("opened_with_original_contents", 1)
		}
	}
	// untouched file opens with the original contents; foreign key never opens it
	check("untouched", "unmodified file", imgA, k1, false)
	if res.Counters["opened_with_original_contents"] != 1 {
		t.Fatal("setup: untouched file does not open")
	}
	check("wrongkek", "file of KEK 1 opened with KEK 2", imgA, k2, true)
	check("wrongkek", "file of KEK 2 opened with KEK 1", imgC, k1, true)
	// every single-bit flip
	stride := 1
	if !vh.Thorough() && len(imgA) > 1500 {
		stride = 2
	}
	for i := 0; i < len(imgA); i += stride {
		for b := 0; b < 8; b++ {
			img := append([]byte(nil), imgA...)
			img[i] ^= 1 << b
			check("bitflip", fmt.Sprintf("bit %d of byte %d flipped", b, i), img, k1, false)
		}
	}
	// every truncation length: an error, or exactly the original contents (a file format may end in bytes that carry nothing)
	for n := 0; n < len(imgA); n++ {
		check("truncate", fmt.Sprintf("file truncated to %d of %d bytes", n, len(imgA)), imgA[:n], k1, false)
	}
	// field splices
	type wrapped struct {
		Version uint32
		DEK     []byte
		DB      []byte
	}
	var wa, wb, wc wrapped
	json.Unmarshal(imgA, &wa)
	json.Unmarshal(imgB, &wb)
	json.Unmarshal(imgC, &wc)
	mk := func(w wrapped) []byte { b, _ := json.Marshal(w); return b }
	check("splice", "DEK field of another database (same KEK)", mk(wrapped{1, wb.DEK, wa.DB}), k1, false)
	check("splice", "DB field of another database (same KEK)", mk(wrapped{1, wa.DEK, wb.DB}), k1, false)
	check("splice", "DEK field of a database of another KEK", mk(wrapped{1, wc.DEK, wa.DB}), k1, false)
	check("splice", "DB field of a database of another KEK", mk(wrapped{1, wa.DEK, wc.DB}), k1, false)
	check("splice", "DEK and DB fields exchanged", mk(wrapped{1, wa.DB, wa.DEK}), k1, false)
	check("splice", "DB field used as DEK too", mk(wrapped{1, wa.DB, wa.DB}), k1, false)
	check("splice", "empty DEK", mk(wrapped{1, nil, wa.DB}), k1, false)
	check("splice", "empty DB", mk(wrapped{1, wa.DEK, nil}), k1, false)
	for _, v := range []uint32{0, 2, 3, 255, 1 << 31} {
		check("version", fmt.Sprintf("schema version %d", v), mk(wrapped{v, wa.DEK, wa.DB}), k1, false)
	}
	// splices of byte ranges of B's ciphertext into A's (same length regions)
	for off := 0; off+16 <= len(wa.DB) && off+16 <= len(wb.DB); off += 16 {
		w := wrapped{1, wa.DEK, append([]byte(nil), wa.DB...)}
		copy(w.DB[off:off+16], wb.DB[off:off+16])
		check("splice", fmt.Sprintf("16 ciphertext bytes of another database at offset %d", off), mk(w), k1, false)
	}
	res.Set("evaluations", evals)
	res.Set("file_bytes", len(imgA))
	res.Sample(map[string]any{"file_bytes": len(imgA), "bitflips": res.Counters["class_bitflip"], "truncations": res.Counters["class_truncate"],
		"splices": res.Counters["class_splice"], "opened_with_original_contents": res.Counters["opened_with_original_contents"]})
	res.Write(t)
}

// markerForms lists the trivially encoded forms of a marker that must never appear in a file.
func markerForms(m []byte) [][]byte {
	forms := [][]byte{m, []byte(hex.EncodeToString(m)), []byte(strings.ToUpper(hex.EncodeToString(m)))}
	for o := 0; o < 3; o++ {
		for _, enc := range []*base64.Encoding{base64.StdEncoding, base64.URLEncoding} {
			e := enc.EncodeToString(append(make([]byte, o), m...))
			if len(e) > 12 {
				forms = append(forms, []byte(e[4:len(e)-4]))
			}
		}
	}
	if j, err := json.Marshal(string(m)); err == nil && len(j) > 2 {
		forms = append(forms, j[1:len(j)-1])
	}
	return forms
}

func scanFor(data []byte, markers map[string][]byte) []string {
	var hits []string
	for name, m := range markers {
		for fi, f := range markerForms(m) {
			if len(f) >= 8 && bytes.Contains(data, f) {
				hits = append(hits, fmt.Sprintf("%s(form %d)", name, fi))
				break
			}
		}
	}
	return hits
}

// TestConfidential: random histories with high-entropy marker names and values; after
// every call every file under the state directory is scanned for every marker in raw,
// base64 (all alignments), hex and JSON-escaped form; modes must be owner-only; the
// audit sink may carry names but never values.  The history itself is recorded in the
// VaultTrace format (the specification fixes when the key-encryption key may be used).
func TestConfidential(t *testing.T) {
	dir := vh.Dir(t)
	res := vh.NewResult(t, "vault-confidential")
	r := vh.Rand(91)
	ntr := vh.EnvInt("VERIF_TRACES", 30)
	nev := vh.EnvInt("VERIF_EVENTS", 40)
	d := NewDict(0)
	d.NoSubst()
	mkMarker := func(n int) []byte {
		b := make([]byte, n)
		r.Read(b)
		return b
	}
	names := []string{}
	nameMarkers := map[string][]byte{}
	for i := 0; i < 4; i++ {
		n := "tenant-" + hex.EncodeToString(mkMarker(9)) + "/key"
		names = append(names, n)
		nameMarkers["name:"+n] = []byte(n)
	}
	valMarkers := map[string][]byte{}
	for _, tok := range valToks[1:] {
		d.vals[tok] = mkMarker(32)
		valMarkers["value:"+tok] = d.vals[tok]
	}
	w := vh.NewNDJSON(t, filepath.Join(dir, "trace.ndjson"))
	maxver, scans, total := 3, 0, 0
	for tr := 0; tr < ntr; tr++ {
		// every other history goes through the HTTP handlers (callers with generated grants: many requests are refused) --
		// what a request carries must not reach any file or the audit log, whether it is served or refused
		httpMode := tr%2 == 1
		via := map[bool]string{true: "http", false: "db"}[httpMode]
		sys, err := NewSys(dir, d, httpMode, nil)
		if err != nil {
			t.Fatal(err)
		}
		w.Put(resetEvent{Ev: "reset", Kek: OpenKek(sys.KEK.Uses()), Via: via})
		sys.AfterCall = func(c Call, sinkBytes []byte) {
			scans++
			filepath.Walk(sys.Dir, func(p string, fi os.FileInfo, err error) error {
				if err != nil || fi.IsDir() {
					return nil
				}
				if fi.Mode().Perm() != 0o600 {
					res.Violate("mode "+filepath.Base(p), fmt.Sprintf("file %s has mode %o, want 0600", filepath.Base(p), fi.Mode().Perm()), nil)
				}
				b, _ := os.ReadFile(p)
				all := map[string][]byte{}
				for k, v := range valMarkers {
					all[k] = v
				}
				for k, v := range nameMarkers {
					all[k] = v
				}
				if hits := scanFor(b, all); len(hits) > 0 {
					res.Violate("leak file "+strings.Join(hits, ","), fmt.Sprintf("after %s(%q) the file %s contains %v", c.Op, c.Name, filepath.Base(p), hits),
						map[string]any{"call": c, "file": filepath.Base(p)})
				}
				return nil
			})
			if hits := scanFor(sinkBytes, valMarkers); len(hits) > 0 {
				res.Violate("leak audit "+strings.Join(hits, ","), fmt.Sprintf("the audit record of %s(%q) contains a secret value: %v", c.Op, c.Name, hits), nil)
			}
		}
		saveFaultsToo = !httpMode
		total += genHistoryNames(sys, r, w, res, nev, true, via, &maxver, tr == 0, names)
		saveFaultsToo = false
		sys.Close()
	}
	w.Close()
	type nm struct {
		Name string `json:"name"`
		Cps  []int  `json:"cps"`
	}
	dn := []nm{}
	for _, n := range append(names, "") {
		dn = append(dn, nm{n, vh.Runes(n)})
	}
	dw := vh.NewNDJSON(t, filepath.Join(dir, "dict.ndjson"))
	dw.Put(map[string]any{"names": dn, "vals": valToks, "maxver": maxver + 2})
	dw.Close()
	res.Set("traces", ntr)
	res.Set("events", total)
	res.Set("scans", scans)
	res.Write(t)
}
