package vault

import (
	"bufio"
	"bytes"
	"encoding/json"
	"fmt"
	"os"
	"path/filepath"
	"runtime"
	"strings"
	"sync"
	"testing"

	"github.com/tailscale/setec/audit"
	"github.com/tailscale/setec/db"
	"verifharness/vh"
)

type beginEvent struct {
	Ev    string  `json:"ev"`
	Cl    string  `json:"cl"`
	Op    string  `json:"op"`
	Who   string  `json:"who"`
	Rules []RuleJ `json:"rules"`
	Name  string  `json:"name"`
	Val   string  `json:"val"`
	Ver   int     `json:"ver"`
}

type endEvent struct {
	Ev    string `json:"ev"`
	Cl    string `json:"cl"`
	Reply replyJ `json:"reply"`
}

type auditEvent struct {
	Ev         string `json:"ev"`
	Who        string `json:"who"`
	Action     string `json:"action"`
	Name       string `json:"name"`
	Ver        int    `json:"ver"`
	Authorized bool   `json:"authorized"`
}

type finalEvent struct {
	Ev         string     `json:"ev"`
	State      []SecState `json:"state"`
	AuditLines int        `json:"auditlines"`
	AuditUpTo  int        `json:"aupto"`
}

const fillerPrefix = "b-filler/" // sorts between the two shared names: a listing walks over the fillers between them

// evlog is the single totally ordered event log of one history.
type evlog struct {
	mu  sync.Mutex
	evs []any
}

func (l *evlog) add(e any) {
	l.mu.Lock()
	l.evs = append(l.evs, e)
	l.mu.Unlock()
}

func parseAuditLine(d *Dict, line []byte) (auditEvent, error) {
	var e audit.Entry
	if err := json.Unmarshal(line, &e); err != nil {
		return auditEvent{}, err
	}
	who := strings.TrimSuffix(e.Principal.User, "@example.com")
	mn := ""
	if e.Secret != "" {
		mn = d.ModelName(e.Secret)
	}
	return auditEvent{Ev: "audit", Who: who, Action: string(e.Action), Name: mn, Ver: int(e.SecretVersion), Authorized: e.Authorized}, nil
}

// TestConcurrentHistories: several client goroutines call the real server at the same
// time on shared names; begin/end of every call and every audit record are logged in
// one total order; TLC (VaultConcTrace) then searches for linearization points.
func TestConcurrentHistories(t *testing.T) {
	dir := vh.Dir(t)
	res := vh.NewResult(t, "vault-conc")
	r := vh.Rand(57)
	nh := vh.EnvInt("VERIF_TRACES", 50)
	httpMode := os.Getenv("VERIF_MODE") == "http"
	condMix := os.Getenv("VERIF_OPMIX") == "cond"
	aclMix := os.Getenv("VERIF_OPMIX") == "acl"
	sameMix := os.Getenv("VERIF_OPMIX") == "same" // many identical read requests by different callers at the same time
	listMix := os.Getenv("VERIF_OPMIX") == "list" // one client changes the two shared names in turn, the others list: a listing is one state
	realFile := os.Getenv("VERIF_AUDITFILE") != "" // audit.NewFile on a real file; records read back afterwards
	d := NewDict(0)
	d.sigma = map[rune]rune{}
	toks := []string{"E", "v1", "v2", "v3"}
	for i, tok := range toks[1:] {
		b := make([]byte, 48)
		r.Read(b)
		for j := range b { // a recognisable per-token pattern: a torn value is neither
			b[j] = byte('a' + i)
		}
		d.vals[tok] = b
	}
	shared := []string{"a", "prod/k"}
	allNames := append([]string{"", "_internal/x"}, shared...)
	for _, n := range allNames {
		d.Name(n)
	}
	w := vh.NewNDJSON(t, filepath.Join(dir, "trace.ndjson"))
	aw := vh.NewNDJSON(t, filepath.Join(dir, "audit.ndjson"))
	clients := []string{"c1", "c2", "c3", "c4"}
	maxver := 4
	sideCount := 0
	totalCalls := 0
	defer runtime.GOMAXPROCS(runtime.GOMAXPROCS(0))
	for h := 0; h < nh; h++ {
		runtime.GOMAXPROCS([]int{1, 2, 4, 8, 16}[r.Intn(5)])
		sys, err := NewSys(dir, d, httpMode, nil)
		if err != nil {
			t.Fatal(err)
		}
		sys.ParkWrites = httpMode
		log := &evlog{}
		var auditPath string
		if realFile {
			auditPath = filepath.Join(sys.Dir, "audit.log")
			aw2, err := audit.NewFile(auditPath)
			if err != nil {
				t.Fatal(err)
			}
			adb, err := db.Open(sys.Path, sys.KEK, aw2)
			if err != nil {
				t.Fatal(err)
			}
			sys.DB = adb
		}
		// filler secrets widen the windows of multi-name operations; they are outside the model
		su := sys.caller("setup", suRules)
		sys.Sink.Muted = true
		nfill := []int{0, 0, 20, 60}[r.Intn(4)]
		if listMix {
			nfill = []int{20, 60, 150}[r.Intn(3)]
		}
		for i := 0; i < nfill && !realFile; i++ {
			sys.DB.Put(su, fmt.Sprintf("%s%03d", fillerPrefix, i), []byte("filler"))
		}
		// sometimes start from a non-empty shared state (setup is part of the history, sequentially)
		sys.Sink.Muted = false
		if !realFile {
			sys.Sink.OnWrite = nil
		}
		nc := 2 + r.Intn(3)
		ncalls := 2 + r.Intn(4)
		if listMix {
			nc, ncalls = 2+r.Intn(2), 4+r.Intn(3)
		}
		type plan struct {
			cl    string
			calls []Call
		}
		restricted := []RuleJ{{Action: []string{"get", "info"}, Secret: [][]int{vh.Runes("a")}}}
		// C01: callers with partial or no grants racing fully authorized ones (an overlapping authorized request must
		// never lend its verdict to an unauthorized one)
		partial := [][]RuleJ{
			restricted,
			{},
			{{Action: []string{"put", "activate"}, Secret: [][]int{vh.Runes("prod/*")}}},
			{{Action: []string{"info"}, Secret: [][]int{vh.Runes("*")}}},
			{{Action: []string{"delete"}, Secret: [][]int{vh.Runes("a")}}, {Action: []string{"get"}, Secret: [][]int{vh.Runes("prod/k")}}},
		}
		var plans []plan
		for ci := 0; ci < nc; ci++ {
			p := plan{cl: clients[ci]}
			rules := suRules
			if ci == nc-1 && r.Intn(3) == 0 {
				rules = restricted
			}
			if aclMix && (ci > 0 || r.Intn(3) == 0) {
				rules = partial[r.Intn(len(partial))]
			}
			if sameMix && ci > 0 {
				rules = [][]RuleJ{suRules, restricted, restricted, partial[4]}[r.Intn(4)] // mostly callers who may read "a", each in its own right
			}
			for k := 0; k < ncalls; k++ {
				c := Call{Who: p.cl, Rules: rules, Name: shared[r.Intn(len(shared))], Val: "Nil", Fault: "none"}
				if r.Intn(4) > 0 {
					c.Name = shared[0]
				}
				x := r.Intn(100)
				if sameMix { // reads of one name with very few distinct arguments, now and then something that changes it
					x = []int{40, 40, 40, 40, 46, 46, 46, 52, 52, 60, 10, 80}[r.Intn(12)]
					c.Name = shared[0]
				}
				if listMix {
					if ci == 0 { // the writer: the two names in turn, each call complete before the next begins
						x = []int{10, 10, 10, 80, 88, 97}[r.Intn(6)]
						c.Name = shared[k%2]
					} else {
						x = []int{70, 70, 70, 60}[r.Intn(4)]
					}
				}
				if condMix { // C09: conditional gets racing activations, puts and deletions
					x = []int{50, 50, 50, 50, 80, 80, 80, 10, 10, 88, 97, 40}[r.Intn(12)]
				}
				switch {
				case x < 34:
					c.Op, c.Val = "put", toks[r.Intn(len(toks))]
				case x < 44:
					c.Op = "get"
				case x < 50:
					c.Op, c.Ver = "getver", 1+r.Intn(3)
					if sameMix {
						c.Ver = 1 + r.Intn(2)
					}
				case x < 58:
					c.Op, c.Ver = "getcond", 1+r.Intn(3)
				case x < 62:
					c.Op = "info"
				case x < 74:
					c.Op, c.Name = "list", ""
				case x < 86:
					c.Op, c.Ver = "activate", 1+r.Intn(3)
				case x < 94:
					c.Op, c.Ver = "delver", 1+r.Intn(3)
				default:
					c.Op = "delete"
				}
				p.calls = append(p.calls, c)
			}
			plans = append(plans, p)
		}
		if !realFile {
			// audit records enter the same total order as begin/end, from inside the sink
			sys.Sink.OnWrite = nil
		}
		w.Put(resetEvent{Ev: "reset", Kek: 1, Via: map[bool]string{true: "http", false: "db"}[httpMode]})
		var wg sync.WaitGroup
		start := make(chan struct{})
		var seqMu sync.Mutex
		seqOf := map[string]int64{}
		if !realFile {
			sys.Sink.mu.Lock()
			sys.Sink.SlowSync = true
			sys.Sink.tap = func(p []byte) {
				// called with the sink lock held: the position in the log is the position of the append
				ae, err := parseAuditLine(d, p)
				if err == nil {
					seqMu.Lock()
					seqOf[ae.Who] = sys.Sink.Seq()
					seqMu.Unlock()
				}
				if err != nil || !bytes.HasSuffix(p, []byte("\n")) || bytes.Count(p, []byte("\n")) != 1 {
					res.Violate("audit-garbled", fmt.Sprintf("audit sink received a write that is not one complete JSON line: %q", p), nil)
					return
				}
				log.add(ae)
			}
			sys.Sink.mu.Unlock()
		}
		for _, p := range plans {
			wg.Add(1)
			go func(p plan) {
				defer wg.Done()
				<-start
				for _, c := range p.calls {
					be := beginEvent{Ev: "begin", Cl: p.cl, Op: c.Op, Who: c.Who, Rules: c.Rules, Name: c.Name, Val: c.Val, Ver: c.Ver}
					log.add(be)
					out := sys.DoConc(c)
					if !realFile {
						// the record this call wrote (if any) must be covered by a sync that began after it was written
						seqMu.Lock()
						mine := seqOf[c.Who]
						seqMu.Unlock()
						if dur := sys.Sink.Durable(); mine > dur {
							res.Violate("audit-unsynced "+c.Op, fmt.Sprintf("%s by %s returned (class %s) while its audit record (#%d) was not yet covered by a completed sync "+
								"(synced up to #%d): a crash now loses the record of a request that was served", c.Op, c.Who, out.Class, mine, dur), nil)
						}
					}
					if out.Class == "panic" {
						res.Violate("panic "+c.Op, fmt.Sprintf("%s panicked: %v", c.Op, out.Notes), nil)
					}
					if out.IsList {
						var keep []InfoRec
						for _, in := range out.List {
							if !strings.HasPrefix(in.Name, "?"+fillerPrefix) && !strings.HasPrefix(in.Name, fillerPrefix) {
								keep = append(keep, in)
							}
						}
						out.List = keep
					}
					log.add(endEvent{Ev: "end", Cl: p.cl, Reply: outcomeReply(d, out)})
					log.mu.Lock()
					if out.Ver+2 > maxver {
						maxver = out.Ver + 2
					}
					log.mu.Unlock()
				}
			}(p)
			totalCalls += len(p.calls)
		}
		close(start)
		wg.Wait()
		// epilogue, after everything has returned: one client asks, one call at a time, for every shared name with every small
		// version as "the version I hold" -- whatever the races above did, these answers come from the state they left
		if condMix || r.Intn(3) == 0 {
			for _, n := range shared {
				for v := 1; v <= 3; v++ {
					c := Call{Op: "getcond", Who: clients[0], Rules: suRules, Name: n, Val: "Nil", Ver: v, Fault: "none"}
					log.add(beginEvent{Ev: "begin", Cl: clients[0], Op: c.Op, Who: c.Who, Rules: c.Rules, Name: c.Name, Val: c.Val, Ver: c.Ver})
					out := sys.DoConc(c)
					log.add(endEvent{Ev: "end", Cl: clients[0], Reply: outcomeReply(d, out)})
					totalCalls++
				}
			}
		}
		for _, e := range log.evs {
			w.Put(e)
		}
		nAudit := 0
		for _, e := range log.evs {
			if _, ok := e.(auditEvent); ok {
				nAudit++
			}
		}
		if realFile {
			// read the real audit file back: every line must be one complete record
			f, err := os.Open(auditPath)
			if err != nil {
				t.Fatal(err)
			}
			sc := bufio.NewScanner(f)
			sc.Buffer(make([]byte, 1<<20), 1<<24)
			for sc.Scan() {
				ae, err := parseAuditLine(d, sc.Bytes())
				if err != nil {
					res.Violate("auditfile-garbled", fmt.Sprintf("audit file line is not a complete JSON record: %q", sc.Bytes()), nil)
					continue
				}
				aw.Put(ae)
				sideCount++
				nAudit++
			}
			f.Close()
			// observation below must not append to the file under test
			adb, _ := db.Open(sys.Path, sys.KEK, audit.New(sys.Sink))
			sys.DB = adb
		}
		if !realFile {
			sys.Sink.mu.Lock()
			sys.Sink.tap = nil
			sys.Sink.mu.Unlock()
		}
		st, notes := sys.Observe(true)
		if len(notes) > 0 {
			res.Violate("final-observe", fmt.Sprint(notes), nil)
		}
		if !realFile {
			// everything has returned: what a restart would load (a copy of the file is opened) is what the server serves
			sys.ObserveCopy = true
			dst, dnotes := sys.Observe(true)
			sys.ObserveCopy = false
			if len(dnotes) > 0 {
				res.Violate("final-disk-observe", fmt.Sprint(dnotes), nil)
			} else if StateKey(dst, true) != StateKey(st, true) {
				res.Violate("final-disk", fmt.Sprintf("after all concurrent calls have returned the database file holds {%s} but the server serves {%s}: a restart now loses or resurrects acknowledged changes",
					StateKey(dst, true), StateKey(st, true)), map[string]any{"events": log.evs})
			}
		}
		var keep []SecState
		for _, s := range st {
			if !strings.HasPrefix(s.Name, "?"+fillerPrefix) && !strings.HasPrefix(s.Name, fillerPrefix) {
				keep = append(keep, s)
			}
		}
		w.Put(finalEvent{Ev: "final", State: stateForTrace(keep), AuditLines: nAudit, AuditUpTo: sideCount})
		if h < 2 {
			res.Sample(map[string]any{"clients": nc, "calls_each": ncalls, "events": len(log.evs), "filler": nfill, "first": log.evs[0]})
		}
		sys.Close()
	}
	w.Close()
	aw.Close()
	type nm struct {
		Name string `json:"name"`
		Cps  []int  `json:"cps"`
	}
	names := []nm{}
	for _, n := range allNames {
		names = append(names, nm{n, vh.Runes(n)})
	}
	dw := vh.NewNDJSON(t, filepath.Join(dir, "dict.ndjson"))
	dw.Put(map[string]any{"names": names, "vals": toks, "maxver": maxver + 2, "clients": clients})
	dw.Close()
	res.Set("histories", nh)
	res.Set("calls", totalCalls)
	res.Write(t)
}
