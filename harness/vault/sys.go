// Package vault binds spec/Vault.tla (and Http.tla, VaultConc.tla) to the real
// db.DB and the real HTTP handlers.
package vault

import (
	"time"
	"bytes"
	"math/rand"
	"context"
	"crypto/sha256"
	"encoding/json"
	"errors"
	"fmt"
	"io"
	"net/http"
	"net/http/httptest"
	"net/netip"
	"os"
	"os/signal"
	"path/filepath"
	"runtime"
	"sort"
	"sync"
	"sync/atomic"
	"syscall"

	"github.com/tailscale/setec/acl"
	"github.com/tailscale/setec/audit"
	"github.com/tailscale/setec/client/setec"
	"github.com/tailscale/setec/db"
	"github.com/tailscale/setec/server"
	"github.com/tailscale/setec/types/api"
	"github.com/tink-crypto/tink-go/v2/aead"
	"github.com/tink-crypto/tink-go/v2/insecurecleartextkeyset"
	"github.com/tink-crypto/tink-go/v2/keyset"
	"github.com/tink-crypto/tink-go/v2/tink"
	"tailscale.com/client/tailscale/apitype"
	"tailscale.com/tailcfg"
)

// ---- model-side records (as emitted by TLC) ----

type VerVal struct {
	V   int    `json:"v"`
	Val string `json:"val"`
}

type SecState struct {
	Name   string   `json:"name"`
	Active int      `json:"active"`
	Latest int      `json:"latest"` // -1: not observed
	Vers   []VerVal `json:"vers"`
}

type AuditRec struct {
	Who        string `json:"who"`
	Action     string `json:"action"`
	Name       string `json:"name"`
	Ver        int    `json:"ver"`
	Authorized bool   `json:"authorized"`
}

type InfoRec struct {
	Name     string `json:"name"`
	Active   int    `json:"active"`
	Versions []int  `json:"versions"`
}

type RuleJ struct {
	Action []string `json:"action"`
	Secret [][]int  `json:"secret"`
}

// ---- KEK wrapper: a real AEAD that counts its uses (C05) ----

type countingAEAD struct {
	inner tink.AEAD
	mu    sync.Mutex
	n     int
}

func (c *countingAEAD) Encrypt(pt, ad []byte) ([]byte, error) {
	c.mu.Lock()
	c.n++
	c.mu.Unlock()
	return c.inner.Encrypt(pt, ad)
}
func (c *countingAEAD) Decrypt(ct, ad []byte) ([]byte, error) {
	c.mu.Lock()
	c.n++
	c.mu.Unlock()
	return c.inner.Decrypt(ct, ad)
}
func (c *countingAEAD) Uses() int { c.mu.Lock(); defer c.mu.Unlock(); return c.n }

func NewKEK() *countingAEAD {
	h, err := keyset.NewHandle(aead.AES256GCMKeyTemplate())
	if err != nil {
		panic(err)
	}
	a, err := aead.New(h)
	if err != nil {
		panic(err)
	}
	return &countingAEAD{inner: a}
}

func newRand(seed int64) *rand.Rand { return rand.New(rand.NewSource(seed*7919 + 13)) }

// KEKFromFile loads a cleartext tink keyset (test keys only).
func KEKFromFile(path string) (*countingAEAD, error) {
	b, err := os.ReadFile(path)
	if err != nil {
		return nil, err
	}
	h, err := insecurecleartextkeyset.Read(keyset.NewJSONReader(bytes.NewReader(b)))
	if err != nil {
		return nil, err
	}
	a, err := aead.New(h)
	if err != nil {
		return nil, err
	}
	return &countingAEAD{inner: a}, nil
}


// OpenSys opens (or creates) the database in dir/db/state.db with the given key.
func OpenSys(dir string, kek *countingAEAD, d *Dict) (*Sys, error) {
	os.MkdirAll(filepath.Join(dir, "db"), 0o700)
	s := &Sys{Dir: dir, Path: filepath.Join(dir, "db", "state.db"), KEK: kek, D: d}
	if err := s.open(); err != nil {
		return nil, err
	}
	return s, nil
}

// ---- audit sink: an io.Writer with Sync that the harness owns (C06) ----

type sinkWrite struct {
	Data     []byte
	FileHash [32]byte // hash of the database file at the time of the write
	Synced   bool
}

type Sink struct {
	mu        sync.Mutex
	Muted     bool // observation calls: do not record
	FailWrite bool // next Write fails
	FailSync  bool // next Sync fails
	Writes    []sinkWrite
	Syncs     int
	dbPath    string
	OnWrite   func() // optional gate (scheduler hook), called without the lock
	tap       func(p []byte) // optional observer, called with the lock held (position = append order)

	// fsync semantics for concurrent callers: a Sync makes durable what had been written when it BEGAN.
	SlowSync bool  // syncs take a little while (real time), so that concurrent requests overlap them
	wseq     int64 // records written so far
	durable  int64 // records covered by a completed Sync
}

// Seq is the number of records written so far (call with the sink lock held, i.e. from tap).
func (s *Sink) Seq() int64 { return s.wseq }

// Durable is the number of records covered by a completed Sync.
func (s *Sink) Durable() int64 { s.mu.Lock(); defer s.mu.Unlock(); return s.durable }

func fileHash(path string) [32]byte {
	b, err := os.ReadFile(path)
	if err != nil {
		return [32]byte{}
	}
	return sha256.Sum256(b)
}

func (s *Sink) Write(p []byte) (int, error) {
	if s.OnWrite != nil {
		s.OnWrite()
	}
	s.mu.Lock()
	defer s.mu.Unlock()
	if s.Muted {
		return len(p), nil
	}
	if s.FailWrite {
		s.FailWrite = false
		return 0, errors.New("injected audit write failure")
	}
	s.wseq++
	if s.tap != nil {
		s.tap(append([]byte(nil), p...))
		return len(p), nil
	}
	s.Writes = append(s.Writes, sinkWrite{Data: append([]byte(nil), p...), FileHash: fileHash(s.dbPath)})
	return len(p), nil
}

func (s *Sink) Sync() error {
	s.mu.Lock()
	if s.Muted {
		s.mu.Unlock()
		return nil
	}
	if s.FailSync {
		s.FailSync = false
		s.mu.Unlock()
		return errors.New("injected audit sync failure")
	}
	covered, nw, slow := s.wseq, len(s.Writes), s.SlowSync
	s.mu.Unlock()
	if slow {
		time.Sleep(time.Duration(200+covered%5*150) * time.Microsecond)
	}
	s.mu.Lock()
	defer s.mu.Unlock()
	s.Syncs++
	if covered > s.durable {
		s.durable = covered
	}
	for i := 0; i < nw && i < len(s.Writes); i++ {
		s.Writes[i].Synced = true
	}
	return nil
}

func (s *Sink) Take() []sinkWrite {
	s.mu.Lock()
	defer s.mu.Unlock()
	w := s.Writes
	s.Writes = nil
	return w
}

// ---- dictionary: model tokens <-> real bytes ----

type Dict struct {
	mu    sync.Mutex
	sigma map[rune]rune // letter substitution applied to names and patterns (injective, never '*')
	vals  map[string][]byte
	rname map[string]string // real -> model name
}

func (d *Dict) Name(model string) string {
	out := []rune{}
	for _, r := range model {
		if s, ok := d.sigma[r]; ok {
			out = append(out, s)
		} else {
			out = append(out, r)
		}
	}
	real := string(out)
	d.mu.Lock()
	d.rname[real] = model
	d.mu.Unlock()
	return real
}

func (d *Dict) Pattern(cps []int) string {
	out := []rune{}
	for _, c := range cps {
		if s, ok := d.sigma[rune(c)]; ok {
			out = append(out, s)
		} else {
			out = append(out, rune(c))
		}
	}
	return string(out)
}

func (d *Dict) ModelName(real string) string {
	d.mu.Lock()
	defer d.mu.Unlock()
	if m, ok := d.rname[real]; ok {
		return m
	}
	return "?" + real
}

func (d *Dict) Val(tok string) []byte {
	if tok == "E" {
		return []byte{}
	}
	d.mu.Lock()
	defer d.mu.Unlock()
	if v, ok := d.vals[tok]; ok {
		return v
	}
	// deterministic fallback: the token itself
	v := []byte("value-" + tok)
	d.vals[tok] = v
	return v
}

func (d *Dict) Tok(b []byte) string {
	if len(b) == 0 {
		return "E"
	}
	d.mu.Lock()
	defer d.mu.Unlock()
	for k, v := range d.vals {
		if bytes.Equal(v, b) {
			return k
		}
	}
	return fmt.Sprintf("?%x", b)
}

// NewDict builds the seed-dependent dictionary. Seed 1 is the plain one.
func NewDict(seed int64) *Dict {
	d := &Dict{sigma: map[rune]rune{}, vals: map[string][]byte{}, rname: map[string]string{}}
	pool := []rune{'a', 'b', 'x', 'z', 'é', '世', '\n', '.', '+', '$', ' ', '\U0001F511', '/', '\\', '[', '^', 'q', '_', '-', '?'}
	letters := []rune{'A', 'B', 'X', 'Z'}
	if seed <= 1 {
		for i, l := range letters {
			d.sigma[l] = pool[i]
		}
	} else {
		r := newRand(seed)
		perm := r.Perm(len(pool))
		for i, l := range letters {
			d.sigma[l] = pool[perm[i]]
		}
		// adversarial value classes: binary with NUL, invalid UTF-8, newline-bearing, long
		mk := func(n int) []byte {
			b := make([]byte, n)
			r.Read(b)
			return b
		}
		d.vals["x"] = append([]byte{0, 0xff, 0xfe, '\n'}, mk(20)...)
		d.vals["y"] = append([]byte("multi\nline \"quoted\" \\ text\r\n"), mk(4)...)
		d.vals["z"] = mk(3000)
	}
	return d
}

// ---- the system under test ----

type Outcome struct {
	Class  string
	Ver    int
	Val    []byte
	HasVal bool
	Info   *InfoRec
	List   []InfoRec
	IsList bool
	Audit  []AuditRec
	Saved  bool
	Kek    int
	Notes  []string // protocol violations noticed while executing (audit ordering, file touched, ...)
	Status int      // http mode
	Body   []byte   // http mode: raw response body
}

type Sys struct {
	Dir   string
	Path  string
	KEK   *countingAEAD
	Sink  *Sink
	DB    *db.DB
	D     *Dict
	HTTP  bool
	Mux   *http.ServeMux
	Srv   *server.Server
	Rules map[string][]RuleJ // caller id -> rules (model form)

	curWho   string
	curRules acl.Rules
	flip     int

	// AfterCall, if set, is called by Do after every call with the audit bytes the call wrote.
	AfterCall func(c Call, sinkBytes []byte)

	// ParkWrites (concurrent histories through the handlers): every other request pauses at the moment its handler
	// starts to deliver the reply (first WriteHeader / Write) until some other request has completed or ~1.5 ms have
	// passed -- a slow client connection. It widens the window between computing a reply and delivering it, the way
	// SlowSync widens the audit window.
	ParkWrites bool
	reqSeq     atomic.Int64
	doneReqs   atomic.Int64

	AuditBroken bool // an injected audit write failure has latched the real encoder's error
	ObserveCopy bool // observe the persisted state on a copy of the file; the live instance sees only the history's calls

	whoMu  sync.Mutex
	byAddr map[string]callerInfo
	addrOf map[string]string
}

type callerInfo struct {
	who    string
	rules  acl.Rules
	useRaw bool // answer with raw/err as given (Http.tla whois classes)
	raw    *apitype.WhoIsResponse
	err    error
}

// addrFor registers (who, rules) under a stable remote address; WhoIs answers from it.
func (s *Sys) addrFor(who string, rules acl.Rules) string {
	s.whoMu.Lock()
	defer s.whoMu.Unlock()
	if s.byAddr == nil {
		s.byAddr = map[string]callerInfo{}
		s.addrOf = map[string]string{}
	}
	a, ok := s.addrOf[who]
	if !ok {
		a = fmt.Sprintf("100.64.0.7:%d", 2000+len(s.addrOf))
		s.addrOf[who] = a
	}
	s.byAddr[a] = callerInfo{who: who, rules: rules}
	return a
}

func init() { signal.Ignore(syscall.SIGXFSZ) }

var shmRoot = func() string {
	if fi, err := os.Stat("/dev/shm"); err == nil && fi.IsDir() {
		return "/dev/shm"
	}
	return ""
}()

// NewSys creates a fresh database in a fresh directory.
func NewSys(base string, d *Dict, httpMode bool, rules map[string][]RuleJ) (*Sys, error) {
	root := base
	if shmRoot != "" {
		root = shmRoot
	}
	dir, err := os.MkdirTemp(root, "verif-vault-")
	if err != nil {
		return nil, err
	}
	if err := os.Mkdir(filepath.Join(dir, "db"), 0o700); err != nil {
		return nil, err
	}
	s := &Sys{Dir: dir, Path: filepath.Join(dir, "db", "state.db"), KEK: NewKEK(), D: d, HTTP: httpMode, Rules: rules}
	if err := s.open(); err != nil {
		return nil, err
	}
	return s, nil
}

func (s *Sys) Close() { os.RemoveAll(s.Dir) }

func (s *Sys) open() error {
	s.Sink = &Sink{dbPath: s.Path}
	s.AuditBroken = false
	adb, err := db.Open(s.Path, s.KEK, audit.New(s.Sink))
	if err != nil {
		return err
	}
	s.DB = adb
	if s.HTTP {
		s.Mux = http.NewServeMux()
		srv, err := server.New(context.Background(), server.Config{DB: adb, WhoIs: s.whois, Mux: s.Mux})
		if err != nil {
			return err
		}
		s.Srv = srv
	}
	return nil
}

// OpenKek: how often the key-encryption key is consulted while a database is opened or created is the implementation's
// business (C05: "only when the database is opened or created"); the specification's `kek` says 1 = consulted.
func OpenKek(uses int) int {
	if uses >= 1 {
		return 1
	}
	return uses
}

// Reopen models a clean stop/restart: db.Open on the same file with the same key.
func (s *Sys) Reopen() (o Outcome, err error) {
	defer func() {
		if r := recover(); r != nil {
			// opening the file the server itself wrote must not crash the server (C03: reopening yields the acknowledged state)
			o = Outcome{Class: "panic", Notes: []string{fmt.Sprintf("db.Open panicked on the file the server wrote: %v", r)}}
			err = nil
		}
	}()
	before, _ := os.ReadFile(s.Path)
	k0 := s.KEK.Uses()
	if err := s.open(); err != nil {
		return Outcome{Class: "error", Notes: []string{"reopen failed: " + err.Error()}}, nil
	}
	after, _ := os.ReadFile(s.Path)
	o = Outcome{Class: "ok", Kek: OpenKek(s.KEK.Uses() - k0)}
	if !bytes.Equal(before, after) {
		o.Notes = append(o.Notes, "db.Open modified the database file")
	}
	if g := s.DB.WriteGen(); g != 1 {
		o.Notes = append(o.Notes, fmt.Sprintf("WriteGen after open = %d, want 1", g))
	}
	return o, nil
}

func (s *Sys) aclRules(rj []RuleJ) acl.Rules {
	out := acl.Rules{}
	for _, r := range rj {
		rule := acl.Rule{}
		for _, a := range r.Action {
			rule.Action = append(rule.Action, acl.Action(a))
		}
		for _, p := range r.Secret {
			rule.Secret = append(rule.Secret, acl.Secret(s.D.Pattern(p)))
		}
		out = append(out, rule)
	}
	return out
}

// SuRules is the all-access rule set.
func SuRules() []RuleJ { return suRules }

// NoSubst makes the dictionary the identity on names and patterns.
func (d *Dict) NoSubst() { d.sigma = map[rune]rune{} }

var suRules = []RuleJ{{Action: []string{"get", "info", "put", "activate", "delete"}, Secret: [][]int{{42}}}}

func principalFor(who string) audit.Principal {
	return audit.Principal{User: who + "@example.com", Hostname: "host-" + who + ".example.ts.net", IP: netip.MustParseAddr("100.64.0.7")}
}

func (s *Sys) caller(who string, rules []RuleJ) db.Caller {
	return db.Caller{Principal: principalFor(who), Permissions: s.aclRules(rules)}
}

func (s *Sys) whois(ctx context.Context, addr string) (*apitype.WhoIsResponse, error) {
	s.whoMu.Lock()
	ci, ok := s.byAddr[addr]
	s.whoMu.Unlock()
	if !ok {
		return nil, fmt.Errorf("whois: unknown address %s", addr)
	}
	if ci.useRaw {
		return ci.raw, ci.err
	}
	var raws []tailcfg.RawMessage
	for _, r := range ci.rules {
		b, _ := json.Marshal(r)
		raws = append(raws, tailcfg.RawMessage(b))
	}
	p := principalFor(ci.who)
	return &apitype.WhoIsResponse{
		Node:        &tailcfg.Node{Name: p.Hostname},
		UserProfile: &tailcfg.UserProfile{ID: 7, LoginName: p.User},
		CapMap:      tailcfg.PeerCapMap{server.ACLCap: raws},
	}, nil
}

func classify(err error) string {
	switch {
	case err == nil:
		return "ok"
	case errors.Is(err, db.ErrAccessDenied), errors.Is(err, api.ErrAccessDenied):
		return "denied"
	case errors.Is(err, db.ErrNotFound), errors.Is(err, api.ErrNotFound):
		return "notfound"
	case errors.Is(err, api.ErrValueNotChanged):
		return "notchanged"
	}
	return "error"
}

func infoRec(d *Dict, in *api.SecretInfo) *InfoRec {
	r := &InfoRec{Name: d.ModelName(in.Name), Active: int(in.ActiveVersion), Versions: []int{}}
	for _, v := range in.Versions {
		r.Versions = append(r.Versions, int(v))
	}
	sort.Ints(r.Versions)
	return r
}

// Call describes one API call in model terms.
type Call struct {
	Op    string
	Who   string
	Rules []RuleJ
	Name  string // model name
	Val   string // model token
	Ver   int
	Fault string
}

type httpRecorder struct {
	status int
	body   []byte
}

// Do executes one call on the real system and reports everything observable about it.
func (s *Sys) Do(c Call) (out Outcome) {
	defer func() {
		if r := recover(); r != nil {
			out.Class = "panic"
			out.Notes = append(out.Notes, fmt.Sprintf("panic: %v", r))
		}
	}()
	name := s.D.Name(c.Name)
	val := s.D.Val(c.Val)
	s.Sink.Take()
	preHash := fileHash(s.Path)
	preGen := s.DB.WriteGen()
	k0 := s.KEK.Uses()

	// fault injection
	var undo func()
	switch c.Fault {
	case "auditWrite":
		s.Sink.FailWrite = true
	case "auditSync":
		s.Sink.FailSync = true
	case "save":
		s.flip++
		if s.flip%2 == 0 {
			// the directory vanishes: create-temp fails
			os.Rename(filepath.Join(s.Dir, "db"), filepath.Join(s.Dir, "db.away"))
			undo = func() { os.Rename(filepath.Join(s.Dir, "db.away"), filepath.Join(s.Dir, "db")) }
		} else {
			// file size limit: the write of the temporary file fails part-way (EFBIG)
			var old syscall.Rlimit
			syscall.Getrlimit(syscall.RLIMIT_FSIZE, &old)
			syscall.Setrlimit(syscall.RLIMIT_FSIZE, &syscall.Rlimit{Cur: 24, Max: old.Max})
			undo = func() { syscall.Setrlimit(syscall.RLIMIT_FSIZE, &old) }
		}
	}

	var err error
	if s.HTTP {
		err = s.doHTTP(c, name, val, &out)
	} else {
		err = s.doDB(c, name, val, &out)
	}
	if undo != nil {
		undo()
	}
	if c.Fault == "auditWrite" && !s.Sink.FailWrite {
		s.AuditBroken = true // the failure was consumed: json.Encoder keeps returning it
	}
	s.Sink.FailWrite, s.Sink.FailSync = false, false
	out.Class = classify(err)
	out.Kek = s.KEK.Uses() - k0
	postGen := s.DB.WriteGen()
	postHash := fileHash(s.Path)
	switch postGen - preGen {
	case 0:
		if postHash != preHash {
			out.Notes = append(out.Notes, "database file changed although the write generation did not advance")
		}
	case 1:
		out.Saved = true
		if postHash == preHash {
			out.Notes = append(out.Notes, "write generation advanced but the database file is unchanged")
		}
	default:
		out.Notes = append(out.Notes, fmt.Sprintf("write generation advanced by %d in one call", postGen-preGen))
	}
	// audit records produced by this call
	taken := s.Sink.Take()
	if s.AfterCall != nil {
		var sb []byte
		for _, w := range taken {
			sb = append(sb, w.Data...)
		}
		s.AfterCall(c, sb)
	}
	for _, w := range taken {
		if !bytes.HasSuffix(w.Data, []byte("\n")) || bytes.Count(w.Data, []byte("\n")) != 1 {
			out.Notes = append(out.Notes, fmt.Sprintf("audit write is not exactly one line: %q", w.Data))
		}
		var e audit.Entry
		if jerr := json.Unmarshal(w.Data, &e); jerr != nil {
			out.Notes = append(out.Notes, fmt.Sprintf("audit line is not a complete JSON object: %q", w.Data))
			continue
		}
		if w.FileHash != preHash && w.FileHash != ([32]byte{}) {
			out.Notes = append(out.Notes, "database file had already changed when the audit record was written")
		}
		if !w.Synced && c.Fault != "auditSync" {
			out.Notes = append(out.Notes, "audit record was not synced before the call returned")
		}
		who := e.Principal.User
		if len(who) > len("@example.com") {
			who = who[:len(who)-len("@example.com")]
		}
		if e.Principal.Hostname != principalFor(who).Hostname || e.Principal.IP != principalFor(who).IP {
			// IP in http mode is the request's remote address; see doHTTP
			if !s.HTTP {
				out.Notes = append(out.Notes, fmt.Sprintf("audit principal mangled: %+v", e.Principal))
			}
		}
		mn := ""
		if e.Secret != "" {
			mn = s.D.ModelName(e.Secret)
		}
		out.Audit = append(out.Audit, AuditRec{Who: who, Action: string(e.Action), Name: mn, Ver: int(e.SecretVersion), Authorized: e.Authorized})
	}
	return out
}

// takeValue copies a value the database handed out and then overwrites the slice it came in: what a caller does to the
// bytes it received is its own business and must not change what the database holds or serves (C02: the bytes bound
// to a (name, version) never change until deleted).
func takeValue(v []byte) []byte {
	cp := append([]byte(nil), v...)
	scribble(v)
	return cp
}

func scribble(b []byte) {
	for i := range b {
		b[i] = 0xA5
	}
}

func (s *Sys) doDB(c Call, name string, val []byte, out *Outcome) error {
	caller := s.caller(c.Who, c.Rules)
	switch c.Op {
	case "info":
		in, err := s.DB.Info(caller, name)
		if in != nil {
			out.Info = infoRec(s.D, in)
		}
		return err
	case "get":
		sv, err := s.DB.Get(caller, name)
		if sv != nil {
			out.HasVal, out.Val, out.Ver = true, takeValue(sv.Value), int(sv.Version)
		}
		return err
	case "getver":
		sv, err := s.DB.GetVersion(caller, name, api.SecretVersion(c.Ver))
		if sv != nil {
			out.HasVal, out.Val, out.Ver = true, takeValue(sv.Value), int(sv.Version)
		}
		return err
	case "getcond":
		sv, err := s.DB.GetConditional(caller, name, api.SecretVersion(c.Ver))
		if sv != nil {
			out.HasVal, out.Val, out.Ver = true, takeValue(sv.Value), int(sv.Version)
		}
		return err
	case "put":
		// the caller's buffer is its own: it is reused (overwritten) as soon as Put has returned
		buf := append([]byte(nil), val...)
		v, err := s.DB.Put(caller, name, buf)
		scribble(buf)
		out.Ver = int(v)
		return err
	case "activate":
		return s.DB.Activate(caller, name, api.SecretVersion(c.Ver))
	case "delver":
		return s.DB.DeleteVersion(caller, name, api.SecretVersion(c.Ver))
	case "delete":
		return s.DB.Delete(caller, name)
	case "list":
		l, err := s.DB.List(caller)
		if err == nil {
			out.IsList = true
			out.List = []InfoRec{}
			for _, in := range l {
				out.List = append(out.List, *infoRec(s.D, in))
			}
		}
		return err
	}
	return fmt.Errorf("harness: unknown op %q", c.Op)
}

type parkWriter struct {
	http.ResponseWriter
	s      *Sys
	park   bool
	parked bool
}

func (p *parkWriter) pause() {
	if !p.park || p.parked {
		return
	}
	p.parked = true
	n0, t0 := p.s.doneReqs.Load(), time.Now()
	for p.s.doneReqs.Load() == n0 && time.Since(t0) < 1500*time.Microsecond {
		runtime.Gosched()
	}
}
func (p *parkWriter) WriteHeader(code int) { p.pause(); p.ResponseWriter.WriteHeader(code) }
func (p *parkWriter) Write(b []byte) (int, error) {
	p.pause()
	return p.ResponseWriter.Write(b)
}

// doHTTP drives the same call through the registered handlers with the real client.
func (s *Sys) doHTTP(c Call, name string, val []byte, out *Outcome) error {
	addr := s.addrFor(c.Who, s.aclRules(c.Rules))
	cl := setec.Client{Server: "http://setec.test", DoHTTP: func(r *http.Request) (*http.Response, error) {
		r.RemoteAddr = addr
		rec := httptest.NewRecorder()
		if s.ParkWrites {
			s.Mux.ServeHTTP(&parkWriter{ResponseWriter: rec, s: s, park: s.reqSeq.Add(1)%2 == 0}, r)
			s.doneReqs.Add(1)
		} else {
			s.Mux.ServeHTTP(rec, r)
		}
		res := rec.Result()
		b, _ := io.ReadAll(res.Body)
		out.Status, out.Body = res.StatusCode, b
		res.Body = io.NopCloser(bytes.NewReader(b))
		return res, nil
	}}
	ctx := context.Background()
	switch c.Op {
	case "info":
		in, err := cl.Info(ctx, name)
		if in != nil && err == nil {
			out.Info = infoRec(s.D, in)
		}
		return err
	case "get":
		sv, err := cl.Get(ctx, name)
		if sv != nil && err == nil {
			out.HasVal, out.Val, out.Ver = true, sv.Value, int(sv.Version)
		}
		return err
	case "getver":
		sv, err := cl.GetVersion(ctx, name, api.SecretVersion(c.Ver))
		if sv != nil && err == nil {
			out.HasVal, out.Val, out.Ver = true, sv.Value, int(sv.Version)
		}
		return err
	case "getcond":
		sv, err := cl.GetIfChanged(ctx, name, api.SecretVersion(c.Ver))
		if sv != nil && err == nil {
			out.HasVal, out.Val, out.Ver = true, sv.Value, int(sv.Version)
		}
		return err
	case "put":
		v, err := cl.Put(ctx, name, val)
		out.Ver = int(v)
		return err
	case "activate":
		return cl.Activate(ctx, name, api.SecretVersion(c.Ver))
	case "delver":
		return cl.DeleteVersion(ctx, name, api.SecretVersion(c.Ver))
	case "delete":
		return cl.Delete(ctx, name)
	case "list":
		l, err := cl.List(ctx)
		if err == nil {
			out.IsList = true
			out.List = []InfoRec{}
			for _, in := range l {
				out.List = append(out.List, *infoRec(s.D, in))
			}
		}
		return err
	}
	return fmt.Errorf("harness: unknown op %q", c.Op)
}

// DoConc executes one call without the per-call bookkeeping of Do (which assumes a
// quiescent system); safe for concurrent use.
func (s *Sys) DoConc(c Call) (out Outcome) {
	defer func() {
		if r := recover(); r != nil {
			out.Class = "panic"
			out.Notes = append(out.Notes, fmt.Sprintf("panic: %v", r))
		}
	}()
	name := s.D.Name(c.Name)
	val := s.D.Val(c.Val)
	var err error
	if s.HTTP {
		err = s.doHTTP(c, name, val, &out)
	} else {
		err = s.doDB(c, name, val, &out)
	}
	out.Class = classify(err)
	return out
}

// Observe projects the real state through the superuser API (muted sink):
// names, version sets, active version, bytes of every version.
func (s *Sys) Observe(probeLatest bool) ([]SecState, []string) {
	s.Sink.mu.Lock()
	s.Sink.Muted = true
	s.Sink.mu.Unlock()
	defer func() {
		s.Sink.mu.Lock()
		s.Sink.Muted = false
		s.Sink.mu.Unlock()
	}()
	var notes []string
	su := s.caller("observer", suRules)
	odb := s.DB
	if s.AuditBroken || s.ObserveCopy {
		// The live database can no longer answer anything (fail closed) -- or this run leaves the live database
		// alone between the calls of the history (ObserveCopy: an observer that calls List/Info on the live
		// instance after every step would refresh whatever the instance caches and hide staleness from the
		// history's own calls). What it would serve after a restart is observed on a copy of the file instead.
		b, err := os.ReadFile(s.Path)
		if err != nil {
			return nil, []string{"observer cannot read the database file: " + err.Error()}
		}
		pp := filepath.Join(s.Dir, "observe.db")
		os.WriteFile(pp, b, 0o600)
		defer os.Remove(pp)
		func() {
			defer func() {
				if r := recover(); r != nil {
					err = fmt.Errorf("db.Open panicked: %v", r)
				}
			}()
			odb, err = db.Open(pp, s.KEK.inner, audit.New(io.Discard))
		}()
		if err != nil {
			return nil, []string{"observer cannot open a copy of the database file: " + err.Error()}
		}
	}
	infos, err := odb.List(su)
	if err != nil {
		return nil, []string{"observer list failed: " + err.Error()}
	}
	out := []SecState{}
	for _, in := range infos {
		st := SecState{Name: s.D.ModelName(in.Name), Active: int(in.ActiveVersion), Latest: -1, Vers: []VerVal{}}
		for _, v := range in.Versions {
			sv, err := odb.GetVersion(su, in.Name, v)
			if err != nil {
				notes = append(notes, fmt.Sprintf("listed version %d of %q cannot be fetched: %v", v, in.Name, err))
				continue
			}
			if sv.Version != v {
				notes = append(notes, fmt.Sprintf("get-version %d of %q returned version %d", v, in.Name, sv.Version))
			}
			st.Vers = append(st.Vers, VerVal{V: int(v), Val: s.D.Tok(sv.Value)})
		}
		sv, err := odb.Get(su, in.Name)
		if err != nil {
			notes = append(notes, fmt.Sprintf("get of listed %q failed: %v", in.Name, err))
		} else {
			if sv.Version != in.ActiveVersion {
				notes = append(notes, fmt.Sprintf("get of %q returned version %d, info says active %d", in.Name, sv.Version, in.ActiveVersion))
			}
			for _, vv := range st.Vers {
				if vv.V == int(sv.Version) && vv.Val != s.D.Tok(sv.Value) {
					notes = append(notes, fmt.Sprintf("get of %q returned bytes differing from get-version %d", in.Name, sv.Version))
				}
			}
		}
		in2, err := odb.Info(su, in.Name)
		if err != nil || in2.ActiveVersion != in.ActiveVersion || fmt.Sprint(in2.Versions) != fmt.Sprint(in.Versions) {
			notes = append(notes, fmt.Sprintf("info of %q disagrees with list", in.Name))
		}
		sort.Slice(st.Vers, func(i, j int) bool { return st.Vers[i].V < st.Vers[j].V })
		out = append(out, st)
	}
	sort.Slice(out, func(i, j int) bool { return out[i].Name < out[j].Name })
	if probeLatest && len(out) > 0 {
		lat, err := s.probeLatest(out)
		if err != nil {
			notes = append(notes, "probe of next-version counters failed: "+err.Error())
		} else {
			for i := range out {
				out[i].Latest = lat[out[i].Name]
			}
		}
	}
	return out, notes
}

// probeLatest reads the hidden next-version counters from a *copy* of the file:
// open the copy with the same key and put a unique value under every name.
func (s *Sys) probeLatest(st []SecState) (map[string]int, error) {
	b, err := os.ReadFile(s.Path)
	if err != nil {
		return nil, err
	}
	pp := filepath.Join(s.Dir, "probe.db")
	if err := os.WriteFile(pp, b, 0o600); err != nil {
		return nil, err
	}
	defer os.Remove(pp)
	var pdb *db.DB
	func() {
		defer func() {
			if r := recover(); r != nil {
				err = fmt.Errorf("db.Open panicked: %v", r)
			}
		}()
		pdb, err = db.Open(pp, s.KEK.inner, audit.New(io.Discard))
	}()
	if err != nil {
		return nil, err
	}
	su := s.caller("observer", suRules)
	out := map[string]int{}
	for _, x := range st {
		v, err := pdb.Put(su, s.D.Name(x.Name), []byte("\x00probe-unique-\x01\x02"))
		if err != nil {
			return nil, err
		}
		out[x.Name] = int(v) - 1
	}
	return out, nil
}

func StateKey(st []SecState, withLatest bool) string {
	c := make([]SecState, len(st))
	copy(c, st)
	sort.Slice(c, func(i, j int) bool { return c[i].Name < c[j].Name })
	var b bytes.Buffer
	for _, s := range c {
		vv := append([]VerVal(nil), s.Vers...)
		sort.Slice(vv, func(i, j int) bool { return vv[i].V < vv[j].V })
		lat := s.Latest
		if !withLatest {
			lat = -1
		}
		fmt.Fprintf(&b, "%s|a%d|l%d|", s.Name, s.Active, lat)
		for _, v := range vv {
			fmt.Fprintf(&b, "%d=%s,", v.V, v.Val)
		}
		b.WriteByte(';')
	}
	return b.String()
}
