package vault

import (
	"bytes"
	"encoding/json"
	"fmt"
	"os"
	"sort"
	"strings"
)

type MState struct {
	Proj  []SecState `json:"proj"`
	Audit bool       `json:"audit"`
}

type Reply struct {
	Class string          `json:"class"`
	Ver   int             `json:"ver"`
	Val   string          `json:"val"`
	Info  json.RawMessage `json:"info"`
	List  json.RawMessage `json:"list"`
}

type Op struct {
	Op    string     `json:"op"`
	Who   string     `json:"who"`
	Name  string     `json:"name"`
	Val   string     `json:"val"`
	Ver   int        `json:"ver"`
	Fault string     `json:"fault"`
	Reply Reply      `json:"reply"`
	Audit []AuditRec `json:"audit"`
	Saved bool       `json:"saved"`
	Kek   int        `json:"kek"`
}

type Edge struct {
	F    int   `json:"f"`
	T    int   `json:"t"`
	Op   Op    `json:"op"`
	Req  *HReq `json:"req,omitempty"`  // Http.tla edges
	HTTP *HRes `json:"http,omitempty"` // Http.tla edges
}

type Graph struct {
	States  []MState           `json:"states"`
	Init    int                `json:"init"`
	Edges   []Edge             `json:"edges"`
	Callers map[string][]RuleJ `json:"callers"`

	out   [][]int        // state -> edge indices
	succ  [][]int        // state -> one representative edge per distinct successor state (excluding self)
	byKey map[string]int // StateKey(with latest)+audit -> state id
}

func LoadGraph(path string) (*Graph, error) {
	b, err := os.ReadFile(path)
	if err != nil {
		return nil, err
	}
	g := &Graph{}
	if err := json.Unmarshal(b, g); err != nil {
		return nil, err
	}
	g.out = make([][]int, len(g.States))
	g.succ = make([][]int, len(g.States))
	g.byKey = map[string]int{}
	for i, s := range g.States {
		g.byKey[mkey(s)] = i
	}
	seen := map[[2]int]bool{}
	for i, e := range g.Edges {
		g.out[e.F] = append(g.out[e.F], i)
		if e.F != e.T && !seen[[2]int{e.F, e.T}] && e.Op.Fault == "none" {
			seen[[2]int{e.F, e.T}] = true
			g.succ[e.F] = append(g.succ[e.F], i)
		}
	}
	// successors reachable only through a fault edge (e.g. the audit writer's latched error)
	for i, e := range g.Edges {
		if e.F != e.T && !seen[[2]int{e.F, e.T}] {
			seen[[2]int{e.F, e.T}] = true
			g.succ[e.F] = append(g.succ[e.F], i)
		}
	}
	return g, nil
}

func mkey(s MState) string { return fmt.Sprintf("%s#%v", StateKey(s.Proj, true), s.Audit) }

func isNil(raw json.RawMessage) bool {
	return len(raw) == 0 || bytes.Equal(bytes.TrimSpace(raw), []byte(`"Nil"`)) || bytes.Equal(bytes.TrimSpace(raw), []byte("null"))
}

func classOK(model, real string) bool {
	if model == "fail" {
		return real == "notfound" || real == "error"
	}
	return model == real
}

func infoEq(a InfoRec, b InfoRec) bool {
	if a.Name != b.Name || a.Active != b.Active || len(a.Versions) != len(b.Versions) {
		return false
	}
	av := append([]int(nil), a.Versions...)
	bv := append([]int(nil), b.Versions...)
	sort.Ints(av)
	sort.Ints(bv)
	for i := range av {
		if av[i] != bv[i] {
			return false
		}
	}
	return true
}

// Compare checks the real outcome of a call against the model's edge label.
func Compare(d *Dict, op Op, out Outcome, httpMode bool) []string {
	var bad []string
	add := func(f string, a ...any) { bad = append(bad, fmt.Sprintf(f, a...)) }
	if out.Class == "panic" {
		add("call panicked: %v", out.Notes)
		return bad
	}
	if !classOK(op.Reply.Class, out.Class) {
		add("reply class %q, specification says %q", out.Class, op.Reply.Class)
	}
	// payload
	if op.Reply.Val != "Nil" {
		if !out.HasVal {
			add("no value returned, specification says value %q version %d", op.Reply.Val, op.Reply.Ver)
		} else {
			if !bytes.Equal(out.Val, d.Val(op.Reply.Val)) {
				add("returned bytes are %q (%d bytes), specification says token %q", d.Tok(out.Val), len(out.Val), op.Reply.Val)
			}
			if out.Ver != op.Reply.Ver {
				add("returned version %d, specification says %d", out.Ver, op.Reply.Ver)
			}
		}
	} else if out.HasVal {
		add("a secret value (%d bytes, token %q) was returned, specification says none", len(out.Val), d.Tok(out.Val))
	}
	if op.Op == "put" && op.Reply.Class == "ok" && out.Class == "ok" && out.Ver != op.Reply.Ver {
		add("put returned version %d, specification says %d", out.Ver, op.Reply.Ver)
	}
	if !isNil(op.Reply.Info) {
		var want InfoRec
		json.Unmarshal(op.Reply.Info, &want)
		if out.Info == nil {
			add("no info returned, specification says %+v", want)
		} else if !infoEq(want, *out.Info) {
			add("info %+v, specification says %+v", *out.Info, want)
		}
	} else if out.Info != nil {
		add("info %+v returned, specification says none", *out.Info)
	}
	if !isNil(op.Reply.List) {
		var want []InfoRec
		json.Unmarshal(op.Reply.List, &want)
		if !out.IsList {
			add("no list returned, specification says %d entries", len(want))
		} else {
			if len(want) != len(out.List) {
				add("list has %d entries %v, specification says %d %v", len(out.List), out.List, len(want), want)
			} else {
				for _, w := range want {
					found := false
					for _, g := range out.List {
						if infoEq(w, g) {
							found = true
						}
					}
					if !found {
						add("list lacks %+v (got %v)", w, out.List)
					}
				}
			}
		}
	} else if out.IsList && op.Reply.Class != "ok" {
		add("a list was returned, specification says none")
	}
	// audit records
	if len(out.Audit) != len(op.Audit) {
		add("call wrote %d audit record(s) %+v, specification says %d %+v", len(out.Audit), out.Audit, len(op.Audit), op.Audit)
	} else {
		for i := range op.Audit {
			want, got := op.Audit[i], out.Audit[i]
			if want.Action == "get" && want.Ver == 0 && want.Authorized {
				got.Ver = 0 // no version was given by the caller: recording 0 or the version disclosed are both fine
			}
			if got != want {
				add("audit record %+v, specification says %+v", out.Audit[i], op.Audit[i])
			}
		}
	}
	if out.Saved != op.Saved {
		add("saved=%v (write generation / file), specification says saved=%v", out.Saved, op.Saved)
	}
	if out.Kek != op.Kek {
		add("key-encryption key used %d time(s) during the call, specification says %d", out.Kek, op.Kek)
	}
	for _, n := range out.Notes {
		add("%s", n)
	}
	if httpMode && out.Status != 0 {
		if out.Status != 200 {
			// no non-200 reply contains secret bytes
			for tok, v := range d.vals {
				if len(v) >= 4 && bytes.Contains(out.Body, v) {
					add("HTTP %d body contains the bytes of value %q", out.Status, tok)
				}
			}
		}
		if out.Status == 304 && len(out.Body) != 0 {
			add("HTTP 304 with a non-empty body %q", out.Body)
		}
		want := map[string]int{"ok": 200, "notchanged": 304, "denied": 403, "notfound": 404}
		if w, ok := want[op.Reply.Class]; ok && out.Status != w {
			add("HTTP status %d, specification says %d", out.Status, w)
		}
		if op.Reply.Class == "error" && (out.Status < 400 || out.Status == 403 || out.Status == 404) {
			add("HTTP status %d for a failure the specification classes as 'other error'", out.Status)
		}
	}
	return bad
}

func CompareState(want MState, got []SecState, probed bool) []string {
	var bad []string
	w := want.Proj
	if StateKey(w, false) != StateKey(got, false) {
		bad = append(bad, fmt.Sprintf("state after the call is %s, specification says %s", StateKey(got, false), StateKey(w, false)))
		return bad
	}
	if probed {
		if StateKey(w, true) != StateKey(got, true) {
			bad = append(bad, fmt.Sprintf("next-version counters are %s, specification says %s", StateKey(got, true), StateKey(w, true)))
		}
	}
	return bad
}

func opString(o Op) string {
	s := fmt.Sprintf("%s(%s", o.Op, o.Who)
	if o.Op != "list" && o.Op != "reopen" {
		s += "," + fmt.Sprintf("%q", o.Name)
	}
	switch o.Op {
	case "put":
		s += "," + o.Val
	case "getver", "getcond", "activate", "delver":
		s += fmt.Sprintf(",%d", o.Ver)
	}
	s += ")"
	if o.Fault != "none" && o.Fault != "" {
		s += "!" + o.Fault
	}
	return s
}

func opKindKey(o Op) string {
	return strings.Join([]string{o.Op, o.Who, o.Name, o.Val, fmt.Sprint(o.Ver), o.Fault, o.Reply.Class}, "/")
}
