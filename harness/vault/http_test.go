package vault

import (
	"bytes"
	"context"
	"encoding/base64"
	"encoding/json"
	"errors"
	"fmt"
	"io"
	"math/rand"
	"net/http"
	"net/http/httptest"
	"strings"

	"github.com/tailscale/setec/server"
	"github.com/tailscale/setec/types/api"
	"tailscale.com/client/tailscale/apitype"
	"tailscale.com/tailcfg"
)

// HReq is a request of Http.tla: a record of classes.
type HReq struct {
	Method string `json:"method"`
	Ctype  string `json:"ctype"`
	Hdr    string `json:"hdr"`
	Path   string `json:"path"`
	Whois  struct {
		Kind  string `json:"kind"`
		Plain string `json:"plain"`
		Https string `json:"https"`
	} `json:"whois"`
	Body struct {
		Class string `json:"class"`
		Args  struct {
			Name string `json:"name"`
			Ver  int    `json:"ver"`
			Uic  bool   `json:"uic"`
			Val  string `json:"val"`
		} `json:"args"`
	} `json:"body"`
}

type HRes struct {
	Gate    string `json:"gate"`
	Status  string `json:"status"`
	Payload bool   `json:"payload"`
}

var plainRulesJSON = `{"action":["get","info"],"secret":["@A"]}`
var httpsRulesJSON = `{"action":["get","info","put","activate","delete"],"secret":["*"]}`
var badGrants = []string{`{"action":5}`, `"not-an-object"`, `[1,2]`, `{"secret":"a"}`}

func pick(r *rand.Rand, xs ...string) string { return xs[r.Intn(len(xs))] }

// concreteRequest instantiates one representative of the request's classes.
func (s *Sys) concreteRequest(q HReq, r *rand.Rand) (*http.Request, string) {
	// body
	name := s.D.Name(q.Body.Args.Name)
	var obj map[string]any
	switch q.Path {
	case "list":
		obj = map[string]any{}
	case "get":
		obj = map[string]any{"Name": name, "Version": q.Body.Args.Ver, "UpdateIfChanged": q.Body.Args.Uic}
	case "info", "delete":
		obj = map[string]any{"Name": name}
	case "put":
		obj = map[string]any{"Name": name, "Value": s.D.Val(q.Body.Args.Val)}
	case "activate", "delete-version":
		obj = map[string]any{"Name": name, "Version": q.Body.Args.Ver}
	default:
		obj = map[string]any{}
	}
	valid, _ := json.Marshal(obj)
	var body string
	switch q.Body.Class {
	case "valid":
		body = string(valid)
	case "extra":
		obj["Bogus"] = map[string]any{"x": []int{1, 2}}
		b, _ := json.Marshal(obj)
		body = string(b)
	case "null":
		body = "null"
	case "empty":
		body = pick(r, "", "  \n", "\t")
	case "truncated":
		v := string(valid)
		if len(v) <= 2 {
			v = `{"Name":"x"}`
		}
		body = v[:1+r.Intn(len(v)-1)]
	case "wrongtype":
		switch q.Path {
		case "list":
			body = pick(r, "7", `"str"`, "true")
		case "get", "activate", "delete-version":
			// ... and version numbers that do not fit the API's 32-bit version type (they must not wrap onto existing versions)
			an := strconvQuote(s.D.Name("A"))
			body = pick(r, `{"Name":5}`, `{"Name":"a","Version":"1"}`, `{"Name":"a","Version":-1}`, `{"Name":["a"]}`,
				`{"Name":`+an+`,"Version":4294967297}`, `{"Name":`+an+`,"Version":4294967298,"UpdateIfChanged":true}`, `{"Name":`+an+`,"Version":18446744073709551617}`,
				`{"Name":`+an+`,"Version":1.5}`)
		case "put":
			body = pick(r, `{"Name":5,"Value":"eA=="}`, `{"Name":"a","Value":"not base64!"}`, `{"Name":"a","Value":7}`)
		default:
			body = pick(r, `{"Name":5}`, `{"Name":{"x":1}}`, `{"Name":true}`)
		}
	case "nonobject":
		body = pick(r, "[1,2]", `"str"`, "7", `[{"Name":"a"}]`)
	}
	path := "/api/" + q.Path
	if q.Path == "dash" {
		path = pick(r, "/", "/index.html", "/anything/else")
	}
	req := httptest.NewRequest(q.Method, "http://setec.test"+path, strings.NewReader(body))
	switch q.Ctype {
	case "json":
		req.Header.Set("Content-Type", "application/json")
	case "jsoncs":
		req.Header.Set("Content-Type", pick(r, "application/json; charset=utf-8", "application/json;charset=UTF-8"))
	case "text":
		req.Header.Set("Content-Type", pick(r, "text/plain", "application/x-www-form-urlencoded", "Application/JSON", "application/jsonx", "json"))
	}
	switch q.Hdr {
	case "setec":
		req.Header.Set("Sec-X-Tailscale-No-Browsers", "setec")
	case "other":
		req.Header.Set("Sec-X-Tailscale-No-Browsers", pick(r, "Setec", "setec ", "1", "true", ""))
	}
	return req, body
}

// whoisFor builds the tailnet's answer for the whois class.
func (s *Sys) whoisFor(q HReq, r *rand.Rand) (*apitype.WhoIsResponse, error) {
	w := q.Whois
	if w.Kind == "err" {
		return nil, errors.New("whois: no such peer")
	}
	grant := func(state, good string) ([]tailcfg.RawMessage, bool) {
		good = strings.ReplaceAll(good, "@A", strings.Trim(strconvQuote(s.D.Name("A")), `"`))
		switch state {
		case "none":
			return nil, false
		case "empty":
			return []tailcfg.RawMessage{}, true
		case "good":
			return []tailcfg.RawMessage{tailcfg.RawMessage(good)}, true
		case "bad":
			if r.Intn(2) == 0 {
				return []tailcfg.RawMessage{tailcfg.RawMessage(good), tailcfg.RawMessage(pick(r, badGrants...))}, true
			}
			return []tailcfg.RawMessage{tailcfg.RawMessage(pick(r, badGrants...))}, true
		}
		return nil, false
	}
	cm := tailcfg.PeerCapMap{}
	if g, ok := grant(w.Plain, plainRulesJSON); ok {
		cm[server.ACLCap] = g
	}
	if g, ok := grant(w.Https, httpsRulesJSON); ok {
		cm["https://"+server.ACLCap] = g
	}
	resp := &apitype.WhoIsResponse{Node: &tailcfg.Node{Name: "node.example.ts.net"}, UserProfile: &tailcfg.UserProfile{ID: 9}, CapMap: cm}
	switch w.Kind {
	case "tagged":
		resp.Node.Tags = []string{"tag:server"}
		resp.UserProfile.LoginName = pick(r, "", "tagged-devices")
	case "user":
		resp.UserProfile.LoginName = "user@example.com"
	case "anon":
		// neither tags nor a login name
	}
	return resp, nil
}

func strconvQuote(s string) string { b, _ := json.Marshal(s); return string(b) }

// httpObs is everything observable about one request sent to the real mux.
type httpObs struct {
	q      HReq
	status int
	ctype  string
	rb     []byte
	lines  []AuditRec
	out    Outcome
	desc   string
	bad    []string // what is wrong whatever the specification expects (a garbled audit line, a panic, secret bytes in a refusal)
	st     []SecState
	notes  []string
	probe  bool
}

// execHTTP sends one representative of the edge's request to the real mux and
// compares everything observable with the edge.
func execHTTP(sys *Sys, g *Graph, e Edge, probe bool, r *rand.Rand) ([]string, Outcome) {
	o := observeHTTP(sys, g, e, probe, r)
	return judgeHTTP(sys, g, e, o)
}

func observeHTTP(sys *Sys, g *Graph, e Edge, probe bool, r *rand.Rand) *httpObs {
	q := *e.Req
	var bad []string
	add := func(f string, a ...any) { bad = append(bad, fmt.Sprintf(f, a...)) }
	req, body := sys.concreteRequest(q, r)
	resp, werr := sys.whoisFor(q, r)
	addr := fmt.Sprintf("100.64.9.9:%d", 3000+r.Intn(1000))
	req.RemoteAddr = addr
	sys.whoMu.Lock()
	if sys.byAddr == nil {
		sys.byAddr = map[string]callerInfo{}
		sys.addrOf = map[string]string{}
	}
	sys.byAddr[addr] = callerInfo{raw: resp, err: werr, useRaw: true}
	sys.whoMu.Unlock()
	if q.Body.Class != "valid" && r.Intn(2) == 0 {
		// An earlier accepted request must leave nothing behind for this one: a read-only request whose body is a
		// valid document padded to the decoder's read size and followed by a second document (the service has
		// always ignored what follows the first value). If anything of it survived, the malformed request below
		// would be executed as that second document.
		first := `{"Name":` + strconvQuote(sys.D.Name("A")) + `}`
		second := `{"Name":` + strconvQuote(sys.D.Name("A")) + `,"Value":"ZXZpbCBsZWZ0b3Zlcg==","Version":1}`
		for _, pad := range []int{512, 4096} {
			pb := first + strings.Repeat(" ", pad-len(first)) + second
			preq := httptest.NewRequest("POST", "http://setec.test/api/info", strings.NewReader(pb))
			preq.Header.Set("Content-Type", "application/json")
			preq.Header.Set("Sec-X-Tailscale-No-Browsers", "setec")
			preq.RemoteAddr = sys.addrFor("primer", sys.aclRules(suRules))
			func() {
				defer func() { recover() }()
				sys.Mux.ServeHTTP(httptest.NewRecorder(), preq)
			}()
		}
	}
	sys.Sink.Take()
	preHash := fileHash(sys.Path)
	preGen := sys.DB.WriteGen()
	k0 := sys.KEK.Uses()
	rec := httptest.NewRecorder()
	func() {
		defer func() {
			if p := recover(); p != nil {
				add("handler panicked: %v", p)
			}
		}()
		sys.Mux.ServeHTTP(rec, req)
	}()
	res := rec.Result()
	rb, _ := io.ReadAll(res.Body)
	out := Outcome{Status: res.StatusCode, Body: rb}
	out.Kek = sys.KEK.Uses() - k0
	out.Saved = sys.DB.WriteGen() != preGen
	var lines []AuditRec
	for _, w := range sys.Sink.Take() {
		var ent struct {
			Principal struct {
				User string   `json:"user"`
				Tags []string `json:"tags"`
			} `json:"principal"`
			Action        string `json:"action"`
			Authorized    bool   `json:"authorized"`
			Secret        string `json:"secret"`
			SecretVersion int    `json:"secretVersion"`
		}
		if err := json.Unmarshal(w.Data, &ent); err != nil {
			add("audit line is not a complete JSON object: %q", w.Data)
			continue
		}
		if w.FileHash != preHash {
			add("database file had already changed when the audit record was written")
		}
		who := ent.Principal.User
		if len(ent.Principal.Tags) > 0 {
			who = strings.Join(ent.Principal.Tags, ",")
			if ent.Principal.User != "" {
				add("audit principal of a tagged node carries a user %q", ent.Principal.User)
			}
		}
		mn := ""
		if ent.Secret != "" {
			mn = sys.D.ModelName(ent.Secret)
		}
		lines = append(lines, AuditRec{Who: who, Action: ent.Action, Name: mn, Ver: ent.SecretVersion, Authorized: ent.Authorized})
	}
	out.Audit = lines
	desc := fmt.Sprintf("%s %s ctype=%q hdr=%q whois=%v body=%q", req.Method, req.URL.Path, req.Header.Get("Content-Type"), req.Header.Get("Sec-X-Tailscale-No-Browsers"), q.Whois, body)

	// secret bytes must never appear in a non-200 reply, nor in the dashboard
	if res.StatusCode != 200 || q.Path == "dash" {
		for tok, v := range sys.D.vals {
			if len(v) >= 6 && (bytes.Contains(rb, v) || bytes.Contains(rb, []byte(base64.StdEncoding.EncodeToString(v)))) {
				add("HTTP %d body contains the bytes of value %q", res.StatusCode, tok)
			}
		}
	}
	st, notes := sys.Observe(probe)
	return &httpObs{q: q, status: res.StatusCode, ctype: res.Header.Get("Content-Type"), rb: rb, lines: lines, out: out, desc: desc, bad: bad, st: st, notes: notes, probe: probe}
}

// judgeHTTP compares an observation with what one edge of the specification expects.
func judgeHTTP(sys *Sys, g *Graph, e Edge, o *httpObs) ([]string, Outcome) {
	bad := append([]string(nil), o.bad...)
	add := func(f string, a ...any) { bad = append(bad, fmt.Sprintf(f, a...)) }
	q, rb, lines, out, desc, probe := o.q, o.rb, o.lines, o.out, o.desc, o.probe
	res := struct{ StatusCode int }{o.status}
	h := e.HTTP
	if h.Gate != "pass" {
		if res.StatusCode >= 200 && res.StatusCode <= 299 {
			add("HTTP %d for a request the gate must refuse (%s)", res.StatusCode, h.Gate)
		}
		if len(lines) > 0 {
			add("refused request (%s) wrote audit record(s) %+v", h.Gate, lines)
		}
		if out.Saved || out.Kek != 0 {
			add("refused request (%s) reached the store (saved=%v kek=%d)", h.Gate, out.Saved, out.Kek)
		}
	} else {
		switch h.Status {
		case "200":
			if res.StatusCode != 200 {
				add("HTTP %d, specification says 200", res.StatusCode)
			}
		case "304":
			if res.StatusCode != 304 {
				add("HTTP %d, specification says 304", res.StatusCode)
			}
			if len(rb) != 0 {
				add("HTTP 304 with a non-empty body %q", rb)
			}
		case "403":
			if res.StatusCode != 403 {
				add("HTTP %d, specification says 403", res.StatusCode)
			}
		case "404":
			if res.StatusCode != 404 {
				add("HTTP %d, specification says 404", res.StatusCode)
			}
		default:
			if res.StatusCode < 400 || res.StatusCode == 403 || res.StatusCode == 404 {
				add("HTTP %d for a failure the specification classes as 'other error'", res.StatusCode)
			}
		}
		// payload of a 200
		if res.StatusCode == 200 && h.Status == "200" && q.Path != "dash" {
			switch q.Path {
			case "get":
				var sv api.SecretValue
				if err := json.Unmarshal(rb, &sv); err != nil {
					add("200 body of get does not decode: %v", err)
				} else {
					out.HasVal, out.Val, out.Ver = true, sv.Value, int(sv.Version)
				}
			case "info":
				var in api.SecretInfo
				if err := json.Unmarshal(rb, &in); err != nil {
					add("200 body of info does not decode: %v", err)
				} else {
					out.Info = infoRec(sys.D, &in)
				}
			case "put":
				var v api.SecretVersion
				if err := json.Unmarshal(rb, &v); err != nil {
					add("200 body of put does not decode: %v", err)
				}
				out.Ver = int(v)
			case "list":
				var l []*api.SecretInfo
				if err := json.Unmarshal(rb, &l); err != nil {
					add("200 body of list does not decode: %v", err)
				}
				out.IsList, out.List = true, []InfoRec{}
				for _, in := range l {
					out.List = append(out.List, *infoRec(sys.D, in))
				}
			}
			if o.ctype != "application/json" {
				add("200 reply has Content-Type %q", o.ctype)
			}
		}
		if q.Path == "dash" && res.StatusCode == 200 {
			// names and version numbers only: every listed name must appear
			var want []InfoRec
			json.Unmarshal(e.Op.Reply.List, &want)
			for _, in := range want {
				if !bytes.Contains(rb, []byte(htmlEscape(sys.D.Name(in.Name)))) {
					add("dashboard does not show secret %q", in.Name)
				}
			}
		}
		switch res.StatusCode {
		case 200:
			out.Class = "ok"
		case 304:
			out.Class = "notchanged"
		case 403:
			out.Class = "denied"
		case 404:
			out.Class = "notfound"
		default:
			out.Class = "error"
		}
		op := e.Op
		if q.Path == "dash" {
			op.Reply.List = nil // the HTML is checked above
			op.Reply.Class = "ok"
		}
		out.Status = 0 // status already compared above with the Http table
		for _, m := range Compare(sys.D, op, out, false) {
			add("%s", m)
		}
	}
	bad = append(bad, o.notes...)
	bad = append(bad, CompareState(g.States[e.T], o.st, probe)...)
	for i := range bad {
		bad[i] = bad[i] + " [" + desc + "]"
		break
	}
	return bad, out
}

func htmlEscape(s string) string {
	r := strings.NewReplacer("&", "&amp;", "<", "&lt;", ">", "&gt;", `"`, "&#34;", "'", "&#39;")
	return r.Replace(s)
}

var _ = context.Background
