package vault

import (
	"bytes"
	"context"
	"encoding/json"
	"fmt"
	"os"
	"path/filepath"

	"github.com/tailscale/setec/client/setec"
	"github.com/tailscale/setec/types/api"
)

// checkFileClient: a FileClient built from the cache-format rendering of the model
// pre-state's active versions is a frozen snapshot of the service; a conditional get
// against it must answer like the edge's reply (C09), except that a FileClient does
// not carry secrets whose value is empty.
func checkFileClient(sys *Sys, g *Graph, e Edge) []string {
	st := g.States[e.F].Proj
	doc := map[string]any{}
	activeEmpty := map[string]bool{}
	for _, s := range st {
		for _, v := range s.Vers {
			if v.V == s.Active {
				val := sys.D.Val(v.Val)
				doc[sys.D.Name(s.Name)] = map[string]any{"secret": api.SecretValue{Value: val, Version: api.SecretVersion(s.Active)}, "lastAccess": "0"}
				activeEmpty[s.Name] = len(val) == 0
			}
		}
	}
	// entries a hand-written secrets file may also contain (the file-backed client documents the format): no version, version 0,
	// a text value. Whatever the client makes of them (it may skip them), its two calls have to agree with each other.
	hand := []string{"hand/zero", "hand/nover", "hand/text"}
	doc["hand/zero"] = map[string]any{"secret": map[string]any{"Value": []byte("zero-version value"), "Version": 0}}
	doc["hand/nover"] = map[string]any{"secret": map[string]any{"TextValue": "no version given"}}
	doc["hand/text"] = map[string]any{"secret": map[string]any{"TextValue": " text with edges \n", "Version": 7}}
	b, _ := json.Marshal(doc)
	p := filepath.Join(sys.Dir, "fileclient.json")
	if err := os.WriteFile(p, b, 0o600); err != nil {
		return []string{"harness: " + err.Error()}
	}
	fc, err := setec.NewFileClient(p)
	if err != nil {
		return []string{"NewFileClient rejects a cache-format file: " + err.Error()}
	}
	sv, err := fc.GetIfChanged(context.Background(), sys.D.Name(e.Op.Name), api.SecretVersion(e.Op.Ver))
	got := classify(err)
	want := e.Op.Reply.Class
	if activeEmpty[e.Op.Name] {
		want = "notfound"
	}
	var bad []string
	for _, n := range hand {
		gv, gerr := fc.Get(context.Background(), n)
		cv, cerr := fc.GetIfChanged(context.Background(), n, 0) // V = 0: the flag is ignored, the answer is Get's
		if classify(gerr) != classify(cerr) || (gerr == nil && (gv.Version != cv.Version || !bytes.Equal(gv.Value, cv.Value))) {
			bad = append(bad, fmt.Sprintf("FileClient on a hand-written entry %q: Get is %q but GetIfChanged(.., 0) is %q (with V = 0 the active value is returned)", n, classify(gerr), classify(cerr)))
		}
		if gerr == nil && gv.Version != 0 {
			if _, err := fc.GetIfChanged(context.Background(), n, gv.Version); classify(err) != "notchanged" {
				bad = append(bad, fmt.Sprintf("FileClient on %q: GetIfChanged with the version Get reports (%d) is %q, want not-changed", n, gv.Version, classify(err)))
			}
			if ov, err := fc.GetIfChanged(context.Background(), n, gv.Version+1); err != nil || !bytes.Equal(ov.Value, gv.Value) {
				bad = append(bad, fmt.Sprintf("FileClient on %q: GetIfChanged with another version does not return the value (%v)", n, err))
			}
		}
	}
	if got != want {
		bad = append(bad, fmt.Sprintf("FileClient.GetIfChanged(%q,%d) is %q, specification says %q", e.Op.Name, e.Op.Ver, got, want))
	}
	if want == "ok" && err == nil {
		if int(sv.Version) != e.Op.Reply.Ver || !bytes.Equal(sv.Value, sys.D.Val(e.Op.Reply.Val)) {
			bad = append(bad, fmt.Sprintf("FileClient.GetIfChanged(%q,%d) returned version %d / %d bytes, specification says version %d token %s",
				e.Op.Name, e.Op.Ver, sv.Version, len(sv.Value), e.Op.Reply.Ver, e.Op.Reply.Val))
		}
	}
	return bad
}
