package vault

import (
	"bytes"
	"context"
	"encoding/json"
	"fmt"
	"os"
	"path/filepath"

	"github.com/tailscale/setec/client/setec"
	"github.com/tailscale/setec/types/api"
)

// checkFileClient: a FileClient built from the cache-format rendering of the model
// pre-state's active versions is a frozen snapshot of the service; a conditional get
// against it must answer like the edge's reply (C09), except that a FileClient does
// not carry secrets whose value is empty.
func checkFileClient(sys *Sys, g *Graph, e Edge) []string {
	st := g.States[e.F].Proj
	doc := map[string]any{}
	activeEmpty := map[string]bool{}
	for _, s := range st {
		for _, v := range s.Vers {
			if v.V == s.Active {
				val := sys.D.Val(v.Val)
				doc[sys.D.Name(s.Name)] = map[string]any{"secret": api.SecretValue{Value: val, Version: api.SecretVersion(s.Active)}, "lastAccess": "0"}
				activeEmpty[s.Name] = len(val) == 0
			}
		}
	}
	b, _ := json.Marshal(doc)
	p := filepath.Join(sys.Dir, "fileclient.json")
	if err := os.WriteFile(p, b, 0o600); err != nil {
		return []string{"harness: " + err.Error()}
	}
	fc, err := setec.NewFileClient(p)
	if err != nil {
		return []string{"NewFileClient rejects a cache-format file: " + err.Error()}
	}
	sv, err := fc.GetIfChanged(context.Background(), sys.D.Name(e.Op.Name), api.SecretVersion(e.Op.Ver))
	got := classify(err)
	want := e.Op.Reply.Class
	if activeEmpty[e.Op.Name] {
		want = "notfound"
	}
	var bad []string
	if got != want {
		bad = append(bad, fmt.Sprintf("FileClient.GetIfChanged(%q,%d) is %q, specification says %q", e.Op.Name, e.Op.Ver, got, want))
	}
	if want == "ok" && err == nil {
		if int(sv.Version) != e.Op.Reply.Ver || !bytes.Equal(sv.Value, sys.D.Val(e.Op.Reply.Val)) {
			bad = append(bad, fmt.Sprintf("FileClient.GetIfChanged(%q,%d) returned version %d / %d bytes, specification says version %d token %s",
				e.Op.Name, e.Op.Ver, sv.Version, len(sv.Value), e.Op.Reply.Ver, e.Op.Reply.Val))
		}
	}
	return bad
}
