package vault

import (
	"encoding/json"
	"fmt"
	"hash/fnv"
	"math/rand"
	"os"
	"path/filepath"
	"strings"
	"testing"

	"verifharness/vh"
)


type walker struct {
	t        *testing.T
	g        *Graph
	res      *vh.Result
	d        *Dict
	httpMode bool
	sys      *Sys
	cur      int
	hist     []int // edge indices executed since the last reset
	covered  []bool
	target   []bool
	pending  []int // per state: number of uncovered target out-edges
	cursor   []int
	visited  map[int]bool
	probeN   int
	steps    int
	base     string
	seenViol map[string]bool
	bad      map[int]bool
	fileClient, reopenEach bool
	div, fol map[string]int // per choice ("none" / "latched" after a failed audit write): times the implementation went the other way / this way
}

// after a failed audit write the implementation either stays latched (every later call fails closed whatever else is
// injected) or is live again: the two families of edges out of such a state
func freeFault(f string) string {
	if f == "latched" {
		return "latched"
	}
	return "live"
}

// unavailable: an edge that stands for a choice the specification leaves to the implementation (after a failed audit
// write: recover or stay latched) which this implementation has shown it never takes.
func (w *walker) unavailable(e Edge) bool {
	if e.Req != nil || w.g.States[e.F].Audit || e.Op.Op == "reopen" {
		return false
	}
	f := freeFault(e.Op.Fault)
	return w.div[f] > 0 && w.fol[f] == 0
}

func (w *walker) reset() {
	if w.sys != nil {
		w.sys.Close()
	}
	s, err := NewSys(w.base, w.d, w.httpMode, w.g.Callers)
	if err != nil {
		w.t.Fatalf("cannot create system under test: %v", err)
	}
	s.ObserveCopy = os.Getenv("VERIF_OBSERVE_COPY") != ""
	w.sys = s
	w.cur = w.g.Init
	w.hist = w.hist[:0]
	w.res.Add("resets", 1)
}

func hiddenCounter(s MState) bool {
	for _, x := range s.Proj {
		max := 0
		for _, v := range x.Vers {
			if v.V > max {
				max = v.V
			}
		}
		if max != x.Latest {
			return true
		}
	}
	return false
}

// exec runs one edge on sys and returns the list of disagreements.
var httpRand = rand.New(rand.NewSource(1))

func execEdge(sys *Sys, g *Graph, e Edge, probe bool, httpMode bool) ([]string, Outcome) {
	bad, out, _ := execEdgeAlt(sys, g, e, -1, probe, httpMode)
	return bad, out
}

// sameCall: two edges out of one state that are the same call by the same caller. Where the specification leaves the
// implementation a choice (after a failed audit write the writer may stay latched -- fault "latched" -- or recover --
// fault "none") the state has one edge per choice, and the real outcome has to agree with one of them.
func sameCall(a, b Edge) bool {
	if a.Req != nil || b.Req != nil || a.F != b.F {
		return false
	}
	return a.Op.Op == b.Op.Op && a.Op.Who == b.Op.Who && a.Op.Name == b.Op.Name && a.Op.Val == b.Op.Val && a.Op.Ver == b.Op.Ver &&
		(a.Op.Fault == b.Op.Fault || a.Op.Fault == "latched" || b.Op.Fault == "latched")
}

// execEdgeAlt executes edge e (index ei in g.Edges, or -1 for a synthetic edge) and compares the outcome with its label; if
// they disagree and the specification offers the same call another outcome from this state, with that one. took is the
// index of the edge the real system followed (ei itself, an alternative, or -1 when none agrees).
func execEdgeAlt(sys *Sys, g *Graph, e Edge, ei int, probe bool, httpMode bool) (bad []string, out Outcome, took int) {
	if e.Req != nil {
		o := observeHTTP(sys, g, e, probe, httpRand)
		bad, out = judgeHTTP(sys, g, e, o)
		if len(bad) == 0 {
			return bad, out, ei
		}
		if ei >= 0 {
			// the same request out of the same state with another outcome the specification allows
			want, _ := json.Marshal(e.Req)
			for _, xi := range g.out[e.F] {
				x := g.Edges[xi]
				if xi == ei || x.Req == nil {
					continue
				}
				if got, _ := json.Marshal(x.Req); string(got) == string(want) {
					if b2, out2 := judgeHTTP(sys, g, x, o); len(b2) == 0 {
						return nil, out2, xi
					}
				}
			}
		}
		return bad, out, -1
	}
	if e.Op.Op == "reopen" {
		out, _ = sys.Reopen()
		out.Audit = nil
	} else {
		out = sys.Do(Call{Op: e.Op.Op, Who: e.Op.Who, Rules: g.Callers[e.Op.Who], Name: e.Op.Name, Val: e.Op.Val, Ver: e.Op.Ver, Fault: e.Op.Fault})
	}
	st, notes := sys.Observe(probe)
	judge := func(x Edge) []string {
		b := Compare(sys.D, x.Op, out, httpMode)
		b = append(b, notes...)
		return append(b, CompareState(g.States[x.T], st, probe)...)
	}
	bad = judge(e)
	if len(bad) == 0 {
		return bad, out, ei
	}
	if ei >= 0 {
		for _, xi := range g.out[e.F] {
			if xi != ei && sameCall(e, g.Edges[xi]) && len(judge(g.Edges[xi])) == 0 {
				return nil, out, xi
			}
		}
	}
	return bad, out, -1
}

func skipInHTTP(o Op) bool {
	// version 0 is not expressible through the client for these (it means "active")
	return (o.Op == "getver" || o.Op == "getcond") && o.Ver == 0
}

func (w *walker) step(ei int) bool {
	e := w.g.Edges[ei]
	w.steps++
	probe := w.probeN <= 1 || w.steps%w.probeN == 0 || hiddenCounter(w.g.States[e.T])
	if probe {
		w.res.Add("probes", 1)
	}
	bad, out, took := execEdgeAlt(w.sys, w.g, e, ei, probe, w.httpMode)
	w.hist = append(w.hist, ei)
	w.res.Add("edges_executed", 1)
	cover := func(x int) {
		if !w.covered[x] {
			w.covered[x] = true
			w.res.Add("distinct_edges", 1)
			if w.target[x] {
				w.pending[w.g.Edges[x].F]--
				w.res.Add("targets_covered", 1)
			}
		}
	}
	cover(ei)
	diverted := false
	if took >= 0 && !w.g.States[e.F].Audit && e.Req == nil && e.Op.Op != "reopen" {
		if took != ei {
			w.div[freeFault(e.Op.Fault)]++
		} else {
			w.fol[freeFault(e.Op.Fault)]++
		}
	}
	if took >= 0 && took != ei {
		// the implementation resolved a choice the specification leaves open the other way: continue from there
		w.res.Add("alternative_outcomes", 1)
		cover(took)
		e = w.g.Edges[took]
		diverted = true
	}
	if len(bad) == 0 && w.fileClient && e.Op.Op == "getcond" && e.Op.Who == "su" && e.Op.Fault == "none" {
		bad = append(bad, checkFileClient(w.sys, w.g, e)...)
		w.res.Add("fileclient_checks", 1)
	}
	if len(bad) == 0 && w.reopenEach && e.Op.Op != "reopen" && w.g.States[e.T].Audit {
		// C03: a clean stop/restart after every single operation
		ro := Edge{F: e.T, T: e.T, Op: Op{Op: "reopen", Fault: "none", Reply: Reply{Class: "ok", Val: "Nil"}, Kek: 1}}
		rb, _ := execEdge(w.sys, w.g, ro, true, w.httpMode)
		w.res.Add("reopens_after_op", 1)
		for _, m := range rb {
			bad = append(bad, "after restart: "+m)
		}
	}
	if len(bad) == 0 {
		w.cur = e.T
		w.visited[e.T] = true
		if w.steps%997 == 1 {
			w.res.Sample(map[string]any{"from": StateKey(w.g.States[e.F].Proj, true), "op": opString(e.Op), "reply": out.Class, "audit": out.Audit, "to": StateKey(w.g.States[e.T].Proj, true)})
		}
		return !diverted // a planned path does not continue from a state it did not expect
	}
	// A disagreement. Reproduce it on a fresh system before believing it.
	if e.Req != nil {
		e.Op = Op{Op: "http:" + e.Req.Path, Who: e.Req.Whois.Kind + "/" + e.Req.Whois.Plain + "/" + e.Req.Whois.Https,
			Name: e.Req.Method + " " + e.Req.Ctype + " " + e.Req.Hdr, Val: e.Req.Body.Class, Ver: e.Req.Body.Args.Ver, Fault: e.HTTP.Gate, Reply: Reply{Class: e.HTTP.Status}}
	}
	key := "edge " + opKindKey(e.Op) + " :: " + strings.Join(bad, " ; ")
	w.res.Add("disagreements", 1)
	if w.res.Counters["disagreements"] < 40 {
		fmt.Printf("DISAGREE %s in {%s}: %s\n", opString(e.Op), StateKey(w.g.States[e.F].Proj, true), strings.Join(bad, " ; "))
	}
	short := w.shortestPath(e.F)
	tryPaths := [][]int{append(append([]int{}, short...), ei), append([]int{}, w.hist...)}
	reproduced := -1
	for pi, p := range tryPaths {
		if short == nil && pi == 0 {
			continue
		}
		if w.reproduce(p) {
			reproduced = pi
			break
		}
	}
	if reproduced < 0 {
		w.res.Add("unreproduced", 1)
		w.res.Note("disagreement not reproduced on a fresh system (ignored): %s", key)
	} else {
		dk := opKindKey(e.Op) + "::" + firstWords(bad[0])
		if !w.seenViol[dk] {
			w.seenViol[dk] = true
			p := tryPaths[reproduced]
			ops := []Op{}
			for _, x := range p {
				ops = append(ops, w.g.Edges[x].Op)
			}
			w.res.Violate(fmt.Sprintf("%s state=%s :: %s", opString(e.Op), StateKey(w.g.States[e.F].Proj, true), firstWords(bad[0])),
				fmt.Sprintf("after %d call(s) from an empty database, %s in state {%s}: %s", len(p)-1, opString(e.Op), StateKey(w.g.States[e.F].Proj, true), strings.Join(bad, "; ")),
				map[string]any{"kind": "vault-path", "http": w.httpMode, "ops": ops, "callers": w.g.Callers, "expect_to": w.g.States[e.T]})
		} else {
			w.res.Add("violations_dup", 1)
		}
	}
	w.markBad(ei)
	w.reset()
	return false
}

// markBad removes a disagreeing edge from the navigation graph, so that later
// walks do not step on it again (another edge to the same successor is used).
func (w *walker) markBad(ei int) {
	if w.bad == nil {
		w.bad = map[int]bool{}
	}
	w.bad[ei] = true
	f := w.g.Edges[ei].F
	seen := map[int]bool{}
	var succ []int
	for _, x := range w.g.out[f] {
		e := w.g.Edges[x]
		if w.bad[x] || e.F == e.T || seen[e.T] {
			continue
		}
		seen[e.T] = true
		succ = append(succ, x)
	}
	w.g.succ[f] = succ
}

func firstWords(s string) string {
	if len(s) > 90 {
		return s[:90]
	}
	return s
}

func (w *walker) reproduce(path []int) bool {
	s, err := NewSys(w.base, w.d, w.httpMode, w.g.Callers)
	if err != nil {
		return false
	}
	s.ObserveCopy = os.Getenv("VERIF_OBSERVE_COPY") != ""
	defer s.Close()
	for i, ei := range path {
		e := w.g.Edges[ei]
		bad, _, took := execEdgeAlt(s, w.g, e, ei, true, w.httpMode)
		if took >= 0 {
			e = w.g.Edges[took]
		}
		if len(bad) == 0 && i == len(path)-1 {
			if w.fileClient && e.Op.Op == "getcond" && e.Op.Who == "su" {
				bad = append(bad, checkFileClient(s, w.g, e)...)
			}
			if w.reopenEach && e.Op.Op != "reopen" && w.g.States[e.T].Audit {
				ro := Edge{F: e.T, T: e.T, Op: Op{Op: "reopen", Fault: "none", Reply: Reply{Class: "ok", Val: "Nil"}, Kek: 1}}
				rb, _ := execEdge(s, w.g, ro, true, w.httpMode)
				bad = append(bad, rb...)
			}
		}
		if len(bad) > 0 {
			return i == len(path)-1
		}
	}
	return false
}

// shortestPath: edges from Init to state s (fault-free), nil if s == Init or unreachable.
func (w *walker) shortestPath(s int) []int {
	return w.bfs(w.g.Init, func(x int) bool { return x == s })
}

func (w *walker) bfs(from int, goal func(int) bool) []int {
	if goal(from) {
		return []int{}
	}
	prev := map[int]int{from: -1}
	q := []int{from}
	for len(q) > 0 {
		x := q[0]
		q = q[1:]
		for _, ei := range w.g.succ[x] {
			e := w.g.Edges[ei]
			if w.httpMode && skipInHTTP(e.Op) {
				continue
			}
			if w.unavailable(e) {
				continue
			}
			if _, ok := prev[e.T]; ok {
				continue
			}
			prev[e.T] = ei
			if goal(e.T) {
				var path []int
				for y := e.T; prev[y] >= 0; y = w.g.Edges[prev[y]].F {
					path = append([]int{prev[y]}, path...)
				}
				return path
			}
			q = append(q, e.T)
		}
	}
	return nil
}

func (w *walker) next() int {
	out := w.g.out[w.cur]
	for w.cursor[w.cur] < len(out) {
		ei := out[w.cursor[w.cur]]
		if w.target[ei] && !w.covered[ei] {
			if !w.unavailable(w.g.Edges[ei]) {
				return ei
			}
			w.covered[ei] = true // a choice this implementation never takes: nothing to execute
			w.pending[w.cur]--
			w.res.Add("targets_not_offered_by_the_implementation", 1)
		}
		w.cursor[w.cur]++
	}
	return -1
}

func shardOf(s string, n int) int {
	h := fnv.New32a()
	h.Write([]byte(s))
	return int(h.Sum32() % uint32(n))
}

// TestReplayGraph walks the labelled transition graph emitted by TLC for a bounded
// Vault configuration over the real system: every target edge is executed at least
// once from a real state equal to the edge's pre-state; reply, audit records, save
// and KEK use are compared with the edge label and the full projected state with
// the edge's post-state, after every call.
func TestReplayGraph(t *testing.T) {
	dir := vh.Dir(t)
	name := os.Getenv("VERIF_NAME")
	if name == "" {
		name = "vault-replay"
	}
	res := vh.NewResult(t, name)
	g, err := LoadGraph(filepath.Join(dir, "graph.json"))
	if err != nil {
		t.Fatal(err)
	}
	shard, nshards := vh.EnvInt("VERIF_SHARD", 0), vh.EnvInt("VERIF_NSHARDS", 1)
	ops := map[string]bool{}
	for _, o := range strings.Split(os.Getenv("VERIF_OPS"), ",") {
		if o != "" {
			ops[o] = true
		}
	}
	whoFilter := os.Getenv("VERIF_WHO_NOT") // e.g. "su": only non-superuser callers are targets
	sample := vh.EnvInt("VERIF_SAMPLE_PCT", 100)
	rnd := vh.Rand(int64(shard) + 101)
	httpRand = vh.Rand(int64(shard) + 977)
	w := &walker{t: t, g: g, res: res, d: NewDict(vh.Seed()), httpMode: os.Getenv("VERIF_MODE") == "http",
		covered: make([]bool, len(g.Edges)), target: make([]bool, len(g.Edges)), pending: make([]int, len(g.States)),
		cursor: make([]int, len(g.States)), visited: map[int]bool{}, probeN: vh.EnvInt("VERIF_PROBE_EVERY", 8), base: dir,
		div: map[string]int{}, fol: map[string]int{},
		seenViol: map[string]bool{}, fileClient: os.Getenv("VERIF_FILECLIENT") != "", reopenEach: os.Getenv("VERIF_REOPEN_EACH") != ""}
	ntarget := 0
	for i, e := range g.Edges {
		if shardOf(mkey(g.States[e.F]), nshards) != shard {
			continue
		}
		if len(ops) > 0 && !ops[e.Op.Op] {
			continue
		}
		if whoFilter != "" && e.Op.Who == whoFilter {
			continue
		}
		if w.httpMode && skipInHTTP(e.Op) {
			continue
		}
		if sample < 100 && rnd.Intn(100) >= sample {
			continue
		}
		w.target[i] = true
		w.pending[e.F]++
		ntarget++
	}
	res.Set("target_edges", ntarget)
	w.reset()
	res.Set("resets", 0)
	// initial state must be the empty database
	if st, notes := w.sys.Observe(true); len(st) != 0 || len(notes) != 0 {
		res.Violate("create", fmt.Sprintf("fresh database is not empty: %v %v", st, notes), nil)
	}
	w.visited[g.Init] = true
	maxViol := 25
	afterFault := os.Getenv("VERIF_AFTER_FAULT") != ""
	for res.NViol() < maxViol && res.Counters["disagreements"] < 400 {
		ei := w.next()
		if ei >= 0 {
			ok := w.step(ei)
			// a failed save of one secret, then at once a successful save of ANOTHER one: what the failed call left in
			// memory must not ride along (the file is compared after the second call)
			if e := g.Edges[ei]; ok && afterFault && e.Op.Fault == "save" && e.F == e.T && w.steps%2 == 0 {
				// ... or the very same call again (what a client does after an error): it must really happen this time
				for _, xi := range g.out[w.cur] {
					x := g.Edges[xi]
					if x.Req == nil && (x.Op.Fault == "none" || x.Op.Fault == "") && x.Op.Op == e.Op.Op && x.Op.Name == e.Op.Name && x.Op.Val == e.Op.Val && x.Op.Ver == e.Op.Ver {
						w.res.Add("retry_right_after_failed_save", 1)
						w.step(xi)
						break
					}
				}
			} else if ok && afterFault && e.Op.Fault == "save" && e.F == e.T {
				for _, xi := range g.out[w.cur] {
					x := g.Edges[xi]
					if x.Req == nil && (x.Op.Fault == "none" || x.Op.Fault == "") && x.Op.Saved && x.Op.Name != e.Op.Name && x.F != x.T {
						w.res.Add("success_right_after_failed_save", 1)
						w.step(xi)
						break
					}
				}
			}
			continue
		}
		path := w.bfs(w.cur, func(x int) bool { return w.pending[x] > 0 })
		if path == nil {
			if w.cur != g.Init || len(w.hist) > 0 {
				// try again from a fresh database
				left := 0
				for _, p := range w.pending {
					left += p
				}
				if left == 0 {
					break
				}
				w.reset()
				path = w.bfs(w.cur, func(x int) bool { return w.pending[x] > 0 })
			}
			if path == nil {
				break
			}
		}
		for _, pe := range path {
			if !w.step(pe) {
				break
			}
		}
	}
	// targets that only exist behind a choice this implementation never takes are not "left"
	reach := map[int]bool{g.Init: true}
	for q := []int{g.Init}; len(q) > 0; q = q[1:] {
		for _, xi := range g.out[q[0]] {
			e := g.Edges[xi]
			if !w.unavailable(e) && !reach[e.T] {
				reach[e.T] = true
				q = append(q, e.T)
			}
		}
	}
	left := 0
	for i, e := range g.Edges {
		if w.target[i] && !w.covered[i] {
			if w.unavailable(e) || !reach[e.F] {
				res.Add("targets_not_offered_by_the_implementation", 1)
			} else {
				left++
			}
		}
	}
	res.Set("target_edges_left", left)
	res.Set("states_visited", len(w.visited))
	vis := []int{}
	for s := range w.visited {
		vis = append(vis, s)
	}
	res.SetExtra("visited", vis)
	if res.NViol() >= maxViol {
		res.Note("walk stopped after %d violations", maxViol)
	}
	w.sys.Close()
	res.Write(t)
}

// TestReplayPath re-executes one recorded failing path (VERIF_REPLAY) and prints what happens.
func TestReplayPath(t *testing.T) {
	path := os.Getenv("VERIF_REPLAY")
	if path == "" {
		t.Skip("no VERIF_REPLAY")
	}
	b, err := os.ReadFile(path)
	if err != nil {
		t.Fatal(err)
	}
	var doc struct {
		Seed   int64 `json:"seed"`
		Replay struct {
			HTTP     bool               `json:"http"`
			Ops      []Op               `json:"ops"`
			Callers  map[string][]RuleJ `json:"callers"`
			ExpectTo MState             `json:"expect_to"`
		} `json:"replay"`
	}
	if err := json.Unmarshal(b, &doc); err != nil {
		t.Fatal(err)
	}
	s, err := NewSys(t.TempDir(), NewDict(doc.Seed), doc.Replay.HTTP, doc.Replay.Callers)
	if err != nil {
		t.Fatal(err)
	}
	defer s.Close()
	for i, op := range doc.Replay.Ops {
		var out Outcome
		if op.Op == "reopen" {
			out, _ = s.Reopen()
			out.Audit = nil
		} else {
			out = s.Do(Call{Op: op.Op, Who: op.Who, Rules: doc.Replay.Callers[op.Who], Name: op.Name, Val: op.Val, Ver: op.Ver, Fault: op.Fault})
		}
		bad := Compare(s.D, op, out, doc.Replay.HTTP)
		st, _ := s.Observe(true)
		fmt.Printf("REPLAY %3d %-28s -> %-10s ver=%d audit=%v state={%s}\n", i, opString(op), out.Class, out.Ver, out.Audit, StateKey(st, true))
		for _, m := range bad {
			fmt.Printf("REPLAY     MISMATCH: %s\n", m)
		}
		if i == len(doc.Replay.Ops)-1 {
			for _, m := range CompareState(doc.Replay.ExpectTo, st, true) {
				fmt.Printf("REPLAY     MISMATCH: %s\n", m)
			}
		}
	}
}
