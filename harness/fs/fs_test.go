// Package fs binds spec/AtomicFile.tla to what the kernel sees when the real code
// saves the database (db.kv.save) or the client cache (FileCache.Write): a child
// process performs one real mutating call under strace; its system calls on the
// state directory become a trace that TLC validates, and every one of them is in
// turn made to fail (injected errno) or to be the instant of a SIGKILL (C04, C13).
package fs

import (
	"bufio"
	"bytes"
	"crypto/sha256"
	"encoding/json"
	"fmt"
	"io"
	"os"
	"os/exec"
	"path/filepath"
	"regexp"
	"sort"
	"strconv"
	"strings"
	"testing"

	"verifharness/vault"
	"verifharness/vh"
)

type scenario struct {
	Name  string
	Setup string
	Op    string
	Cache bool // FileCache.Write instead of a database operation
}

var scenarios = []scenario{
	{Name: "create", Op: "create"},
	{Name: "firstput", Op: "put:a:x"},
	{Name: "newversion", Setup: "put:a:x", Op: "put:a:y"},
	{Name: "activate", Setup: "put:a:x,put:a:y", Op: "activate:a:2"},
	{Name: "delver", Setup: "put:a:x,put:a:y", Op: "delver:a:2"},
	{Name: "delete", Setup: "put:a:x,put:b:y", Op: "delete:a"},
}

type sysEvent struct {
	Ev      string `json:"ev"`
	Size    int    `json:"size,omitempty"`
	SameDir bool   `json:"samedir"`
	Excl    bool   `json:"excl"`
	Mode    int    `json:"mode"`
	Bytes   int    `json:"bytes,omitempty"`
	FromTmp bool   `json:"fromtmp"`
	ToLive  bool   `json:"tolive"`
	Tmp     bool   `json:"tmp"`
	Result  string `json:"result,omitempty"`
	Step    string `json:"-"` // protocol step this call is (for the fault table)
	Inject  bool   `json:"-"`
	Raw     string `json:"-"`
}

var lineRe = regexp.MustCompile(`^(\d+)\s+(\w+)\((.*)\)\s+=\s+(-?\d+|\?)(.*)$`)

type parsed struct {
	Events    []sysEvent // calls on the state directory inside the MARK window
	Killed    bool
	Injected  *sysEvent // the call that was made to fail / was the kill point (nil: none inside the window on the state dir)
	InjectedAny bool    // an injection happened somewhere
	LiveWrite bool      // the live file was opened for writing
	Notes     []string
}

// parseStrace turns strace output into protocol events for paths under stateDir.
func parseStrace(path, stateDir, live string) parsed {
	var p parsed
	f, err := os.Open(path)
	if err != nil {
		p.Notes = append(p.Notes, err.Error())
		return p
	}
	defer f.Close()
	fds := map[string]string{} // fd -> path (state dir files only)
	inWin := false
	sc := bufio.NewScanner(f)
	sc.Buffer(make([]byte, 1<<20), 1<<26)
	pending := map[string]string{} // pid -> unfinished prefix
	var lastLine string
	for sc.Scan() {
		line := sc.Text()
		if strings.Contains(line, "+++ killed by SIGKILL +++") {
			p.Killed = true
			continue
		}
		if strings.Contains(line, "<unfinished ...>") {
			pid := strings.Fields(line)[0]
			pending[pid] = strings.Replace(line, " <unfinished ...>", "", 1)
			lastLine = line
			continue
		}
		if strings.Contains(line, "resumed>") {
			pid := strings.Fields(line)[0]
			if pre, ok := pending[pid]; ok {
				i := strings.Index(line, "resumed>")
				line = pre + line[i+len("resumed>"):]
				delete(pending, pid)
			}
		}
		lastLine = line
		m := lineRe.FindStringSubmatch(line)
		if m == nil {
			continue
		}
		call, args, ret, rest := m[2], m[3], m[4], m[5]
		injected := strings.Contains(rest, "(INJECTED)")
		if injected {
			p.InjectedAny = true
		}
		failed := strings.HasPrefix(ret, "-")
		if call == "write" && strings.HasPrefix(args, "2, \"MARK-BEGIN") {
			inWin = true
			continue
		}
		if call == "write" && strings.HasPrefix(args, "2, \"MARK-END") {
			inWin = false
			if injected {
				p.Injected = &sysEvent{Ev: "markend", Step: "done", Inject: true}
			}
			continue
		}
		add := func(e sysEvent) {
			e.Raw = line
			if !inWin {
				return
			}
			if injected {
				e.Inject = true
				ec := e
				p.Injected = &ec
				p.Events = append(p.Events, sysEvent{Ev: "fail", Raw: line})
				return
			}
			if failed {
				p.Notes = append(p.Notes, "state-directory call failed without injection: "+line)
				return
			}
			p.Events = append(p.Events, e)
		}
		switch call {
		case "openat":
			q := strings.Split(args, ", ")
			if len(q) < 3 {
				continue
			}
			pth := strings.Trim(q[1], `"`)
			if !strings.HasPrefix(pth, stateDir) {
				continue
			}
			flags := q[2]
			if strings.Contains(flags, "O_CREAT") {
				mode := 0
				if len(q) > 3 {
					mv, _ := strconv.ParseInt(q[3], 8, 32)
					mode = int(mv)
				}
				step := "start"
				if !failed {
					fds[ret] = pth
				}
				add(sysEvent{Ev: "create", SameDir: filepath.Dir(pth) == filepath.Dir(live) && pth != live, Excl: strings.Contains(flags, "O_EXCL"), Mode: mode, Step: step})
			} else if strings.Contains(flags, "O_WRONLY") || strings.Contains(flags, "O_RDWR") || strings.Contains(flags, "O_TRUNC") || strings.Contains(flags, "O_APPEND") {
				if pth == live && inWin {
					p.LiveWrite = true
					p.Events = append(p.Events, sysEvent{Ev: "openlive-write", Raw: line})
				}
				if !failed {
					fds[ret] = pth
				}
			}
		case "write", "pwrite64":
			q := strings.SplitN(args, ", ", 2)
			pth, ok := fds[q[0]]
			if !ok {
				continue
			}
			n, _ := strconv.Atoi(ret)
			if pth == live && inWin {
				p.LiveWrite = true
				p.Events = append(p.Events, sysEvent{Ev: "openlive-write", Raw: line})
				continue
			}
			add(sysEvent{Ev: "write", Bytes: n, Step: "writing"})
		case "ftruncate":
			q := strings.SplitN(args, ", ", 2)
			if pth, ok := fds[q[0]]; ok && pth == live && inWin {
				p.LiveWrite = true
				p.Events = append(p.Events, sysEvent{Ev: "openlive-write", Raw: line})
			}
		case "fchmod":
			q := strings.Split(args, ", ")
			if _, ok := fds[q[0]]; !ok {
				continue
			}
			mv, _ := strconv.ParseInt(q[1], 8, 32)
			add(sysEvent{Ev: "chmod", Mode: int(mv), Step: "chmod"})
		case "fsync", "fdatasync":
			if _, ok := fds[args]; !ok {
				continue
			}
			add(sysEvent{Ev: "fsync", Step: "chmodded"})
		case "close":
			if _, ok := fds[args]; !ok {
				continue
			}
			add(sysEvent{Ev: "close", Step: "synced"})
			if !injected {
				delete(fds, args)
			}
		case "renameat", "renameat2", "rename":
			q := strings.Split(args, ", ")
			var from, to string
			if call == "rename" {
				from, to = strings.Trim(q[0], `"`), strings.Trim(q[1], `"`)
			} else {
				from, to = strings.Trim(q[1], `"`), strings.Trim(q[3], `"`)
			}
			if !strings.HasPrefix(to, stateDir) && !strings.HasPrefix(from, stateDir) {
				continue
			}
			add(sysEvent{Ev: "rename", FromTmp: strings.HasPrefix(from, live+".tmp"), ToLive: to == live, Step: "closed"})
		case "unlinkat", "unlink":
			q := strings.Split(args, ", ")
			pth := strings.Trim(q[0], `"`)
			if call == "unlinkat" {
				pth = strings.Trim(q[1], `"`)
			}
			if !strings.HasPrefix(pth, stateDir) {
				continue
			}
			add(sysEvent{Ev: "unlink", Tmp: strings.HasPrefix(pth, live+".tmp"), Step: "cleanup"})
		}
	}
	if p.Killed && p.Injected == nil {
		// the kill point is the last call printed: find out whether it was ours
		m := regexp.MustCompile(`^(\d+)\s+(\w+)\((.*)$`).FindStringSubmatch(lastLine)
		_ = m
	}
	return p
}

type childResult struct {
	Op       string           `json:"op"`
	Err      string           `json:"err"`
	Class    string           `json:"class"`
	State    []vault.SecState `json:"state"`
	Retry    string           `json:"retry"`
	After    []vault.SecState `json:"after"`
	OpenErr  string           `json:"openerr"`
	CacheGot string           `json:"cachegot"`
}

type runner struct {
	t     *testing.T
	child string
	kek   string
	base  string
}

func (r *runner) run(dir string, sc scenario, inject string, withSetup bool) (childResult, parsed, error) {
	args := []string{"-f", "-o", filepath.Join(dir, "strace.txt"), "-s", "16",
		"-e", "trace=openat,write,pwrite64,ftruncate,fchmod,fsync,fdatasync,close,renameat,renameat2,rename,unlinkat,unlink"}
	if inject != "" {
		args = append(args, "-e", "inject="+inject)
	}
	args = append(args, r.child, "-dir", dir, "-kek", r.kek, "-op", sc.Op)
	if withSetup {
		args = append(args, "-setup", sc.Setup)
	}
	cmd := exec.Command("strace", args...)
	var out bytes.Buffer
	cmd.Stdout = &out
	cmd.Stderr = io.Discard
	err := cmd.Run()
	var res childResult
	for _, ln := range strings.Split(out.String(), "\n") {
		if strings.HasPrefix(ln, "{") {
			json.Unmarshal([]byte(ln), &res)
		}
	}
	live := filepath.Join(dir, "db", "state.db")
	sd := filepath.Join(dir, "db")
	if sc.Cache {
		live = filepath.Join(dir, "cache", "secrets.json")
		sd = filepath.Join(dir, "cache")
	}
	p := parseStrace(filepath.Join(dir, "strace.txt"), sd, live)
	return res, p, err
}

func copyDir(t *testing.T, from, to string) {
	filepath.Walk(from, func(p string, fi os.FileInfo, err error) error {
		if err != nil {
			return nil
		}
		rel, _ := filepath.Rel(from, p)
		if fi.IsDir() {
			os.MkdirAll(filepath.Join(to, rel), 0o700)
			return nil
		}
		b, _ := os.ReadFile(p)
		os.WriteFile(filepath.Join(to, rel), b, fi.Mode())
		return nil
	})
}

func hashFile(p string) string {
	b, err := os.ReadFile(p)
	if err != nil {
		return "absent"
	}
	return fmt.Sprintf("%x", sha256.Sum256(b))
}

// openAndObserve: what a server restarted on this directory would serve.
func openAndObserve(dir, kekPath string) ([]vault.SecState, error) {
	kek, err := vault.KEKFromFile(kekPath)
	if err != nil {
		return nil, err
	}
	if _, err := os.Stat(filepath.Join(dir, "db", "state.db")); err != nil {
		return nil, nil // no database yet
	}
	// open a COPY so that the inspection never changes the directory under test
	tmp, _ := os.MkdirTemp(filepath.Dir(dir), "inspect-")
	defer os.RemoveAll(tmp)
	copyDir(nil, dir, tmp)
	d := vault.NewDict(0)
	d.NoSubst()
	d.Name("a")
	d.Name("b")
	for _, tok := range []string{"x", "y", "later"} {
		d.Val(tok)
	}
	s, err := vault.OpenSys(tmp, kek, d)
	if err != nil {
		return nil, err
	}
	st, notes := s.Observe(false)
	if len(notes) > 0 {
		return st, fmt.Errorf("%v", notes)
	}
	return st, nil
}

func key(st []vault.SecState) string { return vault.StateKey(st, false) }

func listDir(dir string) []string {
	ents, _ := os.ReadDir(dir)
	var out []string
	for _, e := range ents {
		fi, _ := e.Info()
		out = append(out, fmt.Sprintf("%s(%o)", e.Name(), fi.Mode().Perm()))
	}
	sort.Strings(out)
	return out
}

// TestAtomicFile: dry runs (protocol trace), then every injection point.
func TestAtomicFile(t *testing.T) {
	dir := vh.Dir(t)
	res := vh.NewResult(t, "fs-atomic")
	child := os.Getenv("VERIF_CHILD")
	if child == "" {
		t.Fatal("VERIF_CHILD not set")
	}
	root := dir
	if fi, err := os.Stat("/dev/shm"); err == nil && fi.IsDir() {
		root, _ = os.MkdirTemp("/dev/shm", "verif-fs-")
		defer os.RemoveAll(root)
	}
	kek := filepath.Join(os.Getenv("VERIF_ROOT"), "golden", "test-kek.cleartext.json")
	r := &runner{t: t, child: child, kek: kek}
	w := vh.NewNDJSON(t, filepath.Join(dir, "trace.ndjson"))
	defer w.Close()
	only := os.Getenv("VERIF_SCENARIOS")
	cases := 0
	emit := func(p parsed, result string) {
		size := 0
		for _, e := range p.Events {
			if e.Ev == "write" {
				size += e.Bytes
			}
		}
		if size == 0 {
			size = 1
		}
		w.Put(sysEvent{Ev: "begin", Size: size})
		for _, e := range p.Events {
			w.Put(e)
		}
		w.Put(sysEvent{Ev: "end", Result: result})
	}
	scs := append([]scenario{}, scenarios...)
	scs = append(scs, scenario{Name: "cachewrite", Op: "cachewrite:", Cache: true})
	for _, sc := range scs {
		if only != "" && !strings.Contains(","+only+",", ","+sc.Name+",") {
			continue
		}
		// base directory: state before the call
		base := filepath.Join(root, "base-"+sc.Name)
		os.MkdirAll(base, 0o700)
		live := filepath.Join(base, "db", "state.db")
		if sc.Cache {
			os.MkdirAll(filepath.Join(base, "cache"), 0o700)
			live = filepath.Join(base, "cache", "secrets.json")
			os.WriteFile(live, []byte(`{"old":{"secret":{"Value":"b2xk","Version":1},"lastAccess":"0"}}`), 0o600)
			payload := filepath.Join(base, "payload.json")
			os.WriteFile(payload, []byte(`{"new":{"secret":{"Value":"`+strings.Repeat("bmV3", 300)+`","Version":2},"lastAccess":"5"}}`), 0o600)
			sc.Op = "cachewrite:" + payload
		} else if sc.Name != "create" {
			out, err := exec.Command(child, "-dir", base, "-kek", kek, "-setup", sc.Setup).CombinedOutput()
			if err != nil {
				t.Fatalf("setup %s: %v %s", sc.Name, err, out)
			}
		}
		preHash := hashFile(live)
		var pre []vault.SecState
		if !sc.Cache {
			var err error
			pre, err = openAndObserve(base, kek)
			if err != nil {
				t.Fatalf("pre-state %s: %v", sc.Name, err)
			}
		}
		fresh := func(tag string) string {
			d := filepath.Join(root, sc.Name+"-"+tag)
			os.RemoveAll(d)
			copyDir(t, base, d)
			if sc.Cache {
				sc.Op = "cachewrite:" + filepath.Join(d, "payload.json")
			}
			return d
		}
		// ---- dry run: the protocol as the kernel saw it
		d0 := fresh("dry")
		cr, p, err := r.run(d0, sc, "", false)
		if err != nil || cr.Class != "ok" || cr.OpenErr != "" {
			t.Fatalf("dry run %s failed: %v %+v", sc.Name, err, cr)
		}
		if len(p.Events) < 4 && !p.LiveWrite {
			t.Fatalf("dry run %s: strace saw only %d state-directory calls (tool trouble)", sc.Name, len(p.Events))
		}
		emit(p, "ok")
		if p.LiveWrite {
			res.Violate("live-written "+sc.Name, "the live file was opened for writing / written in place during "+sc.Name, map[string]any{"scenario": sc.Name, "events": p.Events})
		}
		var post []vault.SecState
		postCache := ""
		if sc.Cache {
			postCache = cr.CacheGot
		} else {
			post, err = openAndObserve(d0, kek)
			if err != nil {
				res.Violate("post-open "+sc.Name, fmt.Sprintf("after a clean %s the database does not reopen: %v", sc.Name, err), nil)
				continue
			}
			if key(post) == key(pre) && sc.Name != "create" {
				t.Fatalf("scenario %s does not change the state", sc.Name)
			}
		}
		for _, e := range listDir(filepath.Dir(filepath.Join(d0, strings.TrimPrefix(live, base)))) {
			if !strings.HasSuffix(e, "(600)") {
				res.Violate("mode "+sc.Name, "file not owner-only after "+sc.Name+": "+e, nil)
			}
		}
		res.Sample(map[string]any{"scenario": sc.Name, "syscalls": func() []string {
			var s []string
			for _, e := range p.Events {
				s = append(s, e.Ev)
			}
			return s
		}()})
		// ---- every injection point
		type inj struct{ call, fault string }
		var injs []inj
		for _, c := range []string{"openat", "write", "fchmod", "fsync", "close", "renameat"} {
			injs = append(injs, inj{c, "error=EIO"}, inj{c, "signal=KILL"})
		}
		injs = append(injs, inj{"write", "error=ENOSPC"}, inj{"renameat", "error=EXDEV"}, inj{"openat", "error=EMFILE"})
		seen := map[string]bool{}
		for _, in := range injs {
			misses := 0
			for n := 1; n <= 40 && misses < 3; n++ {
				d := fresh(fmt.Sprintf("%s-%s-%d", in.call, strings.ReplaceAll(in.fault, "=", ""), n))
				cr, p, _ := r.run(d, sc, fmt.Sprintf("%s:%s:when=%d", in.call, in.fault, n), false)
				kill := strings.HasPrefix(in.fault, "signal")
				hit := p.Injected
				if kill && p.Killed && hit == nil {
					// the process died at the entry of the n-th call; identify it from the dry run order
					hit = killPoint(p, filepath.Join(d, "strace.txt"))
				}
				if !p.InjectedAny && !p.Killed {
					misses++ // n is beyond the number of such calls
					os.RemoveAll(d)
					continue
				}
				if hit == nil || (!kill && hit.Ev == "markend") {
					os.RemoveAll(d) // the fault hit a call outside the operation (runtime, setup, marker): not our case
					continue
				}
				ck := fmt.Sprintf("%s/%s/%s/%s#%d", sc.Name, in.call, in.fault, hit.Step, countEv(p.Events, hit.Ev))
				if seen[ck] {
					os.RemoveAll(d)
					continue
				}
				seen[ck] = true
				cases++
				where := fmt.Sprintf("%s: %s at %s (%s)", sc.Name, in.fault, hit.Ev, hit.Step)
				liveD := filepath.Join(d, strings.TrimPrefix(live, base))
				if kill {
					wantPost := hit.Step == "done"
					if sc.Cache {
						got, _ := os.ReadFile(liveD)
						old, _ := os.ReadFile(live)
						if !(bytes.Equal(got, old) || string(got) == postCache) {
							res.Violate("kill-cache "+ck, "after "+where+" the cache file is neither the old nor the new document", map[string]any{"scenario": sc.Name, "inject": in, "n": n})
						}
					} else {
						st, err := openAndObserve(d, kek)
						if err != nil {
							res.Violate("kill-open "+ck, fmt.Sprintf("after %s the database does not open: %v; directory: %v", where, err, listDir(filepath.Join(d, "db"))), map[string]any{"scenario": sc.Name, "inject": in, "n": n})
						} else if wantPost && key(st) != key(post) {
							res.Violate("kill-state "+ck, fmt.Sprintf("after %s (rename done) the database holds {%s}, want the post-call state {%s}", where, key(st), key(post)), nil)
						} else if !wantPost && key(st) != key(pre) {
							res.Violate("kill-state "+ck, fmt.Sprintf("after %s the database holds {%s}, want the pre-call state {%s}", where, key(st), key(pre)), map[string]any{"scenario": sc.Name, "inject": in, "n": n})
						} else if !wantPost && hashFile(liveD) != preHash {
							res.Violate("kill-bytes "+ck, "after "+where+" the live file's bytes changed although the call never completed", nil)
						}
						// leftovers must be harmless: a restarted server keeps working
						if err == nil {
							if msg := worksAfter(d, kek); msg != "" {
								res.Violate("kill-after "+ck, "after "+where+" a restarted server cannot continue: "+msg, nil)
							}
						}
					}
				} else {
					// injected error: the call reports it, nothing changed on disk or in the served state, later calls succeed
					emit(p, "error")
					if cr.Class != "error" {
						res.Violate("err-class "+ck, fmt.Sprintf("%s: the call reported %q, want an error", where, cr.Class), map[string]any{"scenario": sc.Name, "inject": in, "n": n})
					}
					if sc.Cache {
						if cr.Retry != "ok" {
							res.Violate("err-retry "+ck, where+": the next write failed too: "+cr.Retry, nil)
						}
					} else if sc.Name == "create" {
						if cr.Retry != "ok" {
							res.Violate("err-retry "+ck, where+": opening again failed: "+cr.Retry, nil)
						}
					} else {
						if key(cr.State) != key(pre) {
							res.Violate("err-served "+ck, fmt.Sprintf("%s: the running server now serves {%s}, want the pre-call state {%s}", where, key(cr.State), key(pre)), map[string]any{"scenario": sc.Name, "inject": in, "n": n})
						}
						if cr.Retry != "ok" {
							res.Violate("err-retry "+ck, fmt.Sprintf("%s: retrying the call gave %q, want success", where, cr.Retry), nil)
						} else if key(cr.After) != key(post) {
							res.Violate("err-after "+ck, fmt.Sprintf("%s: after the retry the server serves {%s}, want {%s}", where, key(cr.After), key(post)), nil)
						}
					}
					// no temporary file left behind
					for _, e := range listDir(filepath.Dir(liveD)) {
						if strings.Contains(e, ".tmp") {
							res.Violate("err-temp "+ck, where+": temporary file left behind: "+e, nil)
						}
					}
				}
				os.RemoveAll(d)
			}
		}
		os.RemoveAll(base)
	}
	res.Set("cases", cases)
	res.Write(t)
}

func countEv(evs []sysEvent, ev string) int {
	n := 0
	for _, e := range evs {
		if e.Ev == ev {
			n++
		}
	}
	return n
}

// killPoint: the process was killed at the entry of a call strace never printed a
// result for; the last (unfinished) line tells which one.
func killPoint(p parsed, strace string) *sysEvent {
	b, _ := os.ReadFile(strace)
	lines := strings.Split(strings.TrimSpace(string(b)), "\n")
	// find the last syscall line before "+++ killed"
	var last string
	for i := len(lines) - 1; i >= 0; i-- {
		if strings.Contains(lines[i], "+++ killed") || strings.Contains(lines[i], "--- SIG") {
			continue
		}
		last = lines[i]
		break
	}
	inWin := false
	for _, ln := range lines {
		if strings.Contains(ln, `"MARK-BEGIN`) {
			inWin = true
		}
	}
	if !inWin {
		return nil
	}
	m := regexp.MustCompile(`^\d+\s+(\w+)\((.*)`).FindStringSubmatch(last)
	if m == nil {
		return nil
	}
	call, args := m[1], m[2]
	switch call {
	case "openat":
		if strings.Contains(args, ".tmp") && strings.Contains(args, "O_CREAT") {
			return &sysEvent{Ev: "create", Step: "start"}
		}
	case "write":
		if strings.HasPrefix(args, `2, "MARK-END`) {
			return &sysEvent{Ev: "markend", Step: "done"}
		}
		if strings.HasPrefix(args, `2, "MARK-BEGIN`) {
			return nil
		}
		// a write to the temporary file: fd known from the trace so far
		for _, e := range p.Events {
			if e.Ev == "create" {
				return &sysEvent{Ev: "write", Step: "writing"}
			}
		}
	case "fchmod":
		return &sysEvent{Ev: "chmod", Step: "chmod"}
	case "fsync", "fdatasync":
		return &sysEvent{Ev: "fsync", Step: "chmodded"}
	case "close":
		for _, e := range p.Events {
			if e.Ev == "fsync" {
				return &sysEvent{Ev: "close", Step: "synced"}
			}
		}
	case "renameat", "renameat2", "rename":
		return &sysEvent{Ev: "rename", Step: "closed"}
	}
	return nil
}

// worksAfter: open the directory for real (leftover temporaries included) and perform a put.
func worksAfter(dir, kekPath string) string {
	kek, err := vault.KEKFromFile(kekPath)
	if err != nil {
		return err.Error()
	}
	d := vault.NewDict(0)
	d.NoSubst()
	d.Name("a")
	s, err := vault.OpenSys(dir, kek, d)
	if err != nil {
		return "open: " + err.Error()
	}
	if o := s.DoConc(vault.Call{Op: "put", Who: "su", Rules: vault.SuRules(), Name: "a", Val: "later", Fault: "none"}); o.Class != "ok" {
		return "put after restart: " + o.Class
	}
	return ""
}
