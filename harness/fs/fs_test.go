// Package fs binds spec/FileSys.tla to what the kernel sees when the real code
// saves the database (db.kv.save) or the client cache (FileCache.Write): a child
// process performs one real mutating call under strace; the system calls that
// create, write, flush, rename or remove files become a trace that TLC validates
// against FileSys (whatever names and order the writer uses), and every traced call
// is in turn made to fail (injected errno) or to be the instant of a SIGKILL (C04, C13).
package fs

import (
	"bufio"
	"bytes"
	"crypto/sha256"
	"encoding/json"
	"fmt"
	"io"
	"os"
	"os/exec"
	"path/filepath"
	"regexp"
	"sort"
	"strconv"
	"strings"
	"testing"

	"verifharness/vault"
	"verifharness/vh"
)

type scenario struct {
	Name  string
	Setup string
	Op    string
	Cache bool // FileCache.Write instead of a database operation
}

var scenarios = []scenario{
	{Name: "create", Op: "create"},
	{Name: "firstput", Op: "put:a:x"},
	{Name: "newversion", Setup: "put:a:x", Op: "put:a:y"},
	{Name: "activate", Setup: "put:a:x,put:a:y", Op: "activate:a:2"},
	{Name: "delver", Setup: "put:a:x,put:a:y", Op: "delver:a:2"},
	{Name: "delete", Setup: "put:a:x,put:b:y", Op: "delete:a"},
}

type sysEvent struct {
	Ev     string `json:"ev"`
	Path   string `json:"path"` // label of a file the save created ("f1", "f2", ...), "?" if unknown
	Mode   int    `json:"mode"`
	Bytes  int    `json:"bytes"`
	Size   int    `json:"size"`
	Result string `json:"result"`
	Fresh  string `json:"fresh"` // create: "t" iff O_EXCL or O_TRUNC guarantees an empty file
	Raw    string `json:"-"`
}

var lineRe = regexp.MustCompile(`^(\d+)\s+(\w+)\((.*)\)\s+=\s+(-?\d+|\?)(.*)$`)

type parsed struct {
	Events      []sysEvent // calls inside the MARK window that create / write / flush / rename / remove files
	Killed      bool
	KilledIn    bool   // the process died inside the MARK window (or at its closing marker)
	KillCall    string // the call at whose entry it died
	Injected    bool   // a call inside the window was made to fail
	InjCall     string
	InjRelated  bool // ... and it was one of the calls above
	InjectedAny bool // an injection happened somewhere (also outside the window)
	AtMarkEnd   bool // the injected / killed call was the closing marker itself
	LiveWrite   bool
	Notes       []string
}

type fdInfo struct {
	path string
	kind string // "new" (created by the save), "live", "livero", "dir", "other"
}

// parseStrace turns strace output into FileSys events. Nothing here knows how the writer names its files
// or in which order it works: a file is "new" if it was created (O_CREAT) after the opening marker and is
// not the live path; the live path and its directory are given.
func parseStrace(path, stateDir, live string) parsed {
	var p parsed
	f, err := os.Open(path)
	if err != nil {
		p.Notes = append(p.Notes, err.Error())
		return p
	}
	defer f.Close()
	fds := map[string]fdInfo{}
	labels := map[string]string{} // path -> label
	label := func(pth string) string {
		if l, ok := labels[pth]; ok {
			return l
		}
		return "?"
	}
	inWin, sawBegin := false, false
	sc := bufio.NewScanner(f)
	sc.Buffer(make([]byte, 1<<20), 1<<26)
	pending := map[string]string{}
	var lastCall, lastArgs string
	unq := func(s string) string { return strings.Trim(strings.TrimSpace(s), `"`) }
	for sc.Scan() {
		line := sc.Text()
		if strings.Contains(line, "+++ killed by SIGKILL +++") {
			p.Killed = true
			continue
		}
		if strings.Contains(line, "<unfinished ...>") {
			pid := strings.Fields(line)[0]
			pending[pid] = strings.Replace(line, " <unfinished ...>", "", 1)
			if m := regexp.MustCompile(`^\d+\s+(\w+)\((.*)$`).FindStringSubmatch(pending[pid]); m != nil {
				lastCall, lastArgs = m[1], m[2]
			}
			continue
		}
		if strings.Contains(line, "resumed>") {
			pid := strings.Fields(line)[0]
			if pre, ok := pending[pid]; ok {
				i := strings.Index(line, "resumed>")
				line = pre + line[i+len("resumed>"):]
				delete(pending, pid)
			}
		}
		m := lineRe.FindStringSubmatch(line)
		if m == nil {
			continue
		}
		call, args, ret, rest := m[2], m[3], m[4], m[5]
		lastCall, lastArgs = call, args
		injected := strings.Contains(rest, "(INJECTED)")
		if injected {
			p.InjectedAny = true
		}
		failed := strings.HasPrefix(ret, "-")
		if call == "write" && strings.HasPrefix(args, "2, \"MARK-BEGIN") {
			inWin, sawBegin = true, true
			continue
		}
		if call == "write" && strings.HasPrefix(args, "2, \"MARK-END") {
			inWin = false
			if injected {
				p.Injected, p.AtMarkEnd, p.InjCall = true, true, "write"
			}
			continue
		}
		// add records one call that matters; related says whether an injected failure of it concerns the save
		add := func(e sysEvent) {
			e.Raw = line
			if !inWin {
				return
			}
			if injected {
				p.Injected, p.InjRelated, p.InjCall = true, true, call
				p.Events = append(p.Events, sysEvent{Ev: "fail", Raw: line})
				return
			}
			if failed {
				p.Events = append(p.Events, sysEvent{Ev: "fail", Raw: line}) // failed by itself: no effect either
				p.Notes = append(p.Notes, "a call failed without injection: "+line)
				return
			}
			p.Events = append(p.Events, e)
		}
		if injected && inWin && !p.Injected {
			p.Injected, p.InjCall = true, call // may be refined to "related" below
		}
		switch call {
		case "openat":
			q := strings.Split(args, ", ")
			if len(q) < 3 {
				continue
			}
			pth := unq(q[1])
			flags := q[2]
			writable := strings.Contains(flags, "O_WRONLY") || strings.Contains(flags, "O_RDWR") || strings.Contains(flags, "O_TRUNC") || strings.Contains(flags, "O_APPEND")
			creat := strings.Contains(flags, "O_CREAT")
			switch {
			case pth == live:
				if writable || creat {
					if inWin {
						p.LiveWrite = true
					}
					add(sysEvent{Ev: "touchlive"})
					if !failed {
						fds[ret] = fdInfo{pth, "live"}
					}
				} else if !failed {
					fds[ret] = fdInfo{pth, "livero"}
				}
			case creat && sawBegin && inWin:
				mode := 0
				if len(q) > 3 {
					mv, _ := strconv.ParseInt(strings.TrimSpace(q[3]), 8, 32)
					mode = int(mv)
				}
				if !failed && !injected {
					labels[pth] = fmt.Sprintf("f%d", len(labels)+1)
					fds[ret] = fdInfo{pth, "new"}
				}
				fresh := "f"
				if strings.Contains(flags, "O_EXCL") || strings.Contains(flags, "O_TRUNC") {
					fresh = "t"
				}
				add(sysEvent{Ev: "create", Path: label(pth), Mode: mode, Fresh: fresh})
			case pth == stateDir || pth == strings.TrimSuffix(stateDir, "/"):
				if !failed {
					fds[ret] = fdInfo{pth, "dir"}
				}
				if injected && inWin {
					p.InjRelated = true
					p.Events = append(p.Events, sysEvent{Ev: "fail", Raw: line})
				}
			default:
				if !failed {
					if _, isNew := labels[pth]; isNew {
						fds[ret] = fdInfo{pth, "new"} // reopened
					} else {
						fds[ret] = fdInfo{pth, "other"}
					}
				}
			}
		case "write", "pwrite64":
			q := strings.SplitN(args, ", ", 2)
			fi, ok := fds[q[0]]
			if !ok {
				continue
			}
			n, _ := strconv.Atoi(ret)
			switch fi.kind {
			case "live":
				if inWin {
					p.LiveWrite = true
				}
				add(sysEvent{Ev: "touchlive"})
			case "new":
				add(sysEvent{Ev: "write", Path: label(fi.path), Bytes: n})
			}
		case "ftruncate":
			q := strings.SplitN(args, ", ", 2)
			if fi, ok := fds[q[0]]; ok && (fi.kind == "live" || fi.kind == "livero") {
				if inWin {
					p.LiveWrite = true
				}
				add(sysEvent{Ev: "touchlive"})
			} else if ok && fi.kind == "new" && len(q) > 1 && strings.TrimSpace(q[1]) == "0" {
				add(sysEvent{Ev: "truncate", Path: label(fi.path)})
			}
		case "truncate":
			q := strings.SplitN(args, ", ", 2)
			if unq(q[0]) == live {
				if inWin {
					p.LiveWrite = true
				}
				add(sysEvent{Ev: "touchlive"})
			}
		case "fchmod":
			q := strings.Split(args, ", ")
			fi, ok := fds[q[0]]
			if !ok || fi.kind != "new" {
				continue
			}
			mv, _ := strconv.ParseInt(strings.TrimSpace(q[1]), 8, 32)
			add(sysEvent{Ev: "chmod", Path: label(fi.path), Mode: int(mv)})
		case "fchmodat", "chmod":
			q := strings.Split(args, ", ")
			pi := 0
			if call == "fchmodat" {
				pi = 1
			}
			if len(q) < pi+2 {
				continue
			}
			if _, ok := labels[unq(q[pi])]; ok {
				mv, _ := strconv.ParseInt(strings.TrimSpace(q[pi+1]), 8, 32)
				add(sysEvent{Ev: "chmod", Path: label(unq(q[pi])), Mode: int(mv)})
			}
		case "fsync", "fdatasync":
			fi, ok := fds[strings.TrimSpace(args)]
			if !ok {
				continue
			}
			switch fi.kind {
			case "new":
				add(sysEvent{Ev: "fsync", Path: label(fi.path)})
			case "dir":
				add(sysEvent{Ev: "fsyncdir"})
			}
		case "close":
			fi, ok := fds[strings.TrimSpace(args)]
			if !ok {
				continue
			}
			if fi.kind == "new" {
				add(sysEvent{Ev: "close", Path: label(fi.path)})
			} else if fi.kind == "dir" && injected && inWin {
				p.InjRelated = true
				p.Events = append(p.Events, sysEvent{Ev: "fail", Raw: line})
			}
			if !injected {
				delete(fds, strings.TrimSpace(args))
			}
		case "renameat", "renameat2", "rename":
			q := strings.Split(args, ", ")
			var from, to string
			if call == "rename" {
				from, to = unq(q[0]), unq(q[1])
			} else if len(q) >= 4 {
				from, to = unq(q[1]), unq(q[3])
			}
			switch {
			case to == live:
				add(sysEvent{Ev: "rename", Path: label(from)})
				if !failed && !injected {
					delete(labels, from)
				}
			case from == live:
				add(sysEvent{Ev: "loselive"})
			default:
				if l, ok := labels[from]; ok && !failed && !injected {
					delete(labels, from)
					labels[to] = l // moved: same file under another name
				}
			}
		case "unlinkat", "unlink":
			q := strings.Split(args, ", ")
			pth := unq(q[0])
			if call == "unlinkat" && len(q) > 1 {
				pth = unq(q[1])
			}
			if pth == live {
				add(sysEvent{Ev: "loselive"})
			} else if _, ok := labels[pth]; ok {
				add(sysEvent{Ev: "unlink", Path: label(pth)})
				if !failed && !injected {
					delete(labels, pth)
				}
			}
		}
	}
	if p.Killed {
		p.KillCall = lastCall
		switch {
		case lastCall == "write" && strings.HasPrefix(lastArgs, "2, \"MARK-END"):
			p.KilledIn, p.AtMarkEnd = true, true
		case lastCall == "write" && strings.HasPrefix(lastArgs, "2, \"MARK-BEGIN"):
			p.KilledIn = false
		default:
			p.KilledIn = inWin
		}
	}
	return p
}

type childResult struct {
	Op       string           `json:"op"`
	Err      string           `json:"err"`
	Class    string           `json:"class"`
	State    []vault.SecState `json:"state"`
	Retry    string           `json:"retry"`
	After    []vault.SecState `json:"after"`
	OpenErr  string           `json:"openerr"`
	CacheGot string           `json:"cachegot"`
	LiveSize int              `json:"livesize"`
}

type runner struct {
	t     *testing.T
	child string
	kek   string
	base  string
}

func (r *runner) run(dir string, sc scenario, inject string, withSetup bool) (childResult, parsed, error) {
	args := []string{"-f", "-o", filepath.Join(dir, "strace.txt"), "-s", "16",
		"-e", "trace=openat,write,pwrite64,ftruncate,truncate,fchmod,fchmodat,chmod,fsync,fdatasync,close,renameat,renameat2,rename,unlinkat,unlink"}
	if inject != "" {
		args = append(args, "-e", "inject="+inject)
	}
	args = append(args, r.child, "-dir", dir, "-kek", r.kek, "-op", sc.Op)
	if withSetup {
		args = append(args, "-setup", sc.Setup)
	}
	cmd := exec.Command("strace", args...)
	var out bytes.Buffer
	cmd.Stdout = &out
	cmd.Stderr = io.Discard
	err := cmd.Run()
	var res childResult
	for _, ln := range strings.Split(out.String(), "\n") {
		if strings.HasPrefix(ln, "{") {
			json.Unmarshal([]byte(ln), &res)
		}
	}
	live := filepath.Join(dir, "db", "state.db")
	sd := filepath.Join(dir, "db")
	if sc.Cache {
		live = filepath.Join(dir, "cache", "secrets.json")
		sd = filepath.Join(dir, "cache")
	}
	p := parseStrace(filepath.Join(dir, "strace.txt"), sd, live)
	return res, p, err
}

func copyDir(t *testing.T, from, to string) {
	filepath.Walk(from, func(p string, fi os.FileInfo, err error) error {
		if err != nil {
			return nil
		}
		rel, _ := filepath.Rel(from, p)
		if fi.IsDir() {
			os.MkdirAll(filepath.Join(to, rel), 0o700)
			return nil
		}
		b, _ := os.ReadFile(p)
		os.WriteFile(filepath.Join(to, rel), b, fi.Mode())
		return nil
	})
}

func hashFile(p string) string {
	b, err := os.ReadFile(p)
	if err != nil {
		return "absent"
	}
	return fmt.Sprintf("%x", sha256.Sum256(b))
}

// openAndObserve: what a server restarted on this directory would serve.
func openAndObserve(dir, kekPath string) ([]vault.SecState, error) {
	kek, err := vault.KEKFromFile(kekPath)
	if err != nil {
		return nil, err
	}
	if _, err := os.Stat(filepath.Join(dir, "db", "state.db")); err != nil {
		return nil, nil // no database yet
	}
	// open a COPY so that the inspection never changes the directory under test
	tmp, _ := os.MkdirTemp(filepath.Dir(dir), "inspect-")
	defer os.RemoveAll(tmp)
	copyDir(nil, dir, tmp)
	d := vault.NewDict(0)
	d.NoSubst()
	d.Name("a")
	d.Name("b")
	for _, tok := range []string{"x", "y", "later"} {
		d.Val(tok)
	}
	s, err := vault.OpenSys(tmp, kek, d)
	if err != nil {
		return nil, err
	}
	st, notes := s.Observe(false)
	if len(notes) > 0 {
		return st, fmt.Errorf("%v", notes)
	}
	return st, nil
}

func key(st []vault.SecState) string { return vault.StateKey(st, false) }

func first(b []byte) string {
	if len(b) > 160 {
		return string(b[:160]) + "..."
	}
	return string(b)
}

func listDir(dir string) []string {
	ents, _ := os.ReadDir(dir)
	var out []string
	for _, e := range ents {
		fi, _ := e.Info()
		out = append(out, fmt.Sprintf("%s(%o)", e.Name(), fi.Mode().Perm()))
	}
	sort.Strings(out)
	return out
}

// TestAtomicFile: dry runs (the calls as the kernel saw them), then every injection point.
func TestAtomicFile(t *testing.T) {
	dir := vh.Dir(t)
	res := vh.NewResult(t, "fs-atomic")
	child := os.Getenv("VERIF_CHILD")
	if child == "" {
		t.Fatal("VERIF_CHILD not set")
	}
	root := dir
	if fi, err := os.Stat("/dev/shm"); err == nil && fi.IsDir() {
		root, _ = os.MkdirTemp("/dev/shm", "verif-fs-")
		defer os.RemoveAll(root)
	}
	kek := filepath.Join(os.Getenv("VERIF_ROOT"), "golden", "test-kek.cleartext.json")
	r := &runner{t: t, child: child, kek: kek}
	w := vh.NewNDJSON(t, filepath.Join(dir, "trace.ndjson"))
	defer w.Close()
	only := os.Getenv("VERIF_SCENARIOS")
	cases := 0
	emit := func(p parsed, size int, result string) {
		w.Put(sysEvent{Ev: "begin", Size: size})
		for _, e := range p.Events {
			w.Put(e)
		}
		w.Put(sysEvent{Ev: "end", Result: result})
	}
	scs := append([]scenario{}, scenarios...)
	scs = append(scs, scenario{Name: "cachewrite", Op: "cachewrite:", Cache: true})
	for _, sc := range scs {
		if only != "" && !strings.Contains(","+only+",", ","+sc.Name+",") {
			continue
		}
		// base directory: state before the call
		base := filepath.Join(root, "base-"+sc.Name)
		os.MkdirAll(base, 0o700)
		live := filepath.Join(base, "db", "state.db")
		if sc.Cache {
			os.MkdirAll(filepath.Join(base, "cache"), 0o700)
			live = filepath.Join(base, "cache", "secrets.json")
			os.WriteFile(live, []byte(`{"old":{"secret":{"Value":"b2xk","Version":1},"lastAccess":"0"}}`), 0o600)
			payload := filepath.Join(base, "payload.json")
			os.WriteFile(payload, []byte(`{"new":{"secret":{"Value":"`+strings.Repeat("bmV3", 300)+`","Version":2},"lastAccess":"5"}}`), 0o600)
			sc.Op = "cachewrite:" + payload
		} else if sc.Name != "create" {
			out, err := exec.Command(child, "-dir", base, "-kek", kek, "-setup", sc.Setup).CombinedOutput()
			if err != nil {
				t.Fatalf("setup %s: %v %s", sc.Name, err, out)
			}
		}
		var pre []vault.SecState
		oldCache, _ := os.ReadFile(live)
		if !sc.Cache {
			var err error
			pre, err = openAndObserve(base, kek)
			if err != nil {
				t.Fatalf("pre-state %s: %v", sc.Name, err)
			}
		}
		fresh := func(tag string) string {
			d := filepath.Join(root, sc.Name+"-"+tag)
			os.RemoveAll(d)
			copyDir(t, base, d)
			if sc.Cache {
				sc.Op = "cachewrite:" + filepath.Join(d, "payload.json")
			}
			return d
		}
		// ---- dry run: the calls as the kernel saw them
		d0 := fresh("dry")
		cr, p, err := r.run(d0, sc, "", false)
		if err != nil || cr.Class != "ok" || cr.OpenErr != "" {
			t.Fatalf("dry run %s failed: %v %+v", sc.Name, err, cr)
		}
		if len(p.Events) < 2 {
			t.Fatalf("dry run %s: strace saw only %d file calls (tool trouble)", sc.Name, len(p.Events))
		}
		liveRel := strings.TrimPrefix(live, base)
		// the size of the new content is what the live file measures right after the call (it differs from run to run:
		// key identifiers of varying length); only runs that re-bind the live name look at it
		emit(p, max(cr.LiveSize, 1), "ok")
		var post []vault.SecState
		postCache := ""
		if sc.Cache {
			postCache = cr.CacheGot
		} else {
			post, err = openAndObserve(d0, kek)
			if err != nil {
				res.Violate("post-open "+sc.Name, fmt.Sprintf("after a clean %s the database does not reopen: %v", sc.Name, err), nil)
				continue
			}
			if key(post) == key(pre) && sc.Name != "create" {
				t.Fatalf("scenario %s does not change the state", sc.Name)
			}
		}
		for _, e := range listDir(filepath.Dir(filepath.Join(d0, liveRel))) {
			if !strings.HasSuffix(e, "(600)") {
				res.Violate("mode "+sc.Name, "file not owner-only after "+sc.Name+": "+e, nil)
			}
		}
		res.Sample(map[string]any{"scenario": sc.Name, "syscalls": func() []string {
			var s []string
			for _, e := range p.Events {
				s = append(s, e.Ev)
			}
			return s
		}()})
		// ---- every injection point: each traced kind of call, the N-th occurrence for every N the save reaches
		type inj struct{ call, fault string }
		var injs []inj
		for _, c := range []string{"openat", "write", "fchmod", "fsync", "close", "renameat"} {
			injs = append(injs, inj{c, "error=EIO"}, inj{c, "signal=KILL"})
		}
		injs = append(injs, inj{"write", "error=ENOSPC"}, inj{"renameat", "error=EXDEV"}, inj{"openat", "error=EMFILE"}, inj{"fsync", "error=ENOSPC"})
		seen := map[string]bool{}
		for _, in := range injs {
			misses := 0
			for n := 1; n <= 40 && misses < 3; n++ {
				d := fresh(fmt.Sprintf("%s-%s-%d", in.call, strings.ReplaceAll(in.fault, "=", ""), n))
				cr, p, _ := r.run(d, sc, fmt.Sprintf("%s:%s:when=%d", in.call, in.fault, n), false)
				kill := strings.HasPrefix(in.fault, "signal")
				if !p.InjectedAny && !p.Killed {
					misses++ // n is beyond the number of such calls
					os.RemoveAll(d)
					continue
				}
				if (kill && !p.KilledIn) || (!kill && (!p.Injected || p.AtMarkEnd)) {
					os.RemoveAll(d) // the fault hit a call outside the operation (runtime, setup, marker): not our case
					continue
				}
				ck := fmt.Sprintf("%s/%s/%s/after-%d-calls", sc.Name, in.call, in.fault, len(p.Events))
				if seen[ck] {
					os.RemoveAll(d)
					continue
				}
				seen[ck] = true
				cases++
				evs := []string{}
				for _, e := range p.Events {
					evs = append(evs, e.Ev)
				}
				where := fmt.Sprintf("%s: %s at the %d. %s of the process, after the calls [%s]", sc.Name, in.fault, n, in.call, strings.Join(evs, " "))
				rp := map[string]any{"scenario": sc.Name, "inject": in, "n": n}
				liveD := filepath.Join(d, liveRel)
				if kill {
					// killed at that instant: what is left opens and is the complete pre- or the complete post-call state
					if sc.Cache {
						got, _ := os.ReadFile(liveD)
						if !(bytes.Equal(got, oldCache) || string(got) == postCache) {
							res.Violate("kill-cache "+ck, "after "+where+" the cache file is neither the old nor the new document", rp)
						}
						// whatever the killed write left behind must not leak into a later, shorter document
						short := []byte(`{"s":{"secret":{"Value":"cw==","Version":3},"lastAccess":"9"}}`)
						sp := filepath.Join(d, "short.json")
						os.WriteFile(sp, short, 0o600)
						if out, err := exec.Command(child, "-dir", d, "-op", "cachewrite:"+sp).CombinedOutput(); err != nil || !strings.Contains(string(out), `"class":"ok"`) {
							res.Violate("kill-cache-after "+ck, fmt.Sprintf("after %s a later cache write fails: %v %s", where, err, first(out)), rp)
						} else if got, _ := os.ReadFile(liveD); !bytes.Equal(got, short) {
							res.Violate("kill-cache-after "+ck, fmt.Sprintf("after %s a later write of a shorter document leaves %d bytes in the cache file, want exactly the %d bytes written: %q", where, len(got), len(short), first(got)), rp)
						}
					} else {
						st, err := openAndObserve(d, kek)
						if err != nil {
							res.Violate("kill-open "+ck, fmt.Sprintf("after %s the database does not open: %v; directory: %v", where, err, listDir(filepath.Join(d, "db"))), rp)
						} else if key(st) != key(pre) && key(st) != key(post) {
							res.Violate("kill-state "+ck, fmt.Sprintf("after %s the database holds {%s}: neither the pre-call state {%s} nor the post-call state {%s}", where, key(st), key(pre), key(post)), rp)
						} else if msg := worksAfter(d, kek); msg != "" {
							res.Violate("kill-after "+ck, "after "+where+" a restarted server cannot continue: "+msg, rp)
						}
					}
					os.RemoveAll(d)
					continue
				}
				// injected error. If the call reports an error, disk and served state are exactly the pre-call state and later
				// calls succeed; if the writer tolerates the failure and reports success, they are the post-call state.
				emit(p, max(cr.LiveSize, 1), cr.Class)
				switch {
				case cr.Class != "ok" && cr.Class != "error":
					res.Violate("err-class "+ck, fmt.Sprintf("%s: the call reported %q", where, cr.Class), rp)
				case sc.Cache:
					if cr.Class == "error" {
						if got, err := os.ReadFile(filepath.Join(d, "after-error.cache")); err != nil || !bytes.Equal(got, oldCache) {
							res.Violate("err-disk "+ck, where+": the write reported an error but the cache file is no longer the old document", rp)
						}
						if cr.Retry != "ok" {
							res.Violate("err-retry "+ck, where+": the next write failed too: "+cr.Retry, rp)
						}
					} else if cr.CacheGot != postCache {
						res.Violate("ok-disk "+ck, where+": the write reported success but the cache file is not the new document", rp)
					}
				case sc.Name == "create":
					if cr.Class == "error" && cr.Retry != "ok" {
						res.Violate("err-retry "+ck, where+": opening again failed: "+cr.Retry, rp)
					}
				case cr.Class == "error":
					if key(cr.State) != key(pre) {
						res.Violate("err-served "+ck, fmt.Sprintf("%s: the call reported an error but the running server now serves {%s}, want the pre-call state {%s}", where, key(cr.State), key(pre)), rp)
					}
					if st, err := openAndObserve(filepath.Join(d, "after-error"), kek); err != nil {
						res.Violate("err-disk-open "+ck, fmt.Sprintf("%s: the call reported an error and the database file no longer opens: %v", where, err), rp)
					} else if key(st) != key(pre) {
						res.Violate("err-disk "+ck, fmt.Sprintf("%s: the call reported an error but the database file holds {%s}, want the pre-call state {%s}", where, key(st), key(pre)), rp)
					}
					if cr.Retry != "ok" {
						res.Violate("err-retry "+ck, fmt.Sprintf("%s: retrying the call gave %q, want success", where, cr.Retry), rp)
					} else if key(cr.After) != key(post) {
						res.Violate("err-after "+ck, fmt.Sprintf("%s: after the retry the server serves {%s}, want {%s}", where, key(cr.After), key(post)), rp)
					} else if st, err := openAndObserve(d, kek); err != nil || key(st) != key(post) {
						// the retry was acknowledged: it must be in the file (what a restart would load), not only in memory
						res.Violate("err-after-disk "+ck, fmt.Sprintf("%s: the retry succeeded and the server serves the post-call state, but the database file holds {%s} (%v), want {%s}", where, key(st), err, key(post)), rp)
					}
				default: // reported success although a call failed: then it must really have happened
					if key(cr.State) != key(post) {
						res.Violate("ok-served "+ck, fmt.Sprintf("%s: the call reported success but the running server serves {%s}, want the post-call state {%s}", where, key(cr.State), key(post)), rp)
					}
					if st, err := openAndObserve(d, kek); err != nil || key(st) != key(post) {
						res.Violate("ok-disk "+ck, fmt.Sprintf("%s: the call reported success but the database file does not hold the post-call state (%v)", where, err), rp)
					}
				}
				os.RemoveAll(d)
			}
		}
		os.RemoveAll(base)
	}
	res.Set("cases", cases)
	res.Write(t)
}

// worksAfter: a server restarted on the directory (leftover temporaries included) keeps working: a put (the file
// grows), deletes (the file shrinks below what any leftover may hold), each followed by a reopen that must find exactly
// the state the calls produced.
func worksAfter(dir, kekPath string) string {
	kek, err := vault.KEKFromFile(kekPath)
	if err != nil {
		return err.Error()
	}
	d := vault.NewDict(0)
	d.NoSubst()
	d.Name("a")
	d.Name("b")
	for _, tok := range []string{"x", "y", "later"} {
		d.Val(tok)
	}
	s, err := vault.OpenSys(dir, kek, d)
	if err != nil {
		return "open: " + err.Error()
	}
	call := func(op, name, val string) string {
		if o := s.DoConc(vault.Call{Op: op, Who: "su", Rules: vault.SuRules(), Name: name, Val: val, Fault: "none"}); o.Class != "ok" {
			return op + " " + name + " after restart: " + o.Class
		}
		return ""
	}
	reopened := func(what string) string {
		want, _ := s.Observe(false)
		got, err := openAndObserve(dir, kekPath)
		if err != nil {
			return "reopen after " + what + ": " + err.Error()
		}
		if key(got) != key(want) {
			return fmt.Sprintf("reopen after %s: file holds {%s}, server serves {%s}", what, key(got), key(want))
		}
		return ""
	}
	if m := call("put", "a", "later"); m != "" {
		return m
	}
	if m := reopened("a put"); m != "" {
		return m
	}
	for _, n := range []string{"a", "b"} {
		if m := call("delete", n, "Nil"); m != "" {
			return m
		}
	}
	return reopened("deleting everything")
}
