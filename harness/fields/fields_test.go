// Package fields binds spec/Fields.tla to the real struct-tag plumbing: struct shapes are built at run time
// with reflect.StructOf, pushed through ParseFields / NewStore / Fields.Apply against a scripted service, and
// everything observable is recorded as one trace line per shape for TLC (FieldsTrace).
package fields

import (
	"bytes"
	"context"
	"errors"
	"fmt"
	"path/filepath"
	"reflect"
	"sort"
	"sync"
	"testing"
	"time"

	"github.com/tailscale/setec/client/setec"
	"github.com/tailscale/setec/types/api"
	"verifharness/vh"
)

// BinVal implements encoding.BinaryUnmarshaler on its pointer; it rejects values starting with 0xff.
type BinVal struct{ Data []byte }

func (b *BinVal) UnmarshalBinary(d []byte) error {
	if len(d) > 0 && d[0] == 0xff {
		return errors.New("BinVal: rejected")
	}
	b.Data = bytes.Clone(d)
	return nil
}

type JS struct{ A int }
type EmbN1 struct {
	Inner string `setec:"n1"`
}
type EmbN2 struct {
	Inner2 string `setec:"n2"`
}

var kinds = []string{"string", "bytes", "secret", "binval", "binptr", "jsonstruct", "jsonint", "float", "untagged", "emptyname", "emptyjson", "embedded"}
var baseNames = []string{"n1", "n2"}
var prefixes = []string{"", "p", "p/q"}
var forms = []string{"obj", "num", "junk", "missing", "trail"}

type field struct {
	Kind string `json:"kind"`
	Name string `json:"name"`
}

func valueOf(form string, ver int) []byte {
	switch form {
	case "obj":
		return []byte(fmt.Sprintf(`{"A":%d}`, 40+ver))
	case "num":
		return []byte(fmt.Sprintf(`%d`, 70+ver))
	case "junk":
		return []byte(fmt.Sprintf("\xff{not json %d", ver))
	case "trail": // a complete JSON number followed by more data: not one well-formed JSON document
		return []byte(fmt.Sprintf(`%d {"A":%d}`, 70+ver, 40+ver))
	}
	return nil
}

type svc struct {
	mu   sync.Mutex
	form map[string]string
	ver  map[string]int
	reqs []string
}

func (s *svc) get(name string) (*api.SecretValue, error) {
	f, ok := s.form[name]
	if !ok || f == "missing" {
		return nil, api.ErrNotFound
	}
	return &api.SecretValue{Value: valueOf(f, s.ver[name]), Version: api.SecretVersion(s.ver[name])}, nil
}
func (s *svc) Get(ctx context.Context, name string) (*api.SecretValue, error) {
	s.mu.Lock()
	defer s.mu.Unlock()
	s.reqs = append(s.reqs, name)
	return s.get(name)
}
func (s *svc) GetIfChanged(ctx context.Context, name string, old api.SecretVersion) (*api.SecretValue, error) {
	s.mu.Lock()
	defer s.mu.Unlock()
	sv, err := s.get(name)
	if err == nil && sv.Version == old {
		return nil, api.ErrValueNotChanged
	}
	return sv, err
}

func structFor(shape []field) reflect.Value {
	var fs []reflect.StructField
	for i, f := range shape {
		sf := reflect.StructField{Name: fmt.Sprintf("F%d", i)}
		tag := fmt.Sprintf(`setec:%q`, f.Name)
		switch f.Kind {
		case "string":
			sf.Type = reflect.TypeOf("")
		case "bytes":
			sf.Type = reflect.TypeOf([]byte(nil))
		case "secret":
			sf.Type = reflect.TypeOf(setec.Secret(nil))
		case "binval":
			sf.Type = reflect.TypeOf(BinVal{})
		case "binptr":
			sf.Type = reflect.TypeOf(&BinVal{})
		case "jsonstruct":
			sf.Type, tag = reflect.TypeOf(JS{}), fmt.Sprintf(`setec:"%s,json"`, f.Name)
		case "jsonint":
			sf.Type, tag = reflect.TypeOf(0), fmt.Sprintf(`setec:"%s,json"`, f.Name)
		case "float":
			sf.Type = reflect.TypeOf(float64(0))
		case "untagged":
			sf.Type, tag = reflect.TypeOf(""), `json:"x"`
		case "emptyname":
			sf.Type, tag = reflect.TypeOf(""), `setec:""`
		case "emptyjson":
			sf.Type, tag = reflect.TypeOf(0), `setec:",json"`
		case "embedded":
			sf.Anonymous, tag = true, ""
			if f.Name == "n1" {
				sf.Type, sf.Name = reflect.TypeOf(EmbN1{}), "EmbN1"
			} else {
				sf.Type, sf.Name = reflect.TypeOf(EmbN2{}), "EmbN2"
			}
		}
		sf.Tag = reflect.StructTag(tag)
		fs = append(fs, sf)
	}
	v := reflect.New(reflect.StructOf(fs))
	for i, f := range shape {
		if f.Kind == "untagged" {
			v.Elem().Field(i).SetString("sentinel")
		}
		if !prefill {
			continue
		}
		// what the struct held before (a development placeholder, the values of an earlier construction) is replaced
		fv := v.Elem().Field(i)
		switch f.Kind {
		case "string", "emptyname":
			fv.SetString(placeholder)
		case "bytes":
			fv.SetBytes([]byte(placeholder))
		case "secret":
			fv.Set(reflect.ValueOf(setec.StaticSecret(placeholder)))
		case "binval":
			fv.Set(reflect.ValueOf(BinVal{Data: []byte(placeholder)}))
		case "binptr":
			fv.Set(reflect.ValueOf(&BinVal{Data: []byte(placeholder)}))
		case "jsonstruct":
			fv.Set(reflect.ValueOf(JS{A: 999}))
		case "jsonint", "emptyjson":
			fv.SetInt(999)
		case "float":
			fv.SetFloat(999)
		case "embedded":
			fv.Field(0).SetString(placeholder)
		}
	}
	return v
}

// prefill: the struct handed to ParseFields / NewStore already holds something in every tagged field (cases run one at a time)
var prefill bool

const placeholder = "placeholder"

// was(fv-as-text): the field is as the harness left it before construction
func isBefore(got string) bool {
	if prefill {
		return got == placeholder
	}
	return got == ""
}

func join(prefix, name string) string {
	if prefix == "" {
		return name
	}
	return prefix + "/" + name
}

type line struct {
	Ev       string              `json:"ev"`
	Mode     string              `json:"mode"`
	Shape    []field             `json:"shape"`
	Prefix   string              `json:"prefix"`
	Forms    []map[string]string `json:"forms"`
	Parse    string              `json:"parse"`
	Names    []string            `json:"names"`
	Requests []string            `json:"requests"`
	Outcome  []string            `json:"outcome"`
	Err      string              `json:"err"`
	Alias    string              `json:"alias"`
	Live     string              `json:"live"`
	Pre      string              `json:"pre"` // "t": every tagged field held a placeholder before construction
	Notes    []string            `json:"notes,omitempty"`
}

func tf(b bool) string {
	if b {
		return "t"
	}
	return "f"
}

// observe reports, per field, whether it holds the value of version `ver` of its secret ("set"), is as it was
// before ("untouched"), or something else.
func observe(v reflect.Value, shape []field, prefix string, s *svc, ver int, notes *[]string) []string {
	out := make([]string, len(shape))
	for i, f := range shape {
		fv := v.Elem().Field(i)
		full := join(prefix, f.Name)
		want := valueOf(s.form[full], ver)
		st := "other"
		switch f.Kind {
		case "string", "emptyname":
			if isBefore(fv.String()) {
				st = "untouched"
			} else if want != nil && fv.String() == string(want) {
				st = "set"
			}
		case "untagged":
			if fv.String() == "sentinel" {
				st = "untouched"
			}
		case "bytes":
			if (!prefill && fv.Len() == 0) || (prefill && string(fv.Bytes()) == placeholder) {
				st = "untouched"
			} else if want != nil && bytes.Equal(fv.Bytes(), want) {
				st = "set"
			}
		case "secret":
			h := fv.Interface().(setec.Secret)
			if h == nil || (prefill && string(h.Get()) == placeholder) {
				st = "untouched"
			} else if want != nil && bytes.Equal(h.Get(), valueOf(s.form[full], s.ver[full])) {
				st = "set" // a handle always yields the current value
			}
		case "binval":
			b := fv.Interface().(BinVal)
			if (!prefill && b.Data == nil) || (prefill && string(b.Data) == placeholder) {
				st = "untouched"
			} else if want != nil && bytes.Equal(b.Data, want) {
				st = "set"
			}
		case "binptr":
			b := fv.Interface().(*BinVal)
			if (!prefill && (b == nil || b.Data == nil)) || (prefill && b != nil && string(b.Data) == placeholder) {
				st = "untouched" // (a nil pointer is allocated before decoding; an empty value counts as untouched)
			} else if want != nil && bytes.Equal(b.Data, want) {
				st = "set"
			}
		case "jsonstruct":
			j := fv.Interface().(JS)
			if (!prefill && j.A == 0) || (prefill && j.A == 999) {
				st = "untouched"
			} else if j.A == 40+ver {
				st = "set"
			}
		case "jsonint", "emptyjson":
			if (!prefill && fv.Int() == 0) || (prefill && fv.Int() == 999) {
				st = "untouched"
			} else if fv.Int() == int64(70+ver) {
				st = "set"
			}
		case "float":
			if (!prefill && fv.Float() == 0) || (prefill && fv.Float() == 999) {
				st = "untouched"
			}
		case "embedded":
			in := fv.Field(0).String()
			if isBefore(in) {
				st = "untouched"
			} else if want != nil && in == string(want) {
				st = "set"
			}
		}
		if st == "other" {
			*notes = append(*notes, fmt.Sprintf("field %d (%s %q) holds %v, which is neither its secret's value nor what it held before", i, f.Kind, full, fv.Interface()))
		}
		out[i] = st
	}
	return out
}

func classify(err error) string {
	if err == nil {
		return "ok"
	}
	return "rejected" // why, and in which words, is not part of the property
}

// runCase pushes one shape through the real code. mode "apply": ParseFields + Fields.Apply on an existing store
// with lookups; mode "newstore": StoreConfig.Structs (forms never "missing": construction would wait for them).
// slowConstructions counts constructions that waited for a secret; after a few the remaining
// construction cases are skipped (the verdict is already a violation, and each costs 4 s).
var slowConstructions int

func runCase(mode string, shape []field, prefix string, fm map[string]string) (ln line) {
	ln = line{Ev: "case", Mode: mode, Shape: shape, Prefix: prefix, Names: []string{}, Requests: []string{}, Outcome: []string{}, Err: "f", Alias: "f", Live: "t", Pre: tf(prefill)}
	s := &svc{form: map[string]string{"base": "num"}, ver: map[string]int{"base": 1}}
	var fnames []string
	for n := range fm {
		fnames = append(fnames, n)
	}
	sort.Strings(fnames)
	for _, n := range fnames {
		s.form[n], s.ver[n] = fm[n], 1
		ln.Forms = append(ln.Forms, map[string]string{"name": n, "form": fm[n]})
	}
	v := structFor(shape)
	var notes []string
	defer func() {
		if r := recover(); r != nil {
			ln.Parse = fmt.Sprintf("panic: %v", r)
		}
		ln.Notes = notes
	}()
	var st *setec.Store
	var applyErr error
	logf := func(string, ...any) {}
	if mode == "apply" || mode == "applyc" {
		var err error
		st, err = setec.NewStore(context.Background(), setec.StoreConfig{Client: s, Secrets: []string{"base"}, AllowLookup: true, PollInterval: -1, Logf: logf})
		if err != nil {
			panic(err)
		}
		defer st.Close()
		s.reqs = nil
		fs, err := setec.ParseFields(v.Interface(), prefix)
		ln.Parse = classify(err)
		if err != nil {
			ln.Requests = append(ln.Requests, s.reqs...)
			return ln
		}
		ln.Names = append(ln.Names, fs.Secrets()...)
		actx := context.Background()
		if mode == "applyc" {
			// the secrets that exist are already known to the store (looked up before); Apply then runs under a context that is
			// already over: the lookups of the missing ones fail, the fields of the known ones are filled all the same
			for _, n := range fs.Secrets() {
				if fm[n] != "missing" {
					st.LookupSecret(context.Background(), n)
				}
			}
			c, cancel := context.WithCancel(context.Background())
			cancel()
			actx = c
		}
		// what a caller does with the list it was handed (sorting it for a StoreConfig, say) is its own business
		if got := fs.Secrets(); len(got) > 1 {
			for i, j := 0, len(got)-1; i < j; i, j = i+1, j-1 {
				got[i], got[j] = got[j], got[i]
			}
			got[0] = "scribbled/" + got[0]
		}
		// (the service of this driver answers at once: ten seconds are for a lookup that waits for something that never comes)
		lctx, lcancel := context.WithTimeout(actx, 10*time.Second)
		applyErr = fs.Apply(lctx, st)
		if lctx.Err() != nil && actx.Err() == nil {
			notes = append(notes, "Apply blocked for 10 s against a service that answers every request at once")
		}
		lcancel()
	} else {
		// every secret the fields name exists, so construction never has to wait; the deadline only keeps a
		// wrongly requested (non-existent) secret from retrying forever
		ctx, cancel := context.WithTimeout(context.Background(), 4*time.Second)
		defer cancel()
		t0 := time.Now()
		var err error
		st, err = setec.NewStore(ctx, setec.StoreConfig{Client: s, Structs: []setec.Struct{{Value: v.Interface(), Prefix: prefix}}, AllowLookup: true, PollInterval: -1, Logf: logf})
		if d := time.Since(t0); d > 3500*time.Millisecond {
			slowConstructions++
			notes = append(notes, fmt.Sprintf("construction waited %v for secrets (requested %v)", d.Round(time.Millisecond), s.reqs))
		}
		if st != nil {
			defer st.Close()
		}
		// the names the fields ask for are what construction requested from the service
		if fs, perr := setec.ParseFields(v.Interface(), prefix); perr != nil {
			ln.Parse = classify(perr)
			if err == nil {
				notes = append(notes, "NewStore accepted a struct that ParseFields rejects")
			}
			ln.Requests = append(ln.Requests, s.reqs...)
			return ln
		} else {
			ln.Parse = "ok"
			ln.Names = append(ln.Names, fs.Secrets()...)
		}
		applyErr = err
	}
	s.mu.Lock()
	seen := map[string]bool{}
	asked := map[string]int{}
	for _, r := range s.reqs {
		asked[r]++
		if !seen[r] {
			seen[r] = true
			ln.Requests = append(ln.Requests, r)
		}
	}
	s.mu.Unlock()
	if mode != "newstore" {
		// C16: a failed lookup is reported, not repeated -- Apply asks for a name at most once per field that names it
		// (a lookup that succeeded installs the secret, the fields after it find it in the store)
		want := map[string]int{}
		for _, n := range ln.Names {
			want[n]++
		}
		for n, k := range asked {
			if k > want[n] {
				notes = append(notes, fmt.Sprintf("Apply asked the service %d times for %q, which %d field(s) name: a lookup that had failed was repeated without anybody asking for it", k, n, want[n]))
			}
		}
	}
	ln.Err = tf(applyErr != nil)
	ln.Outcome = observe(v, shape, prefix, s, 1, &notes)
	if st == nil {
		return ln // construction reported the failure; the fields were still inspected
	}
	// copy semantics of []byte fields: scribble over each populated one, the store must not notice
	for i, f := range shape {
		if f.Kind == "bytes" && ln.Outcome[i] == "set" {
			fv := v.Elem().Field(i)
			b := fv.Bytes()
			for k := range b {
				b[k] = 'Z'
			}
			full := join(prefix, f.Name)
			if h, err := st.LookupSecret(context.Background(), full); err == nil && !bytes.Equal(h.Get(), valueOf(s.form[full], 1)) {
				ln.Alias = "t"
				notes = append(notes, fmt.Sprintf("after overwriting []byte field %d the store serves %q for %q", i, h.Get(), full))
			}
			// ... and it is a PRIVATE copy: no other field may have changed with it
			var n2 []string
			during := observe(v, shape, prefix, s, 1, &n2)
			for j := range during {
				if j != i && during[j] != ln.Outcome[j] {
					ln.Alias = "t"
					notes = append(notes, fmt.Sprintf("overwriting []byte field %d changed field %d (%s %q): the fields share one buffer", i, j, shape[j].Kind, join(prefix, shape[j].Name)))
				}
			}
			copy(b, valueOf(s.form[full], 1))
		}
	}
	// handles are live, copies are not: install version 2 of everything and look again
	s.mu.Lock()
	for n := range s.ver {
		s.ver[n] = 2
	}
	s.mu.Unlock()
	if err := st.Refresh(context.Background()); err != nil {
		notes = append(notes, "Refresh failed: "+err.Error())
	}
	after := observe(v, shape, prefix, s, 1, &notes) // copies must still hold version 1; handles report the current one
	for i := range after {
		if after[i] != ln.Outcome[i] {
			ln.Live = "f"
			notes = append(notes, fmt.Sprintf("after a poll installed version 2, field %d (%s) went from %s to %s", i, shape[i].Kind, ln.Outcome[i], after[i]))
		}
	}
	return ln
}

// noLookup: Apply on a store that does not allow lookups (C16): every field naming a secret the store does not have is
// an error, nothing is asked of the service, the fields of the secrets it has are filled.
func noLookup(shape []field, prefix string) []string {
	var notes []string
	s := &svc{form: map[string]string{"base": "num", join(prefix, "n1"): "num", join(prefix, "n2"): "obj"}, ver: map[string]int{"base": 1, join(prefix, "n1"): 1, join(prefix, "n2"): 1}}
	defer func() {
		if r := recover(); r != nil {
			notes = append(notes, fmt.Sprintf("with lookups disabled Apply panics: %v", r))
		}
	}()
	// the store knows n1 (declared), not n2
	st, err := setec.NewStore(context.Background(), setec.StoreConfig{Client: s, Secrets: []string{"base", join(prefix, "n1")}, PollInterval: -1, Logf: func(string, ...any) {}})
	if err != nil {
		panic(err)
	}
	defer st.Close()
	v := structFor(shape)
	fs, err := setec.ParseFields(v.Interface(), prefix)
	if err != nil {
		return nil
	}
	s.mu.Lock()
	s.reqs = nil
	s.mu.Unlock()
	unknown := false
	for _, n := range fs.Secrets() {
		unknown = unknown || n == join(prefix, "n2")
	}
	lctx, lcancel := context.WithTimeout(context.Background(), 10*time.Second)
	defer lcancel()
	aerr := fs.Apply(lctx, st)
	if lctx.Err() != nil {
		notes = append(notes, "with lookups disabled Apply blocked for 10 s")
	}
	s.mu.Lock()
	reqs := append([]string(nil), s.reqs...)
	s.mu.Unlock()
	if len(reqs) > 0 {
		notes = append(notes, fmt.Sprintf("with lookups disabled Apply asked the service for %v", reqs))
	}
	if unknown && aerr == nil {
		notes = append(notes, "with lookups disabled Apply reports no error although a field names a secret the store does not have")
	}
	if !unknown && aerr != nil && onlyDecodable(shape) {
		notes = append(notes, fmt.Sprintf("with lookups disabled Apply fails although the store has every secret the fields name: %v", aerr))
	}
	if st.Secret(join(prefix, "n1")) == nil {
		notes = append(notes, "with lookups disabled the declared secret has no handle after Apply")
	}
	return notes
}

// onlyDecodable: every field naming n1 (a JSON number) can take that value
func onlyDecodable(shape []field) bool {
	for _, f := range shape {
		switch f.Kind {
		case "jsonstruct", "binval", "binptr":
			if f.Kind == "jsonstruct" {
				return false
			}
		}
	}
	return true
}

func shapes(maxLen int) [][]field {
	out := [][]field{{}}
	var rec func(cur []field)
	rec = func(cur []field) {
		if len(cur) == maxLen {
			return
		}
		for _, k := range kinds {
			for _, n := range baseNames {
				if (k == "untagged" || k == "float" || k == "emptyname" || k == "emptyjson") && n != "n1" {
					continue // the name plays no role
				}
				next := append(append([]field(nil), cur...), field{k, n})
				if k == "embedded" { // a struct type can embed a given type once
					dup := false
					for _, c := range cur {
						if c.Kind == "embedded" && c.Name == n {
							dup = true
						}
					}
					if dup {
						continue
					}
				}
				out = append(out, next)
				rec(next)
			}
		}
	}
	rec(nil)
	return out
}

func TestFields(t *testing.T) {
	dir := vh.Dir(t)
	res := vh.NewResult(t, "fields")
	maxLen := vh.EnvInt("VERIF_MAXFIELDS", 2)
	nrand := vh.EnvInt("VERIF_RANDOM", 300)
	w := vh.NewNDJSON(t, filepath.Join(dir, "trace.ndjson"))
	cases := 0
	emit := func(ln line) {
		w.Put(ln)
		cases++
		for _, nt := range ln.Notes {
			res.Violate("fields-note "+first(nt, 60), fmt.Sprintf("shape %v prefix %q forms %v (%s): %s", ln.Shape, ln.Prefix, ln.Forms, ln.Mode, nt), ln)
		}
		if cases%997 == 1 {
			res.Sample(ln)
		}
	}
	all := shapes(maxLen)
	for _, sh := range all {
		for _, p := range prefixes {
			for _, f1 := range forms {
				for _, f2 := range forms {
					fm := map[string]string{join(p, "n1"): f1, join(p, "n2"): f2}
					emit(runCase("apply", sh, p, fm))
					if f1 == "missing" || f2 == "missing" {
						emit(runCase("applyc", sh, p, fm))
					}
					if f1 != "missing" && f2 != "missing" && slowConstructions < 3 {
						emit(runCase("newstore", sh, p, fm))
					}
				}
			}
		}
	}
	// longer random shapes
	r := vh.Rand(5)
	for i := 0; i < nrand; i++ {
		n := 3 + r.Intn(4)
		var sh []field
		emb := map[string]bool{}
		for len(sh) < n {
			f := field{kinds[r.Intn(len(kinds))], baseNames[r.Intn(2)]}
			if (f.Kind == "float" || f.Kind == "emptyname" || f.Kind == "emptyjson") && r.Intn(4) > 0 {
				continue // keep most shapes acceptable
			}
			if f.Kind == "untagged" || f.Kind == "float" || f.Kind == "emptyname" || f.Kind == "emptyjson" {
				f.Name = "n1"
			}
			if f.Kind == "embedded" {
				if emb[f.Name] {
					continue
				}
				emb[f.Name] = true
			}
			sh = append(sh, f)
		}
		p := prefixes[r.Intn(3)]
		fm := map[string]string{join(p, "n1"): forms[r.Intn(len(forms))], join(p, "n2"): forms[r.Intn(len(forms))]}
		mode := "apply"
		if fm[join(p, "n1")] != "missing" && fm[join(p, "n2")] != "missing" && r.Intn(2) == 0 {
			mode = "newstore"
		}
		if mode == "newstore" && slowConstructions >= 3 {
			mode = "apply"
		}
		prefill = i%2 == 1
		emit(runCase(mode, sh, p, fm))
		prefill = false
		for _, nt := range noLookup(sh, p) {
			res.Violate("fields-note "+first(nt, 60), fmt.Sprintf("shape %v prefix %q: %s", sh, p, nt), map[string]any{"shape": sh, "prefix": p})
		}
	}
	w.Close()
	// arguments that are not pointers to structs are rejected up front
	type plain struct {
		A string `setec:"a"`
	}
	for name, arg := range map[string]any{"struct value": plain{}, "pointer to int": new(int), "string": "x", "pointer to pointer": new(*plain), "slice": []plain{}} {
		func() {
			defer func() {
				if r := recover(); r != nil {
					res.Violate("fields-arg "+name, fmt.Sprintf("ParseFields(%s) panicked: %v", name, r), nil)
				}
			}()
			if _, err := setec.ParseFields(arg, "p"); err == nil {
				res.Violate("fields-arg "+name, fmt.Sprintf("ParseFields accepted a %s", name), nil)
			}
		}()
	}
	res.Set("cases", cases)
	res.Set("shapes", len(all))
	res.Write(t)
}

func first(s string, n int) string {
	if len(s) > n {
		return s[:n]
	}
	return s
}
