// Package glob binds spec/Glob.tla and spec/ACL.tla to acl.Secret.Match and
// acl.Rules.Allow (property C07).
package glob

import (
	"encoding/json"
	"fmt"
	"os"
	"path/filepath"
	"sort"
	"strings"
	"testing"

	"github.com/tailscale/setec/acl"
	"verifharness/vh"
)

type row struct {
	P []int   `json:"p"`
	M [][]int `json:"m"`
}

type domain struct {
	Sigma []int `json:"sigma"`
	MaxP  int   `json:"maxp"`
	MaxN  int   `json:"maxn"`
}

func seqs(sigma []int, max int) [][]int {
	out := [][]int{{}}
	level := [][]int{{}}
	for k := 1; k <= max; k++ {
		var next [][]int
		for _, s := range level {
			for _, c := range sigma {
				n := append(append([]int{}, s...), c)
				next = append(next, n)
			}
		}
		out = append(out, next...)
		level = next
	}
	return out
}

func key(cps []int) string { return fmt.Sprint(cps) }

// safeMatch runs the real matcher, converting a panic into a reported outcome.
func safeMatch(p, n string) (res bool, panicked any) {
	defer func() { panicked = recover() }()
	return acl.Secret(p).Match(n), nil
}

func safeAllow(rr acl.Rules, a acl.Action, n string) (res bool, panicked any) {
	defer func() { panicked = recover() }()
	return rr.Allow(a, n), nil
}

// TestTable replays the complete match table computed by TLC from Glob!Match
// (rows.ndjson: one row per pattern of the bounded domain, listing exactly the
// names of the domain that match) against the real acl.Secret.Match.
func TestTable(t *testing.T) {
	dir := vh.Dir(t)
	res := vh.NewResult(t, "glob-table")
	var dom domain
	b, err := os.ReadFile(filepath.Join(dir, "domain.json"))
	if err != nil {
		t.Fatal(err)
	}
	if err := json.Unmarshal(b, &dom); err != nil {
		t.Fatal(err)
	}
	names := seqs(dom.Sigma, dom.MaxN)
	pats := seqs(dom.Sigma, dom.MaxP)
	nameStr := make([]string, len(names))
	for i, n := range names {
		nameStr[i] = vh.FromRunes(n)
	}
	rows := map[string]map[string]bool{}
	vh.ReadNDJSON(t, filepath.Join(dir, "rows.ndjson"), func(r row) {
		m := map[string]bool{}
		for _, n := range r.M {
			m[key(n)] = true
		}
		rows[key(r.P)] = m
	})
	if len(rows) != len(pats) {
		t.Fatalf("TLC produced %d rows, domain has %d patterns (tool trouble, no verdict)", len(rows), len(pats))
	}
	evals, nontrivial := 0, 0
	for _, p := range pats {
		want := rows[key(p)]
		ps := vh.FromRunes(p)
		for i, n := range names {
			got, pan := safeMatch(ps, nameStr[i])
			evals++
			w := want[key(n)]
			if w || strings.Contains(ps, "*") {
				nontrivial++
			}
			if pan != nil {
				res.Violate(fmt.Sprintf("match-panic p=%q n=%q", ps, nameStr[i]), fmt.Sprintf("acl.Secret(%q).Match(%q) panicked: %v", ps, nameStr[i], pan),
					map[string]any{"kind": "match", "p": p, "n": n})
				continue
			}
			if got != w {
				res.Violate(fmt.Sprintf("match p=%q n=%q", ps, nameStr[i]),
					fmt.Sprintf("acl.Secret(%q).Match(%q) = %v, specification Glob!Match says %v", ps, nameStr[i], got, w),
					map[string]any{"kind": "match", "p": p, "n": n, "want": w})
			}
		}
	}
	res.Set("evaluations", evals)
	res.Set("nontrivial", nontrivial)
	res.Set("patterns", len(pats))
	res.Set("names", len(names))
	res.Sample(map[string]any{"pattern": "a*", "matching_names_in_domain": len(rows[key([]int{97, 42})])})
	res.Write(t)
}

type ruleJ struct {
	Action []string `json:"action"`
	Secret [][]int  `json:"secret"`
}

type matchEvent struct {
	Ev    string `json:"ev"`
	P     []int  `json:"p"`
	N     []int  `json:"n"`
	Res   bool   `json:"res"`
	Panic bool   `json:"panic"`
}

type allowEvent struct {
	Ev     string  `json:"ev"`
	N      []int   `json:"n"`
	Rules  []ruleJ `json:"rules"`
	Action string  `json:"action"`
	Res    bool    `json:"res"`
	Panic  bool    `json:"panic"`
}

var alphabet = []rune{'*', '*', '*', '/', '.', '\n', 'a', 'b', '+', '\\', '[', ']', '$', '^', '(', ')', '?', '|', '{', '}', 'é', '世', ' ', '\U0001F511', ' ', '\t', '\r', 0, '-', '_',
	'\\', 'E', 'Q', 'E', 'd', 'w', 'z', 'A', 'x', 'p'} // letters that mean something after a backslash in regular-expression dialects

// TestRandom records the real matcher's answers on generated inputs as a trace
// that TLC validates against Glob!Match / ACL!Allow (direction B).
func TestRandom(t *testing.T) {
	dir := vh.Dir(t)
	res := vh.NewResult(t, "glob-random")
	r := vh.Rand(7)
	n := vh.EnvInt("VERIF_N", 300)
	maxLen := vh.EnvInt("VERIF_MAXLEN", 24)
	w := vh.NewNDJSON(t, filepath.Join(dir, "trace.ndjson"))
	defer w.Close()
	genPat := func(max int) []rune {
		l := r.Intn(max + 1)
		if r.Intn(4) == 0 {
			l = r.Intn(4)
		}
		p := make([]rune, l)
		for i := range p {
			p[i] = alphabet[r.Intn(len(alphabet))]
		}
		return p
	}
	// expand derives a name from the pattern by replacing stars with random runs,
	// then (sometimes) mutates it, so both outcomes are frequent.
	expand := func(p []rune) []rune {
		var out []rune
		for _, c := range p {
			if c == '*' {
				k := r.Intn(4)
				for i := 0; i < k; i++ {
					out = append(out, alphabet[3+r.Intn(len(alphabet)-3)])
				}
			} else {
				out = append(out, c)
			}
		}
		switch r.Intn(6) {
		case 0:
			if len(out) > 0 {
				i := r.Intn(len(out))
				out = append(out[:i:i], out[i+1:]...)
			}
		case 1:
			i := r.Intn(len(out) + 1)
			out = append(out[:i:i], append([]rune{alphabet[r.Intn(len(alphabet))]}, out[i:]...)...)
		case 2:
			if len(out) > 0 {
				out[r.Intn(len(out))] = alphabet[3+r.Intn(len(alphabet)-3)]
			}
		}
		return out
	}
	distinct := map[string]bool{}
	// the five actions of the API, plus strings that are no action at all (a typo or a newer release's action in a policy
	// file, an empty string): a rule listing one grants nothing the API asks for, and asking for one is granted only by a
	// rule that lists that very string
	actions := []string{"get", "info", "put", "activate", "delete", "list", "", "Get", "create"}
	for i := 0; i < n; i++ {
		if i%3 != 2 {
			p := genPat(maxLen)
			nm := expand(p)
			got, pan := safeMatch(string(p), string(nm))
			e := matchEvent{Ev: "match", P: vh.Runes(string(p)), N: vh.Runes(string(nm)), Res: got, Panic: pan != nil}
			w.Put(e)
			distinct[fmt.Sprint(e.P, e.N)] = true
			if i < 3 {
				res.Sample(e)
			}
			continue
		}
		// a rule set
		nr := r.Intn(6)
		var rules acl.Rules
		var rj []ruleJ
		var somePat []rune
		var allPats [][]rune
		for k := 0; k < nr; k++ {
			var rule acl.Rule
			j := ruleJ{Action: []string{}, Secret: [][]int{}}
			for _, a := range actions {
				if (len(a) > 0 && a[0] >= 'a' && a != "list" && a != "create" && r.Intn(5) < 2) || r.Intn(12) == 0 {
					rule.Action = append(rule.Action, acl.Action(a))
					j.Action = append(j.Action, a)
				}
			}
			for s := r.Intn(3); s > 0; s-- {
				p := genPat(maxLen / 2)
				somePat = p
				allPats = append(allPats, p)
				rule.Secret = append(rule.Secret, acl.Secret(string(p)))
				j.Secret = append(j.Secret, vh.Runes(string(p)))
			}
			rules = append(rules, rule)
			rj = append(rj, j)
		}
		if rj == nil {
			rj = []ruleJ{}
		}
		if r.Intn(2) == 0 {
			// the same rule set laid out the way a policy table may hold it: every rule's patterns (and actions) are
			// consecutive sub-slices of ONE backing array, so each slice has spare capacity running into its neighbours
			var pats []acl.Secret
			var acts []acl.Action
			for _, rule := range rules {
				pats = append(pats, rule.Secret...)
				acts = append(acts, rule.Action...)
			}
			pi, ai := 0, 0
			for k := range rules {
				np, na := len(rules[k].Secret), len(rules[k].Action)
				rules[k].Secret = pats[pi : pi+np]
				rules[k].Action = acts[ai : ai+na]
				pi, ai = pi+np, ai+na
			}
		}
		// many evaluations of the same rule set value -- every action, names made from every pattern of the set, twice over:
		// each must answer for the rule set as it was given
		names := [][]rune{expand(somePat)}
		for _, p := range allPats {
			names = append(names, expand(p))
		}
		for pass := 0; pass < 2; pass++ {
			for ai, a := range actions {
				nm := names[(ai+pass)%len(names)]
				if pass == 1 {
					nm = names[r.Intn(len(names))]
				}
				got, pan := safeAllow(rules, acl.Action(a), string(nm))
				e := allowEvent{Ev: "allow", Rules: rj, Action: a, N: vh.Runes(string(nm)), Res: got, Panic: pan != nil}
				w.Put(e)
				distinct[fmt.Sprint(rj, a, e.N)] = true
				if i < 6 && pass == 0 && ai == 0 {
					res.Sample(e)
				}
			}
		}
	}
	res.Set("events", n)
	res.Set("distinct", len(distinct))
	res.Write(t)
}

// TestReplay re-executes one recorded case (VERIF_REPLAY) and prints the real answer.
func TestReplay(t *testing.T) {
	path := os.Getenv("VERIF_REPLAY")
	if path == "" {
		t.Skip("no VERIF_REPLAY")
	}
	b, err := os.ReadFile(path)
	if err != nil {
		t.Fatal(err)
	}
	var doc struct {
		Replay json.RawMessage `json:"replay"`
	}
	if err := json.Unmarshal(b, &doc); err != nil {
		t.Fatal(err)
	}
	var c struct {
		Kind   string  `json:"kind"`
		P      []int   `json:"p"`
		N      []int   `json:"n"`
		Rules  []ruleJ `json:"rules"`
		Action string  `json:"action"`
		Want   *bool   `json:"want"`
	}
	if err := json.Unmarshal(doc.Replay, &c); err != nil {
		t.Fatal(err)
	}
	if c.Kind == "allow" || c.Rules != nil {
		var rules acl.Rules
		for _, r := range c.Rules {
			var rule acl.Rule
			for _, a := range r.Action {
				rule.Action = append(rule.Action, acl.Action(a))
			}
			for _, s := range r.Secret {
				rule.Secret = append(rule.Secret, acl.Secret(vh.FromRunes(s)))
			}
			rules = append(rules, rule)
		}
		got, pan := safeAllow(rules, acl.Action(c.Action), vh.FromRunes(c.N))
		fmt.Printf("REPLAY allow(%v, %q, %q) = %v panic=%v\n", c.Rules, c.Action, vh.FromRunes(c.N), got, pan)
		return
	}
	got, pan := safeMatch(vh.FromRunes(c.P), vh.FromRunes(c.N))
	fmt.Printf("REPLAY acl.Secret(%q).Match(%q) = %v panic=%v\n", vh.FromRunes(c.P), vh.FromRunes(c.N), got, pan)
	if c.Want != nil && got != *c.Want {
		fmt.Printf("REPLAY-MISMATCH want %v\n", *c.Want)
	}
	_ = sort.Ints
}
